"""Property -> units table (claimed properties) and the not-applicable list.

level: evidence level the check reports ("proof" only when every obligation is
unbounded Verus or loop-free full-domain Kani; any bounded obligation => model_checking).
"""

PENDING = "unit not built yet in this session (planned in DESIGN.md section 5); not claimed until its check exists"

PROPS = {
    "C15": dict(
        units=["u1_int", "u17_codegen", "u9_opt"],
        level="proof",
        level_text=("Every integer arithmetic arm of VmGreenThread::step (+ - * / % ^ and their immediate forms) and "
                    "checked_pow_int are cut from vm.rs on each run and verified by Verus, for all operand values and all "
                    "register configurations, against the mathematical specification transcribed from the property "
                    "(exact result iff it fits, truncating /, Euclidean %, documented error otherwise). Kani twins re-prove "
                    "the outcome class on the real stack helpers for all 2^128 operand pairs."),
        level_note=("Trusted: Verus/Z3, Kani/CBMC, the slicer and rewrite rules R0/R2/R3; vstd specs of checked_add/sub/mul/div/"
                    "rem_euclid; assumed std contract for i64::checked_pow; stack helper and value-encoding contracts (proved "
                    "separately on the real helpers by Verus unit u4v_stack and Kani unit u4_plumbing). That the operators + - * / % ^, "
                    "the compound assignments and unary minus reach those opcodes is checked SYNTACTICALLY on the fixed tables of "
                    "translate_bytecode.rs / assembly.rs (unit u17_codegen; reported under bounded_or_syntactic, not counted as proofs). "
                    "Not covered: operand evaluation order and the rest of code generation, dispatch in step()."),
        technique="deductive verification (Verus/Z3) of lifted real match arms + Kani function-level twins",
        scope="VM arms for + - * / % ^ and their immediate forms against the mathematical spec of C15",
        assumptions=[],
    ),
    "C24": dict(
        units=["u16_prelude", "u1_int", "u2_float", "u3_str", "u4a_ctrl", "u9_opt"],
        level="proof",
        level_text=("Prelude Equal/Ord/Hash impls for bool, void and 2-4-tuples are cut from modules/prelude.abra by name on each run, "
                    "parsed by a subset parser mirroring parse.rs, symbolically evaluated, and each law (equivalence, le<=>not lt swapped, "
                    "ge<=>le swapped, gt<=>lt swapped, totality, lt irreflexive/transitive/consistent with equal, equal=>equal hashes) "
                    "is discharged by Z3 for all values (tuples: for every lawful component type). int comparisons are the VM arms "
                    "LessThanInt..EqualInt(Imm), proved by Verus to store exactly a<b, a<=b, a>b, a>=b, a==b over mathematical integers, "
                    "from which the order laws are immediate; `!=` is shown syntactically to be Equal followed by Not."),
        level_note=("Equal and Hash for array<T> (loops in Abra source) are decided by BOUNDED symbolic execution of the real text: every pair of lengths 0..4 "
                    "(6 thorough; transitivity 0..3), symbolic elements of a lawful component type (reflexive, symmetric, transitive, `!=` is the negation, "
                    "equal <=> same length and equal elements, equal => equal hashes): bounded, not proved. Hash for string is not claimed; "
                    "float comparison arms (one total order over all bit patterns, immediate forms included: Kani) and string comparison arms (lex order "
                    "proved a total order: Verus) are the obligations of u2_float / u3_str tagged C24; bool == / not are u4a_ctrl's. Trusted: U16's own parser/evaluator (refuses anything "
                    "outside its subset; mutant self-test, cvc5 cross-check and differential test against the real CLI in the thorough tier), "
                    "Z3, Verus, impl selection/monomorphisation by the type checker. Syntactic obligations (C24.prelude.{int,float,string}.*_delegates, "
                    "C24.codegen.*) prove code shape, not values."),
        technique="own VC generator for the loop-free Abra subset -> Z3, plus Verus proofs of the VM comparison arms",
        scope="bool, void, tuples up to 4 (for lawful components), int, float, string; arrays bounded",
        assumptions=[],
    ),
    "C01": dict(
        units=["u4v_stack", "u4a_ctrl", "u4_plumbing", "u1_int", "u3_str", "u5v_array", "u5_array", "u9_opt"],
        level="model_checking",
        level_text=("VM half of the property only: every arm of step() that the units cover is verified to run without panic, "
                    "out-of-bounds access, arithmetic overflow or wrong-tag read under its operand precondition (tags as the opcode "
                    "name says, enough operands on the stack, constant indices in range), to stop only with the documented runtime "
                    "errors, and to leave the stack exactly as its contract says (Return/ReturnVoid: caller depth restored whatever the "
                    "callee left). Stack/register helpers, stack/jump/constant/call arms, integer and string arms are Verus proofs for "
                    "stacks of any size; value encodings are loop-free Kani proofs over all bit patterns; heap-touching arms (struct, "
                    "variant, closure, array) are Kani proofs on concrete small shapes (bounded). The peephole optimizer's contracts (u9_opt: "
                    "predicates, replace_*, windows - Verus over all opcodes) also count here: a rewrite that drops a push or mistypes an operand is an internal fault."),
        level_note=("Not decided: that the translator only emits code meeting each arm's operand precondition (typing of "
                    "translate_bytecode.rs; e.g. break/continue in operand position), dispatch in step(), arms not listed in the evidence "
                    "(float math intrinsics, StringFrom*, SpawnTask, Channel*, Panic, CallForeign). Trusted: Verus/Z3, Kani/CBMC, slicer and "
                    "rewrite rules, vstd Vec specs, 64-bit usize."),
        technique="deductive verification (Verus) of lifted real match arms and real helper functions + Kani harnesses on the real vm.rs",
        scope="VM-level safety and stack discipline of step() arms",
        assumptions=["operand preconditions of the arms are assumed to be established by the compiler (not verified)"],
    ),
    "C17": dict(
        units=["u3_str", "u9_opt"],
        level="proof",
        level_text=("The six string comparison arms and ConcatStrings are cut from vm.rs and verified by Verus as resumable state "
                    "machines: from any state satisfying the invariant (common prefix of length idx / builder == (a++b)[..i1+i2]) one "
                    "step either finishes with exactly lex order / a++b (byte sequences, any length, any bytes) or consumes one byte, "
                    "rewinds pc, preserves the invariant and decreases the measure - hence the result is independent of step budgets. "
                    "lex order = first differing byte decides, proper prefix is smaller; proved a total order."),
        level_note=("Strings are their UTF-8 byte sequences (R4); content of a string object is a function of its pointer (immutability; "
                    "liveness during the operation is C06's obligation, where string_operand1/2 are roots); from_utf8 of a concatenation of "
                    "valid UTF-8 is assumed to succeed; that `!=` is Equal followed by Not is a syntactic check in C24's unit."),
        technique="deductive verification (Verus) of lifted real match arms with per-step inductive contracts + Verus on the real optimizer (operand fusion / dest replacement keep the opcode)",
        scope="string arms of the VM; optimizer rewrites of the string instructions",
        assumptions=[],
    ),
    "C26": dict(
        units=["u5v_array", "u5_array", "u3_str", "u16_prelude"],
        level="model_checking",
        level_text=("VM array instructions: the element-level arms GetIndex, SetIndex, ArrayLength, ArrayPop, ArrayPush, ArrayPushIntImm are "
                    "lifted verbatim and PROVED by Verus against the sequence model for arrays of every length, all element values and all i64 "
                    "indices (the array operand enters the lifted arm as a parameter, rule R8; the push arms use an assumed contract of std Vec, "
                    "rule R9); all eight arms (also ConstructArray, DeconstructArray) additionally run on the real pointer code under Kani at "
                    "every array length 0..3; out-of-range indexing and popping an empty array stop with the array-out-of-bounds runtime error."),
        level_note=("Kani obligations bounded by array length <= 3 (ConstructArray/DeconstructArray only there). The loop-free prelude members len/is_empty/push/pop/swap/remove/bounds are cut from "
                    "modules/prelude.abra and checked against a list model by the unit's own VC generator (Z3 sequences; remove.permutation bounded to "
                    "lists <= 6, the rest for all lengths), with the VM-arm contracts as the meaning of the primitives. The members with loops (clear, find, contains, filled, "
                    "Clone for array, iteration = Iterable/ArrayIterator.next) are decided by BOUNDED symbolic execution of the real prelude text "
                    "(`for` desugared as translate_stmt does, `for i in n` from the cut Iterable-for-int text): symbolic elements, every list length "
                    "0..4 (6 thorough), unwinding assertions, object identities for the independence of clone/filled results: bounded, not proved. "
                    "sort/sort_by/sort_by_key are not decided (C25). string_nth_byte bounds is a Verus proof in u3_str."),
        technique="Verus on lifted real array arms (all lengths) + Kani harnesses on the real vm.rs (one per concrete array length) + own VC generator -> Z3 for loop-free prelude array members (all lengths) and bounded unrolling for the looping ones + Verus for StringNthByte",
        scope="array arms of the VM; array members of prelude.abra except sorting",
        assumptions=[],
    ),
    "C31": dict(
        units=["u12_prec"],
        level="model_checking",
        level_text=("Precedence functions and token->operator maps are proved (Kani, loop-free, every operator/token) against the table in "
                    "book/src/language_reference/operators.md read on each run; the real Pratt loop (parse_expr_bp/handle_postfix_expr, "
                    "sliced) is executed on every token string of length <= 7 (8 thorough) over 27 tags and must build the reference tree."),
        level_note=("The Pratt-loop obligations are exhaustive bounded execution of the sliced real code (CBMC could not afford it): bounded, "
                    "not proved. Terms and call arguments are stubs; lexer, parentheses, lambdas not covered. One known finding: unary minus "
                    "before a numeric literal groups differently (-2 % 3)."),
        technique="Kani loop-free full-domain harnesses + exhaustive bounded execution of the sliced real Pratt loop against a reference built from operators.md",
        scope="precedence tables and Pratt loop",
        assumptions=[],
    ),
    "C18": dict(
        units=["u13_named_args"],
        level="model_checking",
        level_text=("calculate_func_call_order and calculate_named_arg_order (sliced with the real resolve_identifier/SymbolTable, compiled against the "
                    "real utils crate) are executed on all 11,715 call shapes with arity <= 3, <= 4 arguments, every subset of defaults and names "
                    "{a,b,c,zz}: a diagnostic is produced exactly for the property's misuses (name that is not a parameter; the same parameter "
                    "twice, named+named or positional+named; required parameter missing; positional after named); well-formed calls record the "
                    "positional order with defaults filled in, every recorded order is complete; no input panics."),
        level_note=("Exhaustive bounded execution, not a proof; StaticsContext reduced to the four fields the code touches. The translator's "
                    "emission order is not covered; surplus positional arguments are silently dropped (excluded from the domain, reported in DESIGN.md). "
                    "A bounded black-box obligation on the real CLI (`C18.cli.named_args.sampled`: 154 well-formed call shapes for each of the four callee "
                    "kinds - free function, struct constructor, method-syntax member function, enum variant constructor - and 78 misuse shapes) runs next to "
                    "them: it is the only check of the code AROUND the two functions (argument details per callee kind, consumers of the recorded order) and "
                    "the only one left when the functions can no longer be sliced; never counted as proved."),
        technique="exhaustive bounded execution of the sliced real function with type-substituted arguments + bounded CLI stand-in for the four callee kinds",
        scope="named/default argument ordering leaf; callee kinds sampled on the CLI",
        assumptions=[],
    ),
    "C13": dict(
        units=["u14_exhaustiveness"],
        level="model_checking",
        level_text=("Constructor::is_covered_by: Int/Bool/Product/Wildcard pairs proved by Kani over full domains; float and string literal "
                    "spellings (every lexable spelling of length <= 5 over digits 0,1,5,9 plus long spellings) checked exhaustively: covered "
                    "iff both spellings denote the same binary64 value. ConstructorSet::split partition facts for Bool/Product/Unlistable."),
        level_note=("Second sentence of the property and leaves only: the usefulness recursion (unspecialize), arity, the enum split and the construction "
                    "of the pattern matrix from the AST are not under contract (same obstacle as C12); a bounded black-box stand-in samples the whole "
                    "checker (`C13.cli.redundancy.sampled`: 324 matches over a two-bool record - named patterns in both field orders, positional - and a "
                    "(bool, bool) tuple, against a four-value model written from the statement). Float part is bounded enumeration, not proof."),
        technique="Kani loop-free harnesses + exhaustive bounded execution of sliced real leaves + bounded CLI stand-in for the whole redundancy check",
        scope="exhaustiveness leaves; sampled whole-checker redundancy verdicts",
        assumptions=[],
    ),
    "C16": dict(
        units=["u2_float", "u17_codegen", "u9_opt"],
        level="proof",
        level_text=("Float arms of step() on the real vm.rs, Kani loop-free over all bit patterns of every operand: + - * (register and "
                    "immediate forms) apply the IEEE operator to (a, b) in that order and never stop; / stops with DivisionByZero exactly "
                    "for a +-0.0 divisor, identically for literal and variable divisors; the five comparison arms and their immediate "
                    "forms form one total order (le == !lt swapped, ge == le swapped, gt == lt swapped, eq == le && ge, trichotomy, "
                    "reflexive, symmetric, transitive, consistent with numeric < on non-NaN); IntFromFloat never stops and truncates "
                    "toward zero for |f| < 2^62; FloatFromInt is finite, exact below 2^53 and monotone. The 16 libm arms (PowerFloat(Imm), Atan2, Ceil, Floor, "
                    "Round, SquareRoot, Sin..Log10) are proved to DELEGATE: with the std function replaced by a recorder (kani::stub) the arm calls "
                    "it exactly once on its operands in the written order and stores exactly the returned value, for all bit patterns."),
        level_note=("Assumed: Rust f64 operators are IEEE-754 binary64; quotient values are not recomputed (CBMC cost). NOT verified: the VALUES of powf "
                    "(^), sqrt, sin..log10, ceil/floor/round (std/libm, no model in CBMC); unary float minus lowering (0.0 - x) and that "
                    "float literals / folded constants denote the nearest binary64 (str::parse::<f64> / f64::to_string round trip, std). "
                    "Kani's own NaN/float-overflow checks are switched off because they reject legitimate IEEE results."),
        technique="Kani loop-free full-domain harnesses on lifted real match arms",
        scope="float arithmetic/comparison/conversion arms of the VM",
        assumptions=[],
    ),
    "C37": dict(
        units=["u15_utils"], level="model_checking",
        level_text=("utils/src/id_set.rs is copied from the working tree on every run (2 `use` lines redirected to an association-list map, rule R5) "
                    "and model-checked with Kani/CBMC: for every equality pattern of histories of <=3 inserts (thorough: <=4 for insert) each operation "
                    "(new, insert, try_get_id, get_id, index, contains, len, clear, iter, into_iter, clone) agrees with an insertion-ordered vector model and "
                    "re-establishes the representation invariant (every interned pointer and map key points into this set's own buffers); after clone, dropping "
                    "or clearing+reusing the original leaves the clone valid (CBMC dereference checks)."),
        level_note=("Bounded: T=u8, concrete representative values per equality pattern, quick tier 3 patterns (iterators: one history). Assumed: std HashMap is a "
                    "finite map (stub R5). Not covered: Stacked/Tree-Borrows aliasing (Miri's default Stacked Borrows rejects IdSet's pointer scheme; Tree Borrows "
                    "accepts it), element types with Drop (only in the native Miri replay)."),
        technique="bounded model checking (Kani/CBMC) of the real file against a vector model + native Miri replay on the real crate",
        scope="IdSet<T>: ids, lookups, iteration order, clone independence",
        assumptions=[]),
    "C38": dict(
        units=["u15_utils"], level="model_checking",
        level_text=("utils/src/arena.rs and arena_ref.rs are copied byte-for-byte on every run; Kani/CBMC proves the one-step inductive contract "
                    "{offset <= current_buf.len()} alloc::<T>(v) {pointer inside the current buffer, aligned as an address, at/after the old offset or in a fresh "
                    "buffer with the old one retained in old_bufs, invariant re-established and offset past the block} for T in {u8,u16,u64,u128,[u8;3],[u8;24],[u64;5]} "
                    "from an arbitrary state, with an allocator model that returns any permitted address; with_capacity/new establish the invariant."),
        level_note=("Bounded: buffer length <=64, seven fixed T, old_bufs empty in the pre-state, addresses modulo 16. Allocator model is a stub of std::alloc::alloc. "
                    "Uninitialised-memory and aliasing-model UB are not checked by CBMC (Miri replay covers concrete runs)."),
        technique="one-step inductive bounded model checking (Kani/CBMC) on the real file + native Miri replay",
        scope="Arena::alloc / with_capacity / new",
        assumptions=[]),
    "C06": dict(
        units=["u6_gc"], level="model_checking",
        level_text=("Executable invariant over the real VmGreenThread fields (tri-colour, roots, sweep closure, heap_size); inductive step {inv} op {inv} "
                    "for every collector step (start_mark_phase, process_gray, sweep, maybe_gc), write_barrier, every allocating constructor and 18 mutator "
                    "arms on the real vm.rs: exhaustive enumeration of every pre-state of bounded heap shapes run on the real code, plus Kani/CBMC on "
                    "concrete-shape symbolic worlds and a multi-step scenario (pop during mark); collector steps free nothing reachable and change nothing "
                    "the program can see. Because each obligation is an inductive step from an arbitrary invariant-satisfying state, histories and "
                    "interleavings of collection work with program steps are unbounded; the heap SHAPE is bounded."),
        level_note=("Bounded heap shape (<=2 objects quick / 3 thorough, <=2 fields, stack <=2-3). The inductive obligations are exhaustive bounded execution of "
                    "the real code (CBMC could not afford an arbitrary symbolic heap: 13 min / died), labelled bounded. Channels, deep_copy/spawn not covered "
                    "(C08/C09); step() dispatch and Call/Return arms not run; arms run under their typing preconditions."),
        technique="inductive invariant; exhaustive bounded execution of the real collector + bounded model checking (Kani/CBMC)",
        scope="maybe_gc, start_mark_phase, mark, process_gray, write_barrier, sweep, object constructors, heap-touching arms",
        assumptions=[]),
    "C07": dict(
        units=["u6_gc", "u5v_array"], level="model_checking",
        level_text=("Drop for VmGreenThread releases every object once with its own layout and heap_size returns to 0 (CBMC double-free/layout/leak checks); "
                    "the owner of static_strings releases what new_static leaked (CBMC memory-leak check); sweep makes progress (ranking function len - index); "
                    "heap accounting: every collector step, constructor and heap-touching arm preserves heap_size == sum of the objects' nbytes (clause of the "
                    "GC invariant; it is what the collection trigger heap_size > 2 * last_gc_heap_size is computed from) - exhaustive bounded execution."),
        level_note=("Second sentence of the property plus sweep progress only; the pacing claim (bounded heap for bounded live data, eventual reclamation) is a "
                    "whole-history property and is not decided. Note: gc_debt is never reset, so increments are effectively whole phases."),
        technique="Kani/CBMC with --memory-leak-check + exhaustive bounded execution",
        scope="impl Drop for VmGreenThread, ObjectHeader::dealloc, StringObject::new_static / VmSharedReadonly, sweep",
        assumptions=[]),
    "C04": dict(
        units=["u11_lexer", "u13_named_args"], level="model_checking",
        level_text=("Lexer and one resolver leaf only. Whole tokenize_file: exhaustive bounded execution of the verbatim lexer.rs on every text of <= 5 (7 thorough) "
                    "atoms over a 21-atom alphabet (no panic, Eof last, spans ordered, only lexer diagnostics). No panic/overflow/out-of-bounds in scan_for_unescaped_delim, Lexer::handle_num, "
                    "process_escapes_into, the comment arm of tokenize_file, emit/emit_with_skipped for all inputs within the stated bounds (Kani on the "
                    "verbatim lexer.rs); the keyword table round-trips (complete); calculate_named_arg_order never panics on any of the 11,715 call shapes "
                    "of arity <= 3 (exhaustive bounded execution)."),
        level_note=("tokenize_file's main loop, Lexer::new and handle_multiline_string are covered only by the bounded enumeration (CBMC exceeds 600 s at 2 chars). NOT covered: the parser, the "
                    "rest of the resolver, the type checker and the exhaustiveness checker. Trusted: std stubs for String::push / Vec::push / count_chars; "
                    "pointer checks off (lexer.rs has no unsafe, checked each run)."),
        technique="Kani/CBMC bounded function-level verification of the verbatim lexer.rs (R6 stubs, one lifted arm, R7 copy for escapes) + exhaustive bounded execution of a resolver leaf",
        scope="lexer functions and calculate_named_arg_order",
        assumptions=[]),
    "C29": dict(
        units=["u11_lexer", "u19_seplist", "u12_prec"], level="model_checking",
        level_text=("Lexer half: the lifted '/' arm of tokenize_file: `//` lands on the next newline or end of input; `/*` lands just after the first `*/` (or at "
                    "end of input); no token is produced for the comment; comment bodies of <= 5 (7 thorough) chars over {* / newline a e-acute space \\ \" '}; "
                    "whole tokenize_file on every text of <= 5 atoms (comment and string atoms included). Parser half: the real parse_delimited_list "
                    "(argument lists, tuples, arrays, fields with `,`; statement blocks with `;`) and the top-level item loop of parse_file accept exactly "
                    "the grammar `NL* (item (sep NL* item)* sep? NL*)? close` with sep = separator token or one Newline, return the items in order, and "
                    "parse a string and each of its separator<->newline / extra-newline edits identically: every token string of length <= 12 (16 thorough); "
                    "the real parse_expr parses `Newline Newline s` exactly as parse_expr_bp(0) parses s (every operator/term token string of length <= 7, 8 thorough)."),
        level_note=("Lexer arm is a lifted slice; the parser obligations are exhaustive native execution of the sliced real functions with one-token "
                    "production stubs: bounded, not proved. Comments BETWEEN tokens reach the parser as no token at all (lexer obligation), so the two "
                    "halves compose; what a production parses is outside (C31 for expressions)."),
        technique="Kani/CBMC bounded verification of a lifted match arm of the verbatim lexer.rs + exhaustive bounded execution of the sliced real parse_delimited_list / top-level loop + CLI replay",
        scope="comment skipping in the lexer; separator handling of the parser's list helper and top-level loop",
        assumptions=[]),
    "C30": dict(
        units=["u11_lexer", "u4a_ctrl", "u18_literals"], level="model_checking",
        level_text=("Lexer half: handle_num token text/kind/length (digits in order, `_` removed, one `.` kept); process_escapes_into equals the spec function "
                    "unescape (\\n \\t \\r \\\" \\' \\\\ \\xNN) with a diagnostic iff any other escape; scan_for_unescaped_delim returns the first delimiter after an "
                    "even backslash run. VM half (Verus, unbounded): PushInt/PushFloat/PushString push exactly the constant-table entry they name."),
        level_note=("Bounded input length (<= 3-6 chars). Escapes are checked on the R7 copy (format! replaced). The escape spec is written from the property "
                    "statement (the book does not document escapes). Not covered by contracts: multiline strings and indentation stripping; the parser's literal arms "
                    "(negation, range checks in parse_expr_term, str::parse) - for those a fixed table of boundary literals is run on the real CLI "
                    "(unit u18_literals: bounded black-box stand-in, labelled so); constant-table construction in the assembler."),
        technique="Kani/CBMC bounded function-level verification of the verbatim lexer.rs + Verus on the constant-pushing arms",
        scope="numeric literal scanning, escapes, delimiter scanning; constant pushes",
        assumptions=[]),
    "C33": dict(
        units=["u11_lexer", "u20_diag"], level="model_checking",
        level_text=("Span units only: for emit/emit_with_skipped a token's span must equal [byte offset of its first char, byte offset after its last char) of the "
                    "source, on inputs with multi-byte characters (<= 4-6 chars, Kani; open finding); the same postcondition on ASCII-only sources (Kani) and, for "
                    "every ASCII text of <= 5 (7) atoms, the source text under each token's span is that token's text (exhaustive bounded execution of tokenize_file); "
                    "numeric literals: span as long as the literal including `_` separators."),
        level_note=("The postcondition is derived from the byte-indexed consumers (Location::range into codespan, line_number_for_index). One known finding: "
                    "spans are char indices. Parser / type-checker diagnostics are out of every contract's reach (AST locations travel through Rc nodes and the "
                    "checker's maps); a bounded black-box stand-in (`C33.cli.diagnostic_ranges.sampled`: 11 pure-ASCII programs whose leading diagnostic must "
                    "cover exactly the source text of the construct it names) samples them. Not covered: per-error-kind ranges in error.rs beyond that table."),
        technique="Kani/CBMC bounded verification of the verbatim lexer.rs + bounded CLI stand-in for parser/type-checker diagnostics + CLI replay",
        scope="token spans; sampled parser/type-checker diagnostic ranges",
        assumptions=[]),
    "C05": dict(
        units=["u9_opt", "u1_int", "u2_float", "u17_codegen"], level="proof",
        level_text=("Three layers on real text. (1) literal == variable at the VM: every XImm arm is proved against the SAME specification as X (Verus for ints, "
                    "Kani over all bit patterns for floats, incl. the division-by-zero condition). (2) constant folds: each fold arm of peephole3_helper is lifted "
                    "and proved sound against the arm's specification (fold produces c => arm gives c; arm would raise => no fold). (3) window rewrites: the real "
                    "optimize_bytecode.rs (impl Instr predicates / replace_* / peephole1-3 helpers / optimization_pass / optimize) is verified by Verus, symbolically "
                    "over all 113 assembly opcodes and operands, against contracts over an operand layout derived mechanically from the VM arms; Verus lemmas L1-L8 "
                    "show each rewritten window has the same effect on (stack, result) for arms of the fetch/fetch/store shape, including the rule-order side "
                    "condition, register-offset encodability and 16-bit immediate indices; Reg::encode round trip by Kani."),
        level_note=("Assumed: the translator never emits `PushNil(0); Pop` and preallocates locals (Offset operands address slots below a pushed copy); std float "
                    "to_string/parse round trip exact; derived Clone structural; String payloads opaque. Not covered: composition of passes beyond the per-window "
                    "contracts and the immediate-index bound; instr_to_vminstr is a syntactic table check (u17, not counted as proof)."),
        technique="Verus on the real optimizer text + window lemmas over the VM stack vocabulary; Verus/Kani on the VM arms; Kani bit-precise float folds",
        scope="optimize_bytecode.rs, Reg::encode, XImm vs X arms, constant folds",
        assumptions=[]),
    "C32": dict(
        units=["u10_srcloc", "u17_codegen"], level="model_checking",
        level_text=("create_source_location_tables (real text, Verus, unbounded): each table strictly increasing, starts at 0, and the last entry with start <= i "
                    "carries instruction i's file/line/function id. pc_to_error_location (real vm.rs, Kani, tables <= 4 entries): the location reported for pc is "
                    "that of instruction pc-1 (the VM has already incremented pc; call frames hold return addresses). make_stack_trace lists frames outermost "
                    "first and Display prints the failure location then the frames innermost first (Kani, <= 3 frames)."),
        level_note=("Lookups bounded by table length. That translate_stmt / translate_expr record the node's position before emitting is a SYNTACTIC check (u17, not counted as proof); "
                    "otherwise NOT decided: that the translator emits each instruction with the right file/line/function ids; formatting "
                    "beyond order; byte-vs-char offsets in line_number_for_index (see C33's finding)."),
        technique="Verus on the real table builder + Kani bounded harnesses on the real lookup / trace code",
        scope="source-location tables and lookups",
        assumptions=[]),
    "C10": dict(
        units=["u3_str", "u8_sched", "u4a_ctrl"], level="model_checking",
        level_text=("Two mechanisms. (a) Resumable string arms (proof, Verus): the six string comparisons and ConcatStrings are per-step inductive state machines whose "
                    "result is a function of the operands only, whatever the step budgets. (b) Scheduler (bounded): with one runnable thread and no spawns, "
                    "run_n_steps(k1); run_n_steps(k2) performs the same steps and ends in the same status as run_n_steps(k1+k2); a thread with a pending host call is "
                    "skipped and delays only itself (exhaustive execution of the natively compiled real scheduler over a contract-only step() stub: queue <= 3, "
                    "budget <= 4, <= 1 spawn; HostFunc arm proved by Verus to set pending_host_func and nothing else)."),
        level_note=("The scheduler half is exhaustive bounded execution, not proof; VmGreenThread::step is replaced by a contract-only nondeterministic stub whose contract "
                    "is what the arm units prove arm by arm (all 24 flag-setting statements of the real step() are checked textually to be followed by `return false`). "
                    "Output independence for programs with several communicating tasks is a whole-history property and is not decided."),
        technique="Verus per-step inductive contracts on lifted arms + exhaustive bounded execution of the real scheduler + Kani on loop-free calls",
        scope="string arms; Runtime::run_n_steps and below",
        assumptions=["VmGreenThread::step behaves as its contract-only stub (u8_step); ffi feature off"]),
    "C11": dict(
        units=["u8_sched", "u4a_ctrl", "u4_plumbing"], level="model_checking",
        level_text=("Runtime::run_n_steps and below on the real vm.rs with step() replaced by a contract-only stub: steps_consumed <= k and equals the number of step calls; "
                    "Done iff the main thread executed Stop (other tasks runnable, blocked or pending notwithstanding) and no task instruction runs after it in the same "
                    "call; a main-thread error is reported as MainThreadError(kind), never Done; pending host call reported unless main is done; top() after Done reads "
                    "the finished main thread's last slot; no host panic in validate/main(); the representation invariant is established by Runtime::new and preserved. "
                    "Stop/HostFunc arms: Verus proofs. Bounded: queue <= 3, budget <= 4 (5 thorough), <= 1 spawn; Kani for update_status_helper, finish_thread_turn, main lookup."),
        level_note=("Exhaustive bounded execution + Kani, not proof. Behaviours observed on real code that the property does not forbid: after Done further run_n_steps calls "
                    "keep running other tasks; an error in a non-main task is never reported (a main thread waiting on it busy-loops on OutOfSteps); top() after Done "
                    "panics for a program ending in a void expression; run_with_granularity(0) loops forever."),
        technique="exhaustive bounded execution of the natively compiled real scheduler over a contract-only step() stub + Kani on the loop-free calls + Verus on the Stop/HostFunc arms",
        scope="Runtime::run_n_steps and below, except step()",
        assumptions=["VmGreenThread::step behaves as its contract-only stub (u8_step); ffi feature off"]),
    "C08": dict(
        units=["u7_copy"], level="model_checking",
        level_text=("Value::deep_copy and arm SpawnTask on the real vm.rs (Kani): for each of 13 concrete value shapes (scalars of all 4 tags, strings 0-2 bytes, "
                    "struct/tuple/closure, variant, arrays 0-2, struct-of-array, depth-2 nestings, channel) the copy matches the same model as the original, is made "
                    "only of new objects owned by the destination thread (heap lists disjoint, heap_size accounted), the source is untouched, and a mutation through "
                    "the real SetField/SetIndex/ArrayPush arm on either side is invisible on the other; channels share the queue. SpawnTask pops exactly n captures "
                    "and sends one thread with pc=target whose stack is the n copies in order."),
        level_note=("Bounded: depth<=2, width<=2, <=2 captures, scalar leaf tags fixed per harness. Capture analysis for task blocks (translator) is not covered."),
        technique="Kani harnesses on vm.rs verbatim, one per concrete value shape",
        scope="deep_copy, SpawnTask",
        assumptions=["std VecDeque/Mutex/Arc/mpsc behave as single-threaded FIFO shims"]),
    "C09": dict(
        units=["u7_copy"], level="model_checking",
        level_text=("ConstructChannel/ChannelWrite/ChannelRead on the real vm.rs: histories write,write,read,read (one thread; writer/reader via ChannelObject::copy) "
                    "return model-equal copies in write order, each read removes exactly one element and allocates only in the reader's heap; a read of an empty "
                    "channel rewinds pc by exactly one, leaves the channel on the stack and touches nothing else (suspends only the reader)."),
        level_note=("Partial: FIFO of VecDeque/Mutex/Arc is assumed (single-threaded shims), no real concurrency; exactly-once across interleavings of several "
                    "threads is a whole-history property and is not decided. Two known findings: queued heap values are raw pointers into the writer's heap "
                    "(use-after-free once the writer task finishes) and a collector tracing through a channel marks another thread's objects; both reproduced "
                    "on the real CLI; a possible repair is kept as units/u7_copy/proposed_fix_channel_ownership.patch (not small: two deep copies and a carrier "
                    "heap per message, and the channel obligations then exceed CBMC's reach)."),
        technique="Kani harnesses on vm.rs verbatim",
        scope="channel arms, Drop for VmGreenThread, process_gray channel branch",
        assumptions=["std VecDeque/Mutex/Arc/mpsc behave as single-threaded FIFO shims"]),
}

NOT_APPLICABLE = {

    
    
    
    
    "C02": "needs a semantics-preservation proof of translate_expr/translate_stmt (3 kLoC AST recursion over Rc/HashMap/StaticsContext); no function-level contract short of compiler correctness expresses it",
    "C03": "reachability of unwrap/unreachable!/unimplemented! in the translator from every typed AST: no function-level precondition on StaticsContext can be stated and discharged with Verus/Kani",
    "C12": "correctness of the Maranget usefulness recursion over Rc<EnumDef>/StaticsContext pattern matrices: inductive proof out of reach of both tools; leaf contracts (C13) do not decide it",
    "C14": "mechanism is translate_pat_comparison/handle_pat_binding code generation (see C02)",
    "C19": "capture analysis (collect_captures_expr) is translator code; the VM half (MakeClosure/CallFuncObj) is covered under C01",
    "C20": "record_pat_mutability + Assign constraint generation + assignment codegen: AST/StaticsContext code throughout",
    "C21": "SymbolTable is Rc<RefCell<HashMap>> with boxed closures (Namespace::add_other_pred); no usable contract at this size",
    "C22": "monomorphisation and impl selection are functions of the solved type environment (typecheck.rs/translate_bytecode.rs)",
    "C23": "lowering of ? and ! is in translate_expr; prelude Try/Unwrap impls are Abra source; VM half (Return from any depth, Panic arm) is covered under C01",
    "C25": "sort/sort_by/sort_by_key are Abra source (prelude.abra); no installed deductive verifier accepts Abra and a hand translation would be a model",
    "C27": "core/map and core/set are Abra source; no installed deductive verifier accepts Abra",
    "C28": "ToString impls are Abra source; StringFromInt/StringFromFloat delegate to Rust's to_string (trusted std)",
    "C34": "check_lsp runs the whole front end; lsp_helper is AST search over Rc nodes",
    "C35": "find_identifier_at_offset / hover are AST searches over Rc nodes sharing the compiler's maps; nothing function-level to contract",
    "C36": "host_bindings.rs generates Rust source text that is not in the repository; the VM API it targets is covered under C01/C11",
}
