"""Property -> units table (claimed properties) and the not-applicable list.

level: evidence level the check reports ("proof" only when every obligation is
unbounded Verus or loop-free full-domain Kani; any bounded obligation => model_checking).
"""

PENDING = "unit not built yet in this session (planned in DESIGN.md section 5); not claimed until its check exists"

PROPS = {
    "C15": dict(
        units=["u1_int"],
        level="proof",
        level_text=("Every integer arithmetic arm of VmGreenThread::step (+ - * / % ^ and their immediate forms) and "
                    "checked_pow_int are cut from vm.rs on each run and verified by Verus, for all operand values and all "
                    "register configurations, against the mathematical specification transcribed from the property "
                    "(exact result iff it fits, truncating /, Euclidean %, documented error otherwise). Kani twins re-prove "
                    "the outcome class on the real stack helpers for all 2^128 operand pairs."),
        level_note=("Trusted: Verus/Z3, Kani/CBMC, the slicer and rewrite rules R0/R2/R3; vstd specs of checked_add/sub/mul/div/"
                    "rem_euclid; assumed std contract for i64::checked_pow; stack helper and value-encoding contracts (proved "
                    "separately by Kani in unit U4, bounded stack). Not covered: the translator's choice of opcode for an operator "
                    "(unary minus lowering and compound assignment are code generation), dispatch in step()."),
        technique="deductive verification (Verus/Z3) of lifted real match arms + Kani function-level twins",
        scope="VM arms for + - * / % ^ and their immediate forms against the mathematical spec of C15",
        assumptions=[],
    ),
    "C24": dict(
        units=["u16_prelude", "u1_int"],
        level="proof",
        level_text=("Prelude Equal/Ord/Hash impls for bool, void and 2-4-tuples are cut from modules/prelude.abra by name on each run, "
                    "parsed by a subset parser mirroring parse.rs, symbolically evaluated, and each law (equivalence, le<=>not lt swapped, "
                    "ge<=>le swapped, gt<=>lt swapped, totality, lt irreflexive/transitive/consistent with equal, equal=>equal hashes) "
                    "is discharged by Z3 for all values (tuples: for every lawful component type). int comparisons are the VM arms "
                    "LessThanInt..EqualInt(Imm), proved by Verus to store exactly a<b, a<=b, a>b, a>=b, a==b over mathematical integers, "
                    "from which the order laws are immediate; `!=` is shown syntactically to be Equal followed by Not."),
        level_note=("Narrower than the statement: arrays (Equal/Hash) and Hash for string contain loops in Abra source and are not claimed; "
                    "float and string comparison arms are covered by C16/C17's units. Trusted: U16's own parser/evaluator (refuses anything "
                    "outside its subset; mutant self-test, cvc5 cross-check and differential test against the real CLI in the thorough tier), "
                    "Z3, Verus, impl selection/monomorphisation by the type checker. Syntactic obligations (C24.prelude.{int,float,string}.*_delegates, "
                    "C24.codegen.*) prove code shape, not values."),
        technique="own VC generator for the loop-free Abra subset -> Z3, plus Verus proofs of the VM comparison arms",
        scope="bool, void, tuples up to 4 (for lawful components), int; arrays excepted",
        assumptions=[],
    ),
}

NOT_APPLICABLE = {
    "C01": PENDING, "C04": PENDING, "C05": PENDING, "C06": PENDING, "C07": PENDING, "C08": PENDING,
    "C09": PENDING, "C10": PENDING, "C11": PENDING, "C13": PENDING, "C16": PENDING, "C17": PENDING,
    "C18": PENDING, "C26": PENDING, "C29": PENDING, "C30": PENDING, "C31": PENDING,
    "C32": PENDING, "C33": PENDING, "C37": PENDING, "C38": PENDING,
    "C02": "needs a semantics-preservation proof of translate_expr/translate_stmt (3 kLoC AST recursion over Rc/HashMap/StaticsContext); no function-level contract short of compiler correctness expresses it",
    "C03": "reachability of unwrap/unreachable!/unimplemented! in the translator from every typed AST: no function-level precondition on StaticsContext can be stated and discharged with Verus/Kani",
    "C12": "correctness of the Maranget usefulness recursion over Rc<EnumDef>/StaticsContext pattern matrices: inductive proof out of reach of both tools; leaf contracts (C13) do not decide it",
    "C14": "mechanism is translate_pat_comparison/handle_pat_binding code generation (see C02)",
    "C19": "capture analysis (collect_captures_expr) is translator code; the VM half (MakeClosure/CallFuncObj) is covered under C01",
    "C20": "record_pat_mutability + Assign constraint generation + assignment codegen: AST/StaticsContext code throughout",
    "C21": "SymbolTable is Rc<RefCell<HashMap>> with boxed closures (Namespace::add_other_pred); no usable contract at this size",
    "C22": "monomorphisation and impl selection are functions of the solved type environment (typecheck.rs/translate_bytecode.rs)",
    "C23": "lowering of ? and ! is in translate_expr; prelude Try/Unwrap impls are Abra source; VM half (Return from any depth, Panic arm) is covered under C01",
    "C25": "sort/sort_by/sort_by_key are Abra source (prelude.abra); no installed deductive verifier accepts Abra and a hand translation would be a model",
    "C27": "core/map and core/set are Abra source; no installed deductive verifier accepts Abra",
    "C28": "ToString impls are Abra source; StringFromInt/StringFromFloat delegate to Rust's to_string (trusted std)",
    "C34": "check_lsp runs the whole front end; lsp_helper is AST search over Rc nodes",
    "C35": "find_identifier_at_offset / hover are AST searches over Rc nodes sharing the compiler's maps; nothing function-level to contract",
    "C36": "host_bindings.rs generates Rust source text that is not in the repository; the VM API it targets is covered under C01/C11",
}
