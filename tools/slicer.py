"""Mechanical extraction of real source text from /repo.

Everything that ends up in front of a verifier is cut from the repository's
current working tree by *name* (item header / method name / match-arm head),
delimited by brace matching that understands Rust strings, chars and comments.
Nothing is located by line number.  A slice that cannot be found exactly once
raises SliceError, which every check turns into UNDECIDED (exit 2), never into a
verdict.
"""
import hashlib
import os
import re

REPO = os.environ.get("ABRA_REPO", "/repo")


class SliceError(Exception):
    pass


_cache = {}


def read(rel):
    p = os.path.join(REPO, rel)
    if p not in _cache:
        with open(p, encoding="utf-8") as f:
            _cache[p] = f.read()
    return _cache[p]


def sha(text):
    return hashlib.sha256(text.encode()).hexdigest()[:16]


# ------------------------------------------------------------------ lexing helpers

def _skip_noncode(s, i):
    """If s[i:] starts a comment / string / char literal, return index just past it,
    else return i."""
    n = len(s)
    c = s[i]
    if c == '/' and i + 1 < n:
        if s[i + 1] == '/':
            j = s.find('\n', i)
            return n if j < 0 else j
        if s[i + 1] == '*':
            depth = 1
            j = i + 2
            while j < n and depth:
                if s.startswith('/*', j):
                    depth += 1
                    j += 2
                elif s.startswith('*/', j):
                    depth -= 1
                    j += 2
                else:
                    j += 1
            return j
    if c == '"':
        j = i + 1
        while j < n:
            if s[j] == '\\':
                j += 2
            elif s[j] == '"':
                return j + 1
            else:
                j += 1
        return n
    if c == 'r' and i + 1 < n and s[i + 1] in '#"' and (i == 0 or not (s[i - 1].isalnum() or s[i - 1] == '_')):
        m = re.match(r'r(#*)"', s[i:])
        if m:
            close = '"' + m.group(1)
            j = s.find(close, i + len(m.group(0)))
            return n if j < 0 else j + len(close)
    if c == "'":
        # char literal or lifetime
        if i + 2 < n and s[i + 1] == '\\':
            j = s.find("'", i + 3)
            # '\'' case
            if s[i + 2] == "'":
                j = s.find("'", i + 3)
            return n if j < 0 else j + 1
        if i + 2 < n and s[i + 2] == "'":
            return i + 3
        return i  # lifetime
    return i


def match_brace(s, open_idx):
    """s[open_idx] is one of ({[ ; return index of the matching close."""
    pairs = {'{': '}', '(': ')', '[': ']'}
    assert s[open_idx] in pairs, s[open_idx:open_idx + 20]
    stack = []
    i = open_idx
    n = len(s)
    while i < n:
        j = _skip_noncode(s, i)
        if j != i:
            i = j
            continue
        c = s[i]
        if c in pairs:
            stack.append(pairs[c])
        elif c in ')}]':
            if not stack or stack[-1] != c:
                raise SliceError("unbalanced brace near offset %d" % i)
            stack.pop()
            if not stack:
                return i
        i += 1
    raise SliceError("no matching brace")


def _find_code(s, pat, start=0, end=None):
    """Iterate regex matches of pat in s[start:end] that do not begin inside a
    comment or string."""
    end = len(s) if end is None else end
    rx = re.compile(pat, re.M)
    # compute non-code spans lazily
    spans = []
    i = start
    while i < end:
        j = _skip_noncode(s, i)
        if j != i:
            spans.append((i, j))
            i = j
        else:
            i += 1
    def in_noncode(p):
        for a, b in spans:
            if a <= p < b:
                return True
        return False
    for m in rx.finditer(s, start, end):
        if not in_noncode(m.start()):
            yield m


def _attrs_start(s, idx):
    """Extend idx backwards over directly preceding attribute / doc-comment lines."""
    while True:
        ls = s.rfind('\n', 0, idx - 1) + 1 if idx > 0 else 0
        line = s[ls:idx].strip() if ls < idx else ''
        prev_end = idx - 1
        if prev_end <= 0:
            return idx
        pls = s.rfind('\n', 0, prev_end) + 1
        pline = s[pls:prev_end].strip()
        if pline.startswith('#[') or pline.startswith('///'):
            idx = pls
        else:
            return idx


def item(rel, header_rx, with_attrs=True, indent=''):
    """A braced or ;-terminated item whose first line matches ^{indent}{header_rx}.
    Returns its full text (with preceding attributes)."""
    s = read(rel)
    ms = list(_find_code(s, r'^%s%s' % (re.escape(indent), header_rx)))
    if len(ms) != 1:
        raise SliceError("%s: item /%s/ found %d times" % (rel, header_rx, len(ms)))
    m = ms[0]
    start = m.start()
    # find first '{' or ';' at depth 0 of () [] after the start of the header
    i = m.start()
    n = len(s)
    depth = 0
    while i < n:
        j = _skip_noncode(s, i)
        if j != i:
            i = j
            continue
        c = s[i]
        if c in '([':
            i = match_brace(s, i) + 1
            continue
        if c == '{':
            end = match_brace(s, i) + 1
            break
        if c == ';':
            end = i + 1
            break
        i += 1
    else:
        raise SliceError("%s: item /%s/ has no body" % (rel, header_rx))
    if with_attrs:
        start = _attrs_start(s, start)
    return s[start:end]


def impl_block(rel, header_rx, nth=None):
    """Text of `impl ... {}` blocks whose header matches; nth selects one when
    several exist (e.g. several `impl VmGreenThread`)."""
    s = read(rel)
    ms = list(_find_code(s, r'^%s' % header_rx))
    out = []
    for m in ms:
        i = s.index('{', m.start())
        end = match_brace(s, i) + 1
        out.append(s[m.start():end])
    if nth is not None:
        return out[nth]
    return out


def method(rel, impl_rx, name, with_attrs=True):
    """`fn name` at 4-space indentation inside any impl block matching impl_rx."""
    s = read(rel)
    hits = []
    for m in _find_code(s, r'^%s' % impl_rx):
        i = s.index('{', m.start())
        end = match_brace(s, i)
        for fm in _find_code(s, r'^    (?:pub(?:\([a-z]+\))? )?(?:unsafe )?fn %s\b' % re.escape(name), i, end):
            k = fm.end()
            # find body open brace at depth 0
            while k < end:
                j = _skip_noncode(s, k)
                if j != k:
                    k = j
                    continue
                if s[k] in '([':
                    k = match_brace(s, k) + 1
                    continue
                if s[k] == '{':
                    break
                k += 1
            fend = match_brace(s, k) + 1
            st = _attrs_start(s, fm.start()) if with_attrs else fm.start()
            hits.append(s[st:fend])
    if len(hits) != 1:
        raise SliceError("%s: method %s in /%s/ found %d times" % (rel, name, impl_rx, len(hits)))
    return hits[0]


def fn_parts(fn_text):
    """Split a fn item into (attrs+signature-without-brace, body-without-braces)."""
    # locate body brace
    k = re.search(r'\bfn\b', fn_text).end()
    n = len(fn_text)
    while k < n:
        j = _skip_noncode(fn_text, k)
        if j != k:
            k = j
            continue
        if fn_text[k] in '([':
            k = match_brace(fn_text, k) + 1
            continue
        if fn_text[k] == '{':
            break
        k += 1
    end = match_brace(fn_text, k)
    return fn_text[:k].rstrip(), fn_text[k + 1:end]


def enum_variants(enum_text):
    """name -> list of payload type strings (tuple variants) or dict (struct variants)."""
    i = enum_text.index('{')
    end = match_brace(enum_text, i)
    body = enum_text[i + 1:end]
    # strip comments
    body = re.sub(r'//[^\n]*', '', body)
    out = {}
    k = 0
    n = len(body)
    while k < n:
        m = re.compile(r'\s*([A-Z][A-Za-z0-9_]*)').match(body, k)
        if not m:
            break
        name = m.group(1)
        k = m.end()
        while k < n and body[k] in ' \t\n':
            k += 1
        if k < n and body[k] == '(':
            e = match_brace(body, k)
            tys = [t.strip() for t in body[k + 1:e].split(',') if t.strip()]
            out[name] = tys
            k = e + 1
        elif k < n and body[k] == '{':
            e = match_brace(body, k)
            d = {}
            for f in body[k + 1:e].split(','):
                if ':' in f:
                    a, b = f.split(':', 1)
                    d[a.strip()] = b.strip()
            out[name] = d
            k = e + 1
        else:
            out[name] = []
        # skip to comma
        while k < n and body[k] != ',':
            k += 1
        k += 1
    return out


def match_arm(fn_text, head_rx, arm_indent):
    """Inside fn_text, the arm whose first line matches ^{arm_indent}{head_rx}.
    Returns (pattern_text, guard_or_None, body_text_without_outer_braces, is_block)."""
    ms = list(_find_code(fn_text, r'^%s%s' % (re.escape(arm_indent), head_rx)))
    if len(ms) != 1:
        raise SliceError("arm /%s/ found %d times" % (head_rx, len(ms)))
    m = ms[0]
    s = fn_text
    # find '=>' at depth 0
    k = m.start()
    n = len(s)
    arrow = None
    while k < n:
        j = _skip_noncode(s, k)
        if j != k:
            k = j
            continue
        if s[k] in '([{':
            k = match_brace(s, k) + 1
            continue
        if s.startswith('=>', k):
            arrow = k
            break
        k += 1
    if arrow is None:
        raise SliceError("arm /%s/: no =>" % head_rx)
    head = s[m.start():arrow].strip()
    guard = None
    gm = re.search(r'\bif\b', head)
    # only treat as guard if 'if' at depth 0
    if gm:
        depth0 = True
        # crude: check balance before
        pre = head[:gm.start()]
        if pre.count('(') == pre.count(')') and pre.count('{') == pre.count('}'):
            guard = head[gm.end():].strip()
            head = pre.strip()
    k = arrow + 2
    while s[k] in ' \t\n':
        k += 1
    if s[k] == '{':
        e = match_brace(s, k)
        return head, guard, s[k + 1:e], True
    # expression arm: up to ',' at depth 0
    st = k
    while k < n:
        j = _skip_noncode(s, k)
        if j != k:
            k = j
            continue
        if s[k] in '([{':
            k = match_brace(s, k) + 1
            continue
        if s[k] == ',':
            break
        k += 1
    return head, guard, s[st:k], False


def step_arm(name, vm_text=None):
    """Lift arm `Instr::<name>` of VmGreenThread::step into a method
    `fn arm_<name>(&mut self, <binders>) -> bool { BODY; true }`.
    Returns dict(name, params, body, text, raw)."""
    rel = 'abra_core/src/vm.rs'
    stepfn = method(rel, r'impl VmGreenThread \{', 'step')
    instr = item(rel, r'pub enum Instr \{')
    variants = enum_variants(instr)
    if name not in variants:
        raise SliceError("Instr::%s not in enum" % name)
    head, guard, body, is_block = match_arm(stepfn, r'Instr::%s\b' % name, ' ' * 12)
    if guard:
        raise SliceError("step arm %s has a guard" % name)
    tys = variants[name]
    params = []
    pm = re.match(r'Instr::%s\s*(?:\((.*)\)|\{(.*)\})?\s*$' % name, head, re.S)
    if not pm:
        raise SliceError("cannot parse arm head %r" % head)
    if pm.group(1) is not None:
        binders = [b.strip() for b in pm.group(1).split(',') if b.strip()]
        if len(binders) != len(tys):
            raise SliceError("arm %s binder count" % name)
        params = list(zip(binders, tys))
    elif pm.group(2) is not None:
        binders = [b.strip() for b in pm.group(2).split(',') if b.strip()]
        params = [(b, tys[b]) for b in binders]
    if not is_block:
        body = '\n                ' + body.strip() + ';\n            '
    sig = 'fn arm_%s(&mut self%s) -> bool' % (
        name, ''.join(', %s: %s' % (b, t) for b, t in params))
    text = '    #[allow(non_snake_case)]\n    %s {%s    true\n    }\n' % (sig, body)
    return dict(name=name, params=params, body=body, sig=sig, text=text,
                raw=head + ' => {' + body + '}')


def drop_fields(struct_text, fields):
    """Remove named fields (with their attributes/comments directly above) from a struct."""
    out = struct_text
    for f in fields:
        rx = re.compile(r'(?:^[ \t]*#\[[^\n]*\]\n)*^[ \t]*(?:pub(?:\([a-z]+\))? )?%s:[^\n]*,\n' % re.escape(f), re.M)
        out, k = rx.subn('', out)
        if k != 1:
            raise SliceError("drop_fields: field %s matched %d times" % (f, k))
    return out


def strip_cfg_items(text, feature):
    """Drop fields/statements guarded by #[cfg(feature = "<feature>")] (the next line /
    braced item).  Used to remove `ffi`-only fields, a build configuration the
    checks do not cover."""
    rx = re.compile(r'^[ \t]*#\[cfg\(feature = "%s"\)\]\n[^\n]*\n' % re.escape(feature), re.M)
    return rx.sub('', text)


def count_rewrites(text, rx, repl):
    new, k = re.subn(rx, repl, text, flags=re.S)
    return new, k
