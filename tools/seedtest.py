#!/usr/bin/env python3
"""seedtest.py <patch.diff> <PROP> [<PROP>...]
Run checks against a seeded change WITHOUT touching /repo: copy /repo's sources (no target/,
no .git) to a scratch dir, `git apply` the patch there, run ./check with ABRA_REPO pointing at
the copy and evidence/replays redirected to a scratch output dir.  Prints each check's verdict."""
import os, shutil, subprocess, sys, tempfile
patch = os.path.abspath(sys.argv[1])
props = sys.argv[2:]
d = tempfile.mkdtemp(prefix="abra-seed.")
out = tempfile.mkdtemp(prefix="abra-seed-out.")
rc_all = 0
try:
    subprocess.run(["rsync", "-a", "--exclude", "target", "--exclude", ".git", "/repo/", d + "/"], check=True)
    subprocess.run(["git", "init", "-q"], cwd=d, check=True)
    r = subprocess.run(["git", "apply", patch], cwd=d)
    if r.returncode != 0:
        print("patch does not apply"); sys.exit(3)
    env = dict(os.environ, ABRA_REPO=d, ABRA_VERIF_OUT=out, CARGO_TARGET_DIR=os.path.join(d, "target"))
    for p in props:
        r = subprocess.run(["/verif/check", p], env=env, capture_output=True, text=True)
        lines = [l for l in r.stdout.split("\n") if l.startswith(("VIOLATION", "property=", "UNDECIDED", "failed obligation", "KNOWN"))]
        print("== %s exit=%d" % (p, r.returncode))
        for l in lines[:12]:
            print("   " + l[:300])
        for f in sorted(os.listdir(os.path.join(out, "replays"))) if os.path.isdir(os.path.join(out, "replays")) else []:
            pass
        rc_all = max(rc_all, r.returncode)
    if os.environ.get("SEED_KEEP_OUT"):
        print("outputs kept in", out)
finally:
    shutil.rmtree(d, ignore_errors=True)
    if not os.environ.get("SEED_KEEP_OUT"):
        shutil.rmtree(out, ignore_errors=True)
sys.exit(0)
