#!/usr/bin/env python3
"""mutest.py <unit> <file-rel> <old> <new> [--count N]
Self-test of a unit against a deliberate breakage: copies /repo's sources (no target/,
no .git) to a scratch dir, applies one textual replacement, runs the unit with
ABRA_REPO pointing there and prints the obligations that are not discharged."""
import os, shutil, subprocess, sys, tempfile
unit, rel, old, new = sys.argv[1:5]
d = tempfile.mkdtemp(prefix="abra-mut.")
try:
    subprocess.run(["rsync", "-a", "--exclude", "target", "--exclude", ".git", "/repo/", d + "/"], check=True)
    p = os.path.join(d, rel)
    s = open(p).read()
    k = s.count(old)
    if k < 1:
        print("pattern not found"); sys.exit(3)
    s = s.replace(old, new, 1)
    open(p, "w").write(s)
    env = dict(os.environ, ABRA_REPO=d)
    code = ("import sys; sys.path.insert(0,'/verif'); sys.path.insert(0,'/verif/tools')\n"
            "import importlib; m=importlib.import_module('units.%s')\n"
            "try:\n"
            "    obs,info=m.run('quick')\n"
            "except Exception as e:\n"
            "    print('UNIT UNDECIDED:', type(e).__name__, str(e)[:600]); sys.exit(2)\n"
            "bad=[o for o in obs if o.status!='discharged']\n"
            "for o in bad: print(o.status.upper(), o.id, '|', (o.detail or '').split('\\n')[0][:160])\n"
            "print('total', len(obs), 'not discharged', len(bad))\n") % unit
    r = subprocess.run([sys.executable, "-c", code], env=env)
    sys.exit(r.returncode)
finally:
    shutil.rmtree(d, ignore_errors=True)
