#!/usr/bin/env python3
"""./check <PROPERTY> [--tier quick|thorough] [--replay PATH]

Runs the verification units a property depends on against /repo's current working
tree, writes evidence/<id>.json, prints KNOWN-FINDING / VIOLATION lines.
exit 0 = every obligation discharged (or only listed known findings failed)
exit 1 = VIOLATION (a named obligation fails that is not a listed finding)
exit 2 = UNDECIDED (lost anchor, unsupported construct, tool limit) — never an alarm
"""
import argparse
import importlib
import json
import os
import re
import sys
import time
import traceback

HERE = os.path.dirname(os.path.abspath(__file__))
VERIF = os.path.dirname(HERE)
sys.path.insert(0, HERE)
sys.path.insert(0, VERIF)

import engine as E  # noqa: E402
import slicer as S  # noqa: E402
from props import PROPS  # noqa: E402


def main():
    ap = argparse.ArgumentParser()
    ap.add_argument("prop")
    ap.add_argument("--tier", default=os.environ.get("VERIF_TIER", "quick"))
    ap.add_argument("--replay")
    args = ap.parse_args()
    prop = args.prop
    if prop not in PROPS:
        print("unknown or not-applicable property %s" % prop)
        return 2
    if args.replay:
        with open(args.replay) as f:
            print(f.read())
        return 0
    spec = PROPS[prop]
    tier = "thorough" if args.tier == "thorough" else "quick"
    os.environ["ABRA_VERIF_PROP"] = prop   # units may skip obligations that do not count for this property
    t0 = time.time()
    obligations, assumptions, trusted, cmds, notes = [], [], [], [], {}
    undecided_msgs = []
    replayers = {}
    for uname in spec["units"]:
        try:
            mod = importlib.import_module("units." + uname)
            obs, info = mod.run(tier)
        except (S.SliceError, E.Undecided) as ex:
            undecided_msgs.append("%s: %s" % (uname, str(ex)[:3000]))
            continue
        except Exception:
            undecided_msgs.append("%s: internal error\n%s" % (uname, traceback.format_exc()[-3000:]))
            continue
        mine = [o for o in obs if prop in o.props]
        obligations += mine
        for o in mine:
            replayers[o.id] = getattr(mod, "replay", None)
        assumptions += info.get("assumptions", [])
        trusted += info.get("trusted_base", [])
        cmds += info.get("checker_cmds", [])
        notes[uname] = info.get("notes", {})
    assumptions += spec.get("assumptions", [])
    findings = E.load_known_findings()
    known_lines, violations, undecided = [], [], []
    for o in obligations:
        if o.status == E.FAILED:
            fd = E.finding_for(o, prop, findings)
            if fd:
                known_lines.append("KNOWN-FINDING: property=%s %s [%s]" % (prop, fd["what"], o.id))
            else:
                violations.append(o)
        elif o.status == E.UNDECIDED:
            undecided.append(o)
    level = spec["level"]
    wall = time.time() - t0
    nviol = len(violations)
    E.write_evidence(prop, tier, level, obligations, wall, assumptions, trusted, cmds,
                     notes=notes, violations=nviol, known=known_lines,
                     extra_cov=dict(scope=spec.get("scope", ""), undecided_units=undecided_msgs))
    for line in known_lines:
        print(line)
    n = len(obligations)
    d = sum(1 for o in obligations if o.status == E.DISCHARGED)
    print("property=%s tier=%s obligations=%d discharged=%d failed=%d undecided=%d wall=%.1fs" % (
        prop, tier, n, d, sum(1 for o in obligations if o.status == E.FAILED), len(undecided), wall))
    if violations:
        reported = 0
        for o in violations:
            extra = None
            confirmed = None
            rp = replayers.get(o.id)
            if rp:
                try:
                    confirmed, extra = rp(o)
                except Exception:
                    extra = dict(replay_error=traceback.format_exc()[-2000:])
            if confirmed is None and re.search(r'native|exhaustive', o.backend or "", re.I) and (o.detail or "").strip():
                # the obligation's back end already EXECUTES the real (sliced, natively compiled) code on concrete
                # inputs: the failing input in `detail` is a failing input of the real code
                confirmed = True
                extra = dict(extra or {}, note="failing input reported by a back end that executes the real code natively; see verifier_output")
            if confirmed is False:
                # the real code contradicts the verifier's counterexample: our contract/stub is wrong
                undecided_msgs.append("replay of %s contradicts the verifier; treated as a defect of the check" % o.id)
                E.write_replay(prop, o, dict(replay=extra, replay_confirms=False))
                continue
            path = E.write_replay(prop, o, dict(replay=extra, replay_confirms=confirmed))
            tail = "" if confirmed else " no-failing-input-found"
            print("failed obligation %s (%s): %s" % (o.id, o.function, (o.detail or "").split("\n")[0][:200]))
            print("VIOLATION property=%s replay=%s%s" % (prop, path, tail))
            reported += 1
        if reported:
            return 1
    if undecided or undecided_msgs or n == 0:
        for o in undecided:
            print("UNDECIDED %s: %s" % (o.id, (o.detail or "")[:500]))
        for m in undecided_msgs:
            print("UNDECIDED unit " + m)
        if n == 0:
            print("UNDECIDED: no obligations generated")
        return 2
    return 0


if __name__ == "__main__":
    sys.exit(main())
