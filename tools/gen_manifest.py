#!/usr/bin/env python3
"""Generate MANIFEST.json from props.py (claimed) and NOT_APPLICABLE (below)."""
import json, os, sys
HERE = os.path.dirname(os.path.abspath(__file__))
sys.path.insert(0, os.path.dirname(HERE))
from props import PROPS, NOT_APPLICABLE

checks = []
for pid in sorted(PROPS):
    p = PROPS[pid]
    checks.append(dict(
        property_id=pid,
        quick_cmd="./check %s --tier quick" % pid,
        thorough_cmd="./check %s --tier thorough" % pid,
        evidence_file="/verif/evidence/%s.json" % pid,
        replay_cmd_template="./check %s --replay {path}" % pid,
        engine="contracts",
        level_claimed=dict(category=p["level"], text=p["level_text"], design_ref=p.get("design_ref", "DESIGN.md section 5, " + pid)),
        level_note=p["level_note"],
        technique=p["technique"],
    ))
m = dict(
    version=1,
    setup_cmd="python3 tools/setup.py",
    hooks=dict(guard="abra_verif", enable="none needed: every check reads /repo's source text and compiles slices of it in a scratch crate; no hook is compiled into abra",
               baseline_off_cmd="cd /repo && cargo nextest run --workspace --no-fail-fast --offline --test-threads 8",
               source_commits=[], add_only=True),
    engines=[dict(name="contracts", path="/verif/tools/check.py", serves_properties=sorted(PROPS),
                  kind_free_text="contract-based deductive verification: Verus (Z3) and Kani (CBMC) on functions/arms cut mechanically from /repo on every run")],
    checks=checks,
    notes="See DESIGN.md. exit 0 = all obligations discharged (listed KNOWN-FINDINGs excepted), 1 = VIOLATION, 2 = UNDECIDED (tool limit / lost anchor; never an alarm).",
    not_applicable=[dict(property_id=k, reason=v) for k, v in sorted(NOT_APPLICABLE.items()) if k not in PROPS],
)
json.dump(m, open(os.path.join(os.path.dirname(HERE), "MANIFEST.json"), "w"), indent=1)
print("wrote MANIFEST.json: %d checks" % len(checks))
