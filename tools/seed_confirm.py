#!/usr/bin/env python3
"""seed_confirm.py <seed-out-dir> <ID>
Independent confirmation of a seeded change: fresh worktree of /repo HEAD outside /repo and /verif,
apply patch.diff, run the repository's test suite, build the CLI, run the demonstration with and
without the change.  Writes <seed-out-dir>/confirm.json and removes the worktree."""
import json, os, re, shutil, subprocess, sys, time
src, sid = sys.argv[1], sys.argv[2]
wt = "/tmp/seedconf-%s" % sid
env = dict(os.environ, CARGO_NET_OFFLINE="true")
res = dict(id=sid, at=time.strftime("%Y-%m-%d %H:%M:%S"))
subprocess.run(["git", "-C", "/repo", "worktree", "remove", "--force", wt], capture_output=True)
subprocess.run(["git", "-C", "/repo", "worktree", "add", "-q", wt, "HEAD"], check=True)
try:
    res["head"] = subprocess.run(["git", "-C", wt, "rev-parse", "--short", "HEAD"], capture_output=True, text=True).stdout.strip()
    demo = os.path.join(src, "demo.abra")
    exp = open(os.path.join(src, "expected_without_change.txt")).read() if os.path.exists(os.path.join(src, "expected_without_change.txt")) else None
    def run_demo():
        b = subprocess.run(["cargo", "build", "-p", "abra_cli", "--offline", "-q"], cwd=wt, env=env, capture_output=True, text=True)
        if b.returncode != 0:
            return None, "build failed: " + b.stderr[-800:]
        p = subprocess.run([os.path.join(wt, "target/debug/abra"), "--standard-modules", os.path.join(wt, "modules"), demo],
                           capture_output=True, text=True, timeout=120)
        err = re.sub(r"thread 'main' \(\d+\)", "thread 'main'", p.stderr)
        err = err.replace(wt + "/", "").replace(src + "/", "")
        return p.returncode, p.stdout + ("\n[stderr] " + err.strip()[:1200] if p.returncode not in (0,) and err.strip() else "")
    rc0, out0 = run_demo()
    res["demo_without_change"] = dict(exit=rc0, output=out0[-1500:] if out0 else out0)
    a = subprocess.run(["git", "apply", os.path.join(src, "patch.diff")], cwd=wt, capture_output=True, text=True)
    res["patch_applies"] = (a.returncode == 0)
    if a.returncode == 0:
        rc1, out1 = run_demo()
        res["demo_with_change"] = dict(exit=rc1, output=out1[-1500:] if out1 else out1)
        res["demo_differs"] = (rc0, out0) != (rc1, out1)
        if exp is not None and out0 is not None:
            res["demo_without_matches_expected"] = out0.split("\n[stderr]")[0].strip() == exp.strip()
        t = subprocess.run(["cargo", "nextest", "run", "--workspace", "--no-fail-fast", "--offline", "--test-threads", "8"],
                           cwd=wt, env=env, capture_output=True, text=True)
        m = re.search(r'(\d+) tests run: (\d+) passed(?: \((\d+) \w+\))?(?:, (\d+) failed)?', t.stdout + t.stderr)
        res["tests"] = m.group(0) if m else (t.stdout + t.stderr)[-400:]
        res["tests_all_pass"] = bool(m) and m.group(1) == m.group(2) and int(m.group(1)) >= 239
    res["confirmed"] = bool(res.get("patch_applies") and res.get("demo_differs") and res.get("tests_all_pass"))
finally:
    subprocess.run(["git", "-C", "/repo", "worktree", "remove", "--force", wt], capture_output=True)
    shutil.rmtree(wt, ignore_errors=True)
json.dump(res, open(os.path.join(src, "confirm.json"), "w"), indent=1)
print(json.dumps(res, indent=1)[:1500])
