"""Build and run the real `abra` CLI from /repo's current working tree (replays)."""
import os
import subprocess
import tempfile

REPO = os.environ.get("ABRA_REPO", "/repo")
_built = {}


def build(timeout=1800):
    if "bin" in _built:
        return _built["bin"]
    env = dict(os.environ)
    env["CARGO_NET_OFFLINE"] = "true"
    p = subprocess.run(["cargo", "build", "-p", "abra_cli", "--offline", "--quiet"], cwd=REPO,
                       capture_output=True, text=True, timeout=timeout, env=env)
    if p.returncode != 0:
        raise RuntimeError("cargo build abra_cli failed:\n" + p.stderr[-3000:])
    tdir = env.get("CARGO_TARGET_DIR", os.path.join(REPO, "target"))
    b = os.path.join(tdir, "debug", "abra")
    _built["bin"] = b
    return b


def run_program(src, timeout=60, args=()):
    b = build()
    with tempfile.TemporaryDirectory(prefix="abra-replay.") as d:
        f = os.path.join(d, "main.abra")
        with open(f, "w") as fh:
            fh.write(src)
        try:
            p = subprocess.run([b, "--standard-modules", os.path.join(REPO, "modules")] + list(args) + [f],
                               capture_output=True, text=True, timeout=timeout)
        except subprocess.TimeoutExpired:
            return "", "TIMEOUT", -1
        return p.stdout, p.stderr, p.returncode
