#!/usr/bin/env python3
"""Validate MANIFEST.json and evidence files against the given schemas (uses the tooling venv)."""
import json, sys, glob
import jsonschema
ok = True
m = json.load(open('/verif/MANIFEST.json'))
jsonschema.validate(m, json.load(open('/root/.vp/MANIFEST.schema.json')))
print("MANIFEST ok: %d checks, %d not_applicable" % (len(m['checks']), len(m.get('not_applicable', []))))
sch = json.load(open('/root/.vp/EVIDENCE.schema.json'))
for f in sorted(glob.glob('/verif/evidence/*.json')):
    try:
        jsonschema.validate(json.load(open(f)), sch)
        print("ok", f)
    except Exception as e:
        ok = False
        print("INVALID", f, str(e)[:300])
ids = [json.loads(l)['id'] for l in open('/verif/properties.jsonl')]
claimed = [c['property_id'] for c in m['checks']]
na = [c['property_id'] for c in m.get('not_applicable', [])]
for i in ids:
    if (i in claimed) == (i in na):
        ok = False
        print("property %s must be exactly one of claimed / not_applicable" % i)
sys.exit(0 if ok else 1)
