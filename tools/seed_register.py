#!/usr/bin/env python3
"""seed_register.py <ID> <seed-out-dir> <name> --detected-by "<check>: <obligation>" [...]
Copies a confirmed seeded change into /verif/seeded/<name>/ (patch.diff, demonstration, meta.json)."""
import json, os, shutil, sys
sid, src, name = sys.argv[1], sys.argv[2], sys.argv[3]
rest = sys.argv[4:]
dst = os.path.join("/verif/seeded", name)
os.makedirs(dst, exist_ok=True)
for f in os.listdir(src):
    if f in ("patch.diff", "demo.abra", "expected_without_change.txt", "observed_with_change.txt") or f.startswith("demo"):
        shutil.copy(os.path.join(src, f), os.path.join(dst, f))
meta = json.load(open(os.path.join(src, "meta.json"))) if os.path.exists(os.path.join(src, "meta.json")) else {}
conf = json.load(open(os.path.join(src, "confirm.json"))) if os.path.exists(os.path.join(src, "confirm.json")) else {}
out = dict(
    property=sid,
    breaks=meta.get("summary", ""),
    needs_to_manifest=meta.get("needs", ""),
    files=meta.get("files", []),
    author="independent sub-agent given only the property text and a scratch worktree (nothing from /verif)",
    what_i_ran=["python3 tools/seed_confirm.py (fresh worktree of /repo HEAD outside /repo and /verif: git apply patch.diff; "
                "cargo nextest run --workspace --no-fail-fast --offline --test-threads 8; cargo build -p abra_cli; run demo.abra with and without the change; worktree removed)",
                "python3 tools/seedtest.py <patch> <checks> (copy of /repo + patch, ./check with ABRA_REPO pointing at the copy)"],
    confirmation=conf,
    checks=[r for r in rest if not r.startswith("--")],
)
json.dump(out, open(os.path.join(dst, "meta.json"), "w"), indent=1)
print("registered", dst)
