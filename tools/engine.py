"""Common verdict machinery: back-end runners (Verus, Kani), obligation records,
known findings, VIOLATION/replay reporting and evidence files."""
import json
import os
import re
import shutil
import subprocess
import sys
import tempfile
import time

VERIF = os.path.dirname(os.path.dirname(os.path.abspath(__file__)))
REPO = os.environ.get("ABRA_REPO", "/repo")
sys.path.insert(0, os.path.join(VERIF, "tools"))

DISCHARGED, FAILED, UNDECIDED = "discharged", "failed", "undecided"


class Undecided(Exception):
    """Tool limit / lost anchor / unsupported construct: exit 2, never an alarm."""


class Obligation:
    def __init__(self, oid, props, unit, function, backend, status, detail="",
                 time_s=0.0, file="", slice_sha="", bounded=None, text="", cex=None,
                 rlimit=None):
        self.id = oid
        self.props = list(props)
        self.unit = unit
        self.function = function
        self.backend = backend
        self.status = status
        self.detail = detail
        self.time_s = time_s
        self.file = file
        self.slice_sha = slice_sha
        self.bounded = bounded  # None = unbounded / complete, else a string stating the bound
        self.text = text  # contract text (requires/ensures) for samples
        self.cex = cex  # counterexample dict if any
        self.rlimit = rlimit

    def to_json(self):
        d = dict(id=self.id, unit=self.unit, function=self.function, file=self.file,
                 backend=self.backend, status=self.status, time_s=round(self.time_s, 3),
                 slice_sha256=self.slice_sha)
        if self.bounded:
            d["bounded"] = self.bounded
        if self.detail:
            d["detail"] = self.detail[:2000]
        if self.rlimit is not None:
            d["rlimit"] = self.rlimit
        if self.cex:
            d["counterexample"] = self.cex
        return d


# --------------------------------------------------------------------------- scratch

class Scratch:
    """Temp directory removed at exit (with any cargo target dir inside)."""

    def __init__(self, tag):
        base = os.environ.get("ABRA_VERIF_TMP") or tempfile.gettempdir()
        self.path = tempfile.mkdtemp(prefix="abra-verif.%s." % tag, dir=base)

    def file(self, name, text):
        p = os.path.join(self.path, name)
        os.makedirs(os.path.dirname(p), exist_ok=True)
        with open(p, "w") as f:
            f.write(text)
        return p

    def cleanup(self):
        if os.environ.get("ABRA_VERIF_KEEP"):
            sys.stderr.write("[keep] %s\n" % self.path)
            return
        shutil.rmtree(self.path, ignore_errors=True)


# --------------------------------------------------------------------------- Verus

VERUS_ENV = dict(os.environ)


def run_verus(path, rlimit=30, timeout=600, extra=()):
    """Run single-file Verus.  Returns dict(functions={name:{success,time_s,rlimit}},
    errors=[{function?, message, line}], raw_stderr, wall_s, ok_compile)."""
    t0 = time.time()
    cmd = ["verus", path, "--output-json", "--time", "--rlimit", str(rlimit),
           "--multiple-errors", "4", "--num-threads", "8"] + list(extra)
    try:
        p = subprocess.run(cmd, capture_output=True, text=True, timeout=timeout,
                           cwd=os.path.dirname(path))
    except subprocess.TimeoutExpired:
        raise Undecided("verus timeout after %ds on %s" % (timeout, path))
    wall = time.time() - t0
    out = p.stdout
    try:
        j = json.loads(out[out.index("{"):])
    except Exception:
        raise Undecided("verus produced no JSON (compile error?)\n" + p.stderr[-3000:])
    vr = j.get("verification-results", {})
    if vr.get("encountered-vir-error") or ("verified" not in vr):
        raise Undecided("verus front-end error (unsupported construct / type error):\n" + p.stderr[-3000:])
    funcs = {}
    try:
        for mod in j["times-ms"]["smt"]["smt-run-module-times"]:
            for fb in mod.get("function-breakdown", []):
                name = fb["function"]
                # same function may appear several times (recommends re-check); AND the flags
                prev = funcs.get(name)
                ent = dict(success=bool(fb.get("success")), time_s=fb.get("time-micros", 0) / 1e6,
                           rlimit=fb.get("rlimit", 0))
                if prev:
                    ent["success"] = ent["success"] and prev["success"]
                    ent["time_s"] += prev["time_s"]
                    ent["rlimit"] += prev["rlimit"]
                funcs[name] = ent
    except KeyError:
        pass
    # stderr diagnostics -> per line errors
    errors = []
    blocks = re.split(r'\n(?=error|warning|note)', p.stderr)
    for b in blocks:
        if b.startswith("error") and "aborting due to" not in b:
            m = re.search(r'-->\s+[^:\n]+:(\d+):(\d+)', b)
            errors.append(dict(message=b.split("\n")[0], line=int(m.group(1)) if m else None,
                               block=b[:1500]))
    rlimit_hit = "Resource limit (rlimit) exceeded" in p.stderr
    return dict(functions=funcs, errors=errors, raw_stderr=p.stderr, wall_s=wall,
                verified=vr.get("verified", 0), nerrors=vr.get("errors", 0),
                rlimit_hit=rlimit_hit, cmd=" ".join(cmd), smt_ms=j["times-ms"].get("smt", {}).get("total"))


def fn_line_ranges(text):
    """Map 1-based line numbers of a generated Rust file to the enclosing `fn name`
    (nearest preceding fn header at any indentation)."""
    ranges = []
    cur = None
    for i, line in enumerate(text.split("\n"), 1):
        m = re.match(r'\s*(?:pub(?:\([a-z]+\))? )?(?:open |closed |uninterp |broadcast )*(?:spec |proof |exec |unsafe )*fn ([A-Za-z0-9_]+)', line)
        if m:
            cur = m.group(1)
        ranges.append(cur)
    return ranges


# --------------------------------------------------------------------------- Kani

def kani_env():
    e = dict(os.environ)
    e["CARGO_NET_OFFLINE"] = "true"
    return e


def parse_playback(raw):
    """Concrete values printed by `--concrete-playback=print`: list of byte lists, in
    the order of the harness's kani::any() calls."""
    m = re.search(r'let concrete_vals: Vec<Vec<u8>> = vec!\[(.*?)\n\s*\];', raw, re.S)
    if not m:
        return None
    vals = []
    for vm_ in re.finditer(r'vec!\[([0-9, ]*)\]', m.group(1)):
        vals.append([int(x) for x in vm_.group(1).replace(' ', '').split(',') if x])
    return vals


def le_int(bs, signed=True):
    return int.from_bytes(bytes(bs), 'little', signed=signed)


def run_kani(crate_dir, harnesses, timeout=900, jobs=8, extra=(), unwind=None, playback=False):
    """Verify harnesses (fully-qualified names).  One `cargo kani` invocation compiles the
    crate once and runs the harnesses with `-j jobs` (terse output, per-harness timeout);
    harnesses it could not attribute a result to are re-run one by one.  With
    playback=True every harness is run on its own (concrete playback output).
    Returns {harness: dict(status, failed=[descr], time_s, raw, cover, playback)}."""
    if playback or len(harnesses) == 1:
        return run_kani_each(crate_dir, harnesses, timeout=timeout, jobs=jobs, extra=extra, playback=playback)
    t0 = time.time()
    jobs = max(2, min(jobs, int(os.environ.get("ABRA_VERIF_JOBS", "6"))))
    cmd = ["cargo", "kani", "-Z", "function-contracts", "-Z", "stubbing", "-Z", "unstable-options",
           "--harness-timeout", "%ds" % timeout, "--exact", "--output-format", "terse", "-j", str(jobs)] + list(extra)
    for h in harnesses:
        cmd += ["--harness", h]
    env = kani_env()
    env["CARGO_TARGET_DIR"] = os.path.join(crate_dir, "target-batch")
    total = timeout * (len(harnesses) // jobs + 2) + 300
    try:
        p = subprocess.run(["timeout", str(total)] + cmd, capture_output=True, text=True, cwd=crate_dir, env=env)
        raw = p.stdout + "\n" + p.stderr
    except Exception as ex:  # pragma: no cover
        raw = str(ex)
    results = parse_kani_terse(raw, harnesses)
    missing = [h for h in harnesses if h not in results]
    if "error: could not compile" in raw or "error[E" in raw:
        for h in missing:
            results[h] = dict(status=UNDECIDED, failed=[], time_s=0.0, raw="crate does not compile:\n" + raw[-3000:], cover=[], playback=None)
        missing = []
    if missing:
        results.update(run_kani_each(crate_dir, missing, timeout=timeout, jobs=min(jobs, 4), extra=extra))
    shutil.rmtree(env["CARGO_TARGET_DIR"], ignore_errors=True)
    return results


def parse_kani_terse(raw, harnesses):
    cur = {}
    blocks = {}
    active = None
    for line in raw.split("\n"):
        m = re.match(r'(?:Thread (\d+): )?Checking harness (\S+?)\.\.\.$', line)
        if m:
            cur[m.group(1) or "0"] = m.group(2)
            active = None
            continue
        m = re.match(r'Thread (\d+): ?$', line)
        if m:
            active = cur.get(m.group(1))
            if active:
                blocks.setdefault(active, [])
            continue
        if line.startswith("VERIFICATION RESULT") and active is None and len(cur) == 1:
            active = list(cur.values())[0]
            blocks.setdefault(active, [])
        if active:
            blocks[active].append(line)
            if line.startswith("Verification Time"):
                active = None
    out = {}
    for h, lines in blocks.items():
        if h not in harnesses:
            continue
        txt = "\n".join(lines)
        failed = []
        for fm in re.finditer(r'Failed Checks: ([^\n]*)\n(?: File: ([^\n]*))?', txt):
            failed.append("%s @ %s" % (fm.group(1), (fm.group(2) or "").strip()))
        cover = []
        cm = re.search(r'\*\* (\d+) of (\d+) cover properties satisfied', txt)
        if cm:
            cover = [("cover", "SATISFIED")] * int(cm.group(1)) + [("cover", "UNSATISFIABLE")] * (int(cm.group(2)) - int(cm.group(1)))
        tm = re.search(r'Verification Time: ([0-9.]+)s', txt)
        if "VERIFICATION:- SUCCESSFUL" in txt:
            status = DISCHARGED
        elif "VERIFICATION:- FAILED" in txt:
            status = FAILED
            real = [f for f in failed if "unwinding assertion" not in f and "is not currently supported" not in f]
            if "encountered no panics" in txt:
                real = failed = ["should_panic harness did not panic"]
            if not real or "out of memory" in txt or "CBMC failed" in txt or "timed out" in txt.lower():
                status = UNDECIDED
        else:
            status = UNDECIDED
        out[h] = dict(status=status, failed=failed, time_s=float(tm.group(1)) if tm else 0.0, raw=txt[-4000:], cover=cover, playback=None)
    return out


def run_kani_each(crate_dir, harnesses, timeout=900, jobs=8, extra=(), unwind=None, playback=False):

    """Run cargo kani once per harness (in parallel, `jobs` at a time).
    Returns {harness: dict(status, failed=[descr], time_s, raw, cover)}."""
    import concurrent.futures as cf
    # build once (so parallel runs do not fight over the target dir lock for compilation)
    results = {}

    def one(h):
        t0 = time.time()
        cmd = ["cargo", "kani", "-Z", "function-contracts", "-Z", "stubbing",
               "--harness", h, "--exact", "--output-format", "regular"] + list(extra)
        if playback:
            cmd += ["-Z", "concrete-playback", "--concrete-playback=print"]
        tdir = os.path.join(crate_dir, "target-" + re.sub(r'\W', '_', h))
        env = kani_env()
        env["CARGO_TARGET_DIR"] = tdir
        try:
            p = subprocess.run(["timeout", str(timeout)] + cmd, capture_output=True, text=True,
                               cwd=crate_dir, env=env)
        except Exception as ex:  # pragma: no cover
            return h, dict(status=UNDECIDED, failed=[], time_s=time.time() - t0, raw=str(ex), cover=[])
        raw = p.stdout + "\n" + p.stderr
        shutil.rmtree(tdir, ignore_errors=True)
        dt = time.time() - t0
        if p.returncode == 124:
            return h, dict(status=UNDECIDED, failed=[], time_s=dt, raw="timeout %ds\n" % timeout + raw[-2000:], cover=[])
        failed = []
        cover = []
        # "Check N: name\n\t - Status: FAILURE\n\t - Description: "..."\n\t - Location: ..."
        for m in re.finditer(r'Check \d+: ([^\n]+)\n\s*- Status: (\w+)\n\s*- Description: "([^\n]*)"\n(?:\s*- Location: ([^\n]+))?', raw):
            name, st, desc, loc = m.group(1), m.group(2), m.group(3), m.group(4) or ""
            if ".cover." in name or name.startswith("cover"):
                cover.append((desc, st))
            elif st in ("FAILURE",):
                failed.append("%s @ %s" % (desc, loc.strip()))
            elif st in ("UNDETERMINED",) :
                pass
        if "VERIFICATION:- SUCCESSFUL" in raw:
            status = DISCHARGED
        elif "VERIFICATION:- FAILED" in raw:
            status = FAILED
            if not failed:
                # failure w/o a failed property (e.g. unwinding assertion / unsupported feature)
                if re.search(r'unwinding assertion|unsupported|UNDETERMINED', raw):
                    status = UNDECIDED
        else:
            status = UNDECIDED
        if status == FAILED and failed and all(("unwinding assertion" in f) or ("is not currently supported" in f) for f in failed):
            status = UNDECIDED
        return h, dict(status=status, failed=failed, time_s=dt, raw=raw[-6000:], cover=cover,
                       playback=parse_playback(raw) if playback else None)

    with cf.ThreadPoolExecutor(max_workers=jobs) as ex:
        for h, r in ex.map(one, harnesses):
            results[h] = r
    return results


# --------------------------------------------------------------------------- findings

def load_known_findings():
    p = os.path.join(VERIF, "known_findings.json")
    if not os.path.exists(p):
        return []
    with open(p) as f:
        return json.load(f).get("findings", [])


def finding_for(ob, prop, findings):
    """An *open* known finding suppresses exactly one (property, obligation) pair and
    only when the failing clause matches its recorded signature."""
    for fd in findings:
        if fd.get("status") != "open":
            continue
        if fd.get("obligation") != ob.id:
            continue
        if prop not in fd.get("properties", [fd.get("property")]):
            continue
        sig = fd.get("signature")
        if sig and not re.search(sig, ob.detail or "", re.S):
            continue
        return fd
    return None


# --------------------------------------------------------------------------- reporting

def write_replay(prop, ob, extra=None):
    d = os.path.join(os.environ.get("ABRA_VERIF_OUT") or VERIF, "replays")
    os.makedirs(d, exist_ok=True)
    path = os.path.join(d, "%s-%s.json" % (prop, re.sub(r'[^A-Za-z0-9_.-]', '_', ob.id)))
    body = dict(property=prop, obligation=ob.id, unit=ob.unit, function=ob.function,
                backend=ob.backend, file=ob.file, verifier_output=ob.detail,
                counterexample=ob.cex, contract=ob.text)
    if extra:
        body.update(extra)
    with open(path, "w") as f:
        json.dump(body, f, indent=1)
    return path


def write_evidence(prop, tier, level, obligations, wall_s, assumptions, trusted_base,
                   checker_cmds, notes=None, violations=0, known=(), extra_cov=None):
    obs = [o for o in obligations]
    if level == "proof":
        # bounded / syntactic obligations are reported separately and never counted as proved
        proved_pool = [o for o in obs if not o.bounded]
    else:
        proved_pool = obs
    n = len(proved_pool)
    disch = sum(1 for o in proved_pool if o.status == DISCHARGED)
    nb = [o for o in obs if o.bounded]
    samples = []
    for o in obs[:4]:
        samples.append(dict(obligation=o.id, function=o.function, backend=o.backend,
                            status=o.status, contract=(o.text or "")[:1200]))
    cov = dict(
        obligations=n,
        discharged=disch,
        failed=sum(1 for o in obs if o.status == FAILED),
        undecided=sum(1 for o in obs if o.status == UNDECIDED),
        total_obligations_run=len(obs),
        checker_cmd="; ".join(sorted(set(checker_cmds)))[:4000],
        trusted_base=sorted(set(trusted_base)),
        samples=samples,
        functions_under_contract=sorted(set("%s:%s" % (o.file, o.function) for o in obs if o.function)),
        obligation_list=[o.to_json() for o in obs],
        bounded=[dict(obligation=o.id, bound=o.bounded, status=o.status) for o in obs if o.bounded],
        bounded_or_syntactic=dict(n=len(nb), passed=sum(1 for o in nb if o.status == DISCHARGED),
                                  note="not counted in obligations/discharged when level is proof"),
        solver_time_s=round(sum(o.time_s for o in obs), 3),
        known_findings_matched=list(known),
        # generic keys (measured): evaluations = obligations run, distinct = distinct ids run
        evaluations=len(obs),
        distinct_nontrivial=len(set(o.id for o in obs)),
        rule="one evaluation = one named proof obligation generated from /repo's current source and sent to a back end; all are non-trivial (vacuity canaries checked separately)",
    )
    if level == "model_checking":
        cov["states"] = max(1, n)
        cov["transitions"] = max(1, n)
        cov["traces_validated_against_impl"] = 0
        cov["explanation"] = ("bounded CBMC obligations: 'states'/'transitions' are not meaningful for "
                              "SAT-based bounded proofs; the numbers repeat the obligation count. See 'bounded'.")
    if notes:
        cov["notes"] = notes
    if extra_cov:
        cov.update(extra_cov)
    ev = dict(property_id=prop, tier=tier, seed=int(os.environ.get("VERIF_SEED", "0") or 0),
              level=level, coverage=cov, assumptions=sorted(set(assumptions)),
              wall_s=round(wall_s, 2), violations=violations)
    d = os.path.join(os.environ.get("ABRA_VERIF_OUT") or VERIF, "evidence")
    os.makedirs(d, exist_ok=True)
    with open(os.path.join(d, "%s.json" % prop), "w") as f:
        json.dump(ev, f, indent=1)
    return ev
