#!/usr/bin/env python3
"""Regenerates section 11.6 of DESIGN.md (claimed-properties table) from props.py."""
import os, sys
ROOT = os.path.dirname(os.path.dirname(os.path.abspath(__file__)))
sys.path.insert(0, ROOT)
import props
p = os.path.join(ROOT, "DESIGN.md")
s = open(p).read()
i = s.index("### 11.6 Claimed properties")
out = ["### 11.6 Claimed properties (generated from props.py by tools/gen_design_table.py)", "",
       "| property | units | level | technique |", "|---|---|---|---|"]
for pid in sorted(props.PROPS):
    d = props.PROPS[pid]
    out.append("| %s | %s | %s | %s |" % (pid, ", ".join(d["units"]), d["level"], d["technique"].replace("|", "/")))
out += ["", "Not applicable (reasons in MANIFEST.json / props.py): %s." % ", ".join(sorted(props.NOT_APPLICABLE)), ""]
open(p, "w").write(s[:i] + "\n".join(out))
print("DESIGN.md 11.6 regenerated: %d claimed, %d not applicable" % (len(props.PROPS), len(props.NOT_APPLICABLE)))
