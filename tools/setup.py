#!/usr/bin/env python3
"""setup_cmd: nothing to build (checks assemble scratch crates per run); verify tools exist."""
import shutil, subprocess, sys
missing = [t for t in ("verus", "cargo-kani", "cargo", "python3", "z3") if not shutil.which(t)]
if missing:
    print("missing tools:", missing); sys.exit(1)
print("tools ok")
