// ===================================================================================
// U14 harnesses (hand written), appended to the sliced constructor code of
// abra_core/src/statics/pat_exhaustiveness.rs.
// ===================================================================================

pub mod u14 {
    use super::*;

    // ---------------------------------------------------------------- Kani: scalar constructors
    // Loop-free, full domain: Int by value (all i64 pairs), Bool by value, everything by
    // Wildcard (every reason), Wildcard by nothing else, Product by Product.

    #[cfg(kani)]
    fn any_reason() -> WildcardReason {
        let r: u8 = kani::any();
        match r % 4 {
            0 => WildcardReason::UserCreated,
            1 => WildcardReason::VarPat,
            2 => WildcardReason::NonExhaustive,
            _ => WildcardReason::MatrixSpecialization,
        }
    }

    /// a constructor without heap payload; `ty`: 0 = Int, 1 = Bool, 2 = Product.  Always called with
    /// CONSTANT arguments, so the discriminant is concrete and CBMC never enters the String / Float
    /// branches of is_covered_by (Float parses its spellings after the proposed repair: dec2flt is
    /// not affordable symbolically even on an infeasible path).
    #[cfg(kani)]
    fn mk(ty: u8, wild: bool) -> Constructor {
        if wild {
            return Constructor::Wildcard(any_reason());
        }
        match ty {
            0 => Constructor::Int(kani::any()),
            1 => Constructor::Bool(kani::any()),
            _ => Constructor::Product,
        }
    }

    #[cfg(kani)]
    fn check(a: Constructor, b: Constructor) {
        let got = a.is_covered_by(&b); // must not panic
        let want = match (&a, &b) {
            (_, Constructor::Wildcard(_)) => true,
            (Constructor::Wildcard(_), _) => false,
            (Constructor::Int(x), Constructor::Int(y)) => x == y,
            (Constructor::Bool(x), Constructor::Bool(y)) => x == y,
            (Constructor::Product, Constructor::Product) => true,
            _ => {
                kani::assume(false);
                false
            }
        };
        assert!(got == want, "Int/Bool/Product not compared by value, or Wildcard does not cover everything");
        kani::cover!(matches!((&a, &b), (Constructor::Int(x), Constructor::Int(y)) if x == y), "equal ints");
        kani::cover!(matches!((&a, &b), (Constructor::Int(x), Constructor::Int(y)) if x != y), "different ints");
        kani::cover!(matches!((&a, &b), (Constructor::Bool(_), Constructor::Wildcard(_))), "bool under wildcard");
        kani::cover!(matches!((&a, &b), (Constructor::Wildcard(_), Constructor::Product)), "wildcard vs product");
    }

    /// every pair of constructors of ONE type (each side possibly a wildcard), picked by a symbolic selector
    #[cfg(kani)]
    #[kani::proof]
    #[kani::unwind(3)]
    fn is_covered_by_scalar() {
        let sel: u8 = kani::any();
        match sel {
            0 => check(mk(0, false), mk(0, false)),
            1 => check(mk(0, false), mk(0, true)),
            2 => check(mk(0, true), mk(0, false)),
            3 => check(mk(1, false), mk(1, false)),
            4 => check(mk(1, false), mk(1, true)),
            5 => check(mk(1, true), mk(1, false)),
            6 => check(mk(2, false), mk(2, false)),
            7 => check(mk(2, false), mk(2, true)),
            8 => check(mk(2, true), mk(2, false)),
            _ => check(mk(0, true), mk(0, true)),
        }
    }

    // ---------------------------------------------------------------- native: literal spellings
    #[cfg(not(kani))]
    fn q(v: &Vec<String>) -> String {
        v.iter().map(|m| format!("{:?}", m)).collect::<Vec<_>>().join(",")
    }

    /// every float spelling the lexer can hand to a pattern (`handle_num`: DIGITS '.' DIGITS*, no sign,
    /// no exponent; a pattern has no unary minus) of length <= maxlen over `digits`
    #[cfg(not(kani))]
    fn float_spellings(maxlen: usize, digits: &[char]) -> Vec<String> {
        let mut out = vec![];
        fn runs(n: usize, digits: &[char]) -> Vec<String> {
            let mut v = vec![String::new()];
            for _ in 0..n {
                let mut w = vec![];
                for s in &v {
                    for d in digits {
                        let mut t = s.clone();
                        t.push(*d);
                        w.push(t);
                    }
                }
                v = w;
            }
            v
        }
        for len in 2..=maxlen {
            for before in 1..len {
                let after = len - 1 - before;
                for b in runs(before, digits) {
                    for a in runs(after, digits) {
                        out.push(format!("{}.{}", b, a));
                    }
                }
            }
        }
        out
    }

    #[cfg(not(kani))]
    fn covered(a: &Constructor, b: &Constructor) -> Result<bool, String> {
        std::panic::catch_unwind(std::panic::AssertUnwindSafe(|| a.is_covered_by(b))).map_err(|p| {
            if let Some(m) = p.downcast_ref::<String>() { m.clone() } else if let Some(m) = p.downcast_ref::<&str>() { m.to_string() } else { "panic".to_string() }
        })
    }

    #[cfg(not(kani))]
    pub fn enumerate_main() {
        let args: Vec<String> = std::env::args().collect();
        let maxlen: usize = args.get(1).and_then(|a| a.parse().ok()).unwrap_or(5);
        let canary = args.get(2).map(|a| a == "canary").unwrap_or(false);
        std::panic::set_hook(Box::new(|_| {}));
        let mut spellings = float_spellings(maxlen, &['0', '1', '5', '9']);
        // spellings whose equality is not visible in the text
        /*@EXTRA_SPELLINGS@*/
        for e in EXTRA.iter() {
            spellings.push(e.to_string());
        }
        let bits: Vec<Option<u64>> = spellings.iter().map(|s| s.parse::<f64>().ok().map(|f| f.to_bits())).collect();
        let unparsable = bits.iter().filter(|b| b.is_none()).count();
        let (mut pairs, mut same_value, mut same_value_other_spelling) = (0u64, 0u64, 0u64);
        let (mut n_bad, mut n_panic) = (0u64, 0u64);
        let mut bad: Vec<String> = vec![];
        let ctors: Vec<Constructor> = spellings.iter().map(|s| Constructor::Float(s.clone())).collect();
        for i in 0..spellings.len() {
            for j in 0..spellings.len() {
                let (Some(bi), Some(bj)) = (bits[i], bits[j]) else { continue };
                pairs += 1;
                // the run-time test of a float literal arm is EqualFloat = total_cmp().is_eq() = same bits
                let mut want = f64::from_bits(bi).total_cmp(&f64::from_bits(bj)).is_eq();
                if canary {
                    want = !want;
                }
                if want {
                    same_value += 1;
                    if spellings[i] != spellings[j] {
                        same_value_other_spelling += 1;
                    }
                }
                match covered(&ctors[i], &ctors[j]) {
                    Err(m) => {
                        n_panic += 1;
                        if bad.len() < 10 { bad.push(format!("Float({}) vs Float({}): panic {}", spellings[i], spellings[j], m)); }
                    }
                    Ok(got) => {
                        if got != want {
                            n_bad += 1;
                            if bad.len() < 10 || (spellings[i].len() + spellings[j].len() <= 7 && bad.len() < 14) {
                                bad.push(format!("Float({}) vs Float({}): is_covered_by = {}, same binary64 value = {}", spellings[i], spellings[j], got, want));
                            }
                        }
                    }
                }
            }
        }
        // strings: by value
        let strs = ["", "a", "A", "a ", "ab", "1.0", "1.00", "\u{e9}", "e\u{301}"];
        let (mut spairs, mut s_bad) = (0u64, 0u64);
        for a in strs.iter() {
            for b in strs.iter() {
                spairs += 1;
                let got = covered(&Constructor::String(a.to_string()), &Constructor::String(b.to_string()));
                if got != Ok((a == b) != canary) {
                    s_bad += 1;
                    if bad.len() < 16 { bad.push(format!("String({:?}) vs String({:?}): {:?}", a, b, got)); }
                }
            }
        }
        // float / string under and over wildcards (every reason), no panic
        let reasons = [WildcardReason::UserCreated, WildcardReason::VarPat, WildcardReason::NonExhaustive, WildcardReason::MatrixSpecialization];
        let mut w_bad = 0u64;
        for r in reasons.iter() {
            for c in [Constructor::Float("1.0".to_string()), Constructor::String("a".to_string())].iter() {
                if covered(c, &Constructor::Wildcard(r.clone())) != Ok(true) { w_bad += 1; bad.push(format!("{:?} not covered by wildcard {:?}", c, r)); }
                if covered(&Constructor::Wildcard(r.clone()), c) != Ok(false) { w_bad += 1; bad.push(format!("wildcard {:?} covered by {:?}", r, c)); }
            }
        }
        // ---- ConstructorSet::split, Bool / Product / Unlistable, head lists of length <= 3
        let (mut split_runs, mut split_bad) = (0u64, 0u64);
        let mut split_msgs: Vec<String> = vec![];
        let wc = Constructor::Wildcard(WildcardReason::UserCreated);
        let alph_bool = vec![Constructor::Bool(true), Constructor::Bool(false), wc.clone(), Constructor::Wildcard(WildcardReason::VarPat)];
        let alph_prod = vec![Constructor::Product, wc.clone()];
        let alph_unl = vec![Constructor::Int(0), Constructor::Int(1), Constructor::Float("1.0".to_string()), wc.clone()];
        for (set, alph, kind) in [(ConstructorSet::Bool, &alph_bool, 0), (ConstructorSet::Product, &alph_prod, 1), (ConstructorSet::Unlistable, &alph_unl, 2)] {
            for len in 0..=3usize {
                let total = alph.len().pow(len as u32);
                for code in 0..total {
                    let mut c = code;
                    let mut heads = vec![];
                    for _ in 0..len {
                        heads.push(alph[c % alph.len()].clone());
                        c /= alph.len();
                    }
                    split_runs += 1;
                    let r = std::panic::catch_unwind(std::panic::AssertUnwindSafe(|| set.split(&heads)));
                    let Ok(sp) = r else {
                        split_bad += 1;
                        split_msgs.push(format!("split({:?}) panics", heads));
                        continue;
                    };
                    let wild_seen = heads.iter().any(|h| matches!(h, Constructor::Wildcard(_)));
                    let ok = match kind {
                        0 => {
                            // {true,false} is partitioned; a value is present iff it occurs in the head column
                            [true, false].iter().all(|b| {
                                let inp = sp.present_ctors.contains(&Constructor::Bool(*b));
                                let inm = sp.missing_ctors.contains(&Constructor::Bool(*b));
                                inp != inm && inp == heads.contains(&Constructor::Bool(*b))
                            }) && sp.present_ctors.len() + sp.missing_ctors.len() == 2
                        }
                        1 => {
                            // the single constructor is present iff the column is not empty
                            let inp = sp.present_ctors == vec![Constructor::Product];
                            let inm = sp.missing_ctors == vec![Constructor::Product];
                            inp != inm && inp == !heads.is_empty() && sp.present_ctors.len() + sp.missing_ctors.len() == 1
                        }
                        _ => {
                            // infinite types: present = the column, missing = one wildcard iff the column has none
                            sp.present_ctors == heads
                                && if wild_seen { sp.missing_ctors.is_empty() } else { sp.missing_ctors == vec![Constructor::Wildcard(WildcardReason::NonExhaustive)] }
                        }
                    };
                    if ok == canary {
                        split_bad += 1;
                        if split_msgs.len() < 6 { split_msgs.push(format!("split({:?}) = present {:?} missing {:?}", heads, sp.present_ctors, sp.missing_ctors)); }
                    }
                }
            }
        }
        println!(
            "{{\"spellings\":{},\"unparsable\":{},\"float_pairs\":{},\"same_value\":{},\"same_value_other_spelling\":{},\"n_bad_float\":{},\"n_panic\":{},\"string_pairs\":{},\"n_bad_string\":{},\"n_bad_wildcard\":{},\"split_runs\":{},\"n_bad_split\":{},\"bad\":[{}],\"split_msgs\":[{}]}}",
            spellings.len(), unparsable, pairs, same_value, same_value_other_spelling, n_bad, n_panic, spairs, s_bad, w_bad, split_runs, split_bad, q(&bad), q(&split_msgs)
        );
    }
}
