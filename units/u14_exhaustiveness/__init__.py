"""U14: leaves of the exhaustiveness checker (abra_core/src/statics/pat_exhaustiveness.rs):
`Constructor::is_covered_by` and `ConstructorSet::split` (Bool / Product / Unlistable), property C13.

Sliced verbatim on every run:
  pat_exhaustiveness.rs : enum Constructor, enum WildcardReason, type EnumVariant,
                          Constructor::{is_covered_by, as_bool, as_variant},
                          enum ConstructorSet, struct SplitConstructorSet, ConstructorSet::split
  utils                 : the real crate as a path dependency (hash::HashSet used by split)
Type substitutions / stubs:
  T1 strum `Display` derive on Constructor -> a hand-written Display printing the Debug form (only
     used in the panic message of is_covered_by).
  T2 EnumDef (AST) -> opaque `struct EnumDef { id: u32 }` (only reached through Variant(..) ==).
Not sliced: Constructor::arity (needs the type checker's SolvedType), the EnumVariants case of split.

Back ends:
  * Kani, loop-free, full domain: Int / Bool / Product / Wildcard pairs (`C13.ctor.is_covered_by.scalar`).
  * exhaustive native execution for literal spellings (`C13.ctor.is_covered_by.literal_equality`): every
    float spelling the lexer can give a pattern (DIGITS '.' DIGITS*, no sign, no exponent) of length <= 5
    over the digits 0 1 5 9 plus a table of long spellings, all pairs; specification = both spellings
    parse (Rust str::parse::<f64>, the function the parser itself uses) to the same binary64
    (total_cmp().is_eq(), the run-time EqualFloat test).  CBMC cannot execute dec2flt symbolically.
  * exhaustive native execution of split on head columns of length <= 3 (`C13.ctor.split.partition`).
"""
import json
import os
import re
import subprocess
import time
import slicer as S
import engine as E
import abra_cli
from . import kmulti

HERE = os.path.dirname(os.path.abspath(__file__))
UNIT = "U14-exhaustiveness"
PE = 'abra_core/src/statics/pat_exhaustiveness.rs'

EXTRA = ["1.0", "1.00", "1.", "01.0", "0.5", "0.50", "00.5", "0.1", "0.10000000000000000555", "0.3", "0.30000000000000004",
         "9007199254740992.0", "9007199254740993.0", "0.0", "0.", "00.000"]

PRELUDE = """#![allow(dead_code, unused_imports, unused_variables, unused_mut, private_interfaces, clippy::all)]
use core::panic;
use std::fmt::{self, Display};
use std::rc::Rc;
use utils::hash::{HashMap, HashSet}; // the real utils crate (path dependency)

pub type AbraInt = i64; // vm.rs

// ---- T2: opaque enum definition ----
#[derive(Debug, Clone, PartialEq, Eq, Hash)]
pub(crate) struct EnumDef {
    pub(crate) id: u32,
}

// ---- T1: stands in for strum's derived Display (panic message only) ----
impl Display for Constructor {
    fn fmt(&self, f: &mut fmt::Formatter<'_>) -> fmt::Result {
        write!(f, "{:?}", self)
    }
}
"""

CARGO = """[package]
name = "u14"
version = "0.1.0"
edition = "2024"
[dependencies]
utils = { path = "%s" }
[lints.rust]
unexpected_cfgs = { level = "allow" }
[workspace]
"""

MAIN = "#[cfg(not(kani))]\nfn main() {\n    u14::u14::enumerate_main();\n}\n#[cfg(kani)]\nfn main() {}\n"


def build():
    sl = {}
    ctor = S.item(PE, r'enum Constructor \{')
    sl['Constructor'] = ctor
    ctor2, k1 = re.subn(r'#\[derive\(Debug, Clone, PartialEq, Eq, Display\)\]', '#[derive(Debug, Clone, PartialEq, Eq)] // T1', ctor)
    if k1 != 1:
        raise S.SliceError("Constructor: derive line changed (T1)")
    reason = S.item(PE, r'enum WildcardReason \{')
    sl['WildcardReason'] = reason
    ev = S.item(PE, r'type EnumVariant = ')
    sl['EnumVariant'] = ev
    methods = []
    for m in ('is_covered_by', 'as_bool', 'as_variant'):
        t = S.method(PE, r'impl Constructor \{', m)
        sl['Constructor::' + m] = t
        methods.append(t)
    cset = S.item(PE, r'enum ConstructorSet \{')
    sl['ConstructorSet'] = cset
    scs = S.item(PE, r'struct SplitConstructorSet \{')
    sl['SplitConstructorSet'] = scs
    split = S.method(PE, r'impl ConstructorSet \{', 'split')
    sl['ConstructorSet::split'] = split
    with open(os.path.join(HERE, 'harness.rs')) as f:
        h = f.read()
    extra = "const EXTRA: [&str; %d] = [%s];" % (len(EXTRA), ", ".join('"%s"' % e for e in EXTRA))
    if '/*@EXTRA_SPELLINGS@*/' not in h:
        raise E.Undecided("harness.rs: marker EXTRA_SPELLINGS missing")
    h = h.replace('/*@EXTRA_SPELLINGS@*/', extra)
    lib = PRELUDE
    lib += "\n// ---- pat_exhaustiveness.rs (verbatim slices) ----\n"
    lib += "\n".join([ev, reason, ctor2, "impl Constructor {\n" + "\n\n".join(methods) + "\n}\n", cset, scs,
                      "impl ConstructorSet {\n" + split + "\n}\n"])
    lib += "\n" + h
    return lib, sl


def _crate(sc):
    lib, sl = build()
    sc.file("Cargo.toml", CARGO % os.path.join(S.REPO, "utils"))
    sc.file("src/lib.rs", lib)
    sc.file("src/main.rs", MAIN)
    return sl


def _native(sc, maxlen, timeout=400):
    env = E.kani_env()
    env["CARGO_TARGET_DIR"] = os.path.join(sc.path, "target-native")
    t0 = time.time()
    p = subprocess.run(["timeout", str(timeout), "cargo", "build", "--release", "--offline", "--quiet"], cwd=sc.path,
                       capture_output=True, text=True, env=env)
    if p.returncode != 0:
        raise E.Undecided("u14: native build of the sliced code failed (drift?):\n" + p.stderr[-3000:])
    exe = os.path.join(env["CARGO_TARGET_DIR"], "release", "u14")
    out = {}
    t1 = time.time()
    for mode in ("real", "canary"):
        q = subprocess.run(["timeout", str(timeout), exe, str(maxlen)] + (["canary"] if mode == "canary" else []),
                           capture_output=True, text=True)
        if q.returncode != 0:
            raise E.Undecided("u14: enumerator (%s) failed rc=%d\n%s" % (mode, q.returncode, (q.stdout + q.stderr)[-2000:]))
        out[mode] = json.loads(q.stdout.strip().split("\n")[-1])
    out["build_s"] = t1 - t0
    out["run_s"] = time.time() - t1
    return out


LIT_TEXT = ("for every pair of float spellings (s1, s2) of the bounded table: Float(s1).is_covered_by(Float(s2)) <=> s1 and s2 parse to the "
            "same binary64 value (str::parse::<f64>, compared with total_cmp().is_eq() = the run-time EqualFloat test); "
            "String(a).is_covered_by(String(b)) <=> a == b; Float/String are covered by every Wildcard and cover no Wildcard; no panic")
SCALAR_TEXT = ("for every pair (a, b) of constructors of one type among Int (all i64 values), Bool, Product, each possibly a Wildcard of any "
               "reason: a.is_covered_by(b) == (b is Wildcard || (a is not Wildcard && a and b are the same value)); no panic")
SPLIT_TEXT = ("for ConstructorSet::Bool / Product / Unlistable and every head column of length <= 3: Bool: {true,false} is partitioned into "
              "present/missing and a value is present iff it occurs in the column; Product: the single constructor is present iff the column "
              "is non-empty, else missing; Unlistable: present = the column and missing = [Wildcard(NonExhaustive)] iff the column holds no wildcard")


def cli_redundancy_standin():
    """Bounded stand-in for the part of the checker that is NOT under contract (construction of the pattern matrix from the AST,
    the usefulness recursion): every match of two free arms + a catch-all over a two-bool record (named patterns in both field orders,
    positional patterns) and over a (bool, bool) tuple, on the real CLI.  Oracle written from the property statement: an arm is redundant
    iff every value it matches is matched by an earlier arm (the type has four values); the compiler must report 'redundant cases'
    iff some arm is redundant."""
    import itertools
    import time
    t0 = time.time()
    pats = ["true", "false", "_"]

    def matches(p, v):
        return p == "_" or (p == "true") == v

    def arm_set(pa, pb):
        return {(a, b) for a in (True, False) for b in (True, False) if matches(pa, a) and matches(pb, b)}

    spell = {
        "named_ab": lambda pa, pb: "Flags(a = %s, b = %s)" % (pa, pb),
        "named_ba": lambda pa, pb: "Flags(b = %s, a = %s)" % (pb, pa),
        "positional": lambda pa, pb: "Flags(%s, %s)" % (pa, pb),
        "tuple": lambda pa, pb: "(%s, %s)" % (pa, pb),
    }
    cases = []
    arms = list(itertools.product(pats, pats))
    for (a1, a2) in itertools.product(arms, arms):
        s1, s2 = arm_set(*a1), arm_set(*a2)
        red = [not s1, s2 <= s1, (s1 | s2) == arm_set("_", "_")]
        any_red = any(red)
        for k1, k2 in (("named_ab", "named_ba"), ("named_ba", "named_ab"), ("positional", "named_ba"), ("tuple", "tuple")):
            tup = k1 == "tuple"
            last = "(_, _)" if tup else "Flags(a = _, b = _)"
            body = "    match x {\n        %s -> 1\n        %s -> 2\n        %s -> 3\n    }\n" % (spell[k1](*a1), spell[k2](*a2), last)
            if tup:
                prog = "fn f(x: (bool, bool)) -> int {\n%s}\nprintln(f((true, false)))\n" % body
            else:
                prog = "type Flags = {\n    a: bool\n    b: bool\n}\nfn f(x: Flags) -> int {\n%s}\nprintln(f(Flags(true, false)))\n" % body
            cases.append((prog, any_red, (k1, a1, k2, a2)))
    mism = []
    n_reported = 0
    for prog, any_red, key in cases:
        out, err, rc = abra_cli.run_program(prog)
        txt = re.sub(r'\x1b\[[0-9;]*m', '', out + err)
        if "panicked at" in txt:
            mism.append("compiler panic on %r" % (key,))
        else:
            reported = "redundant cases" in txt
            n_reported += 1 if reported else 0
            if reported != any_red:
                mism.append("%s: arms %s then %s: the compiler %s a redundant arm, the value model says %s" % (
                    "tuple" if key[0] == "tuple" else "record", spell[key[0]](*key[1]), spell[key[2]](*key[3]),
                    "reports" if reported else "does not report", "there is one" if any_red else "every arm is reachable"))
        if len(mism) >= 6:
            break
    status, detail = (E.FAILED if mism else E.DISCHARGED), "; ".join(mism[:4])
    if mism and n_reported == 0:
        # not one match is reported redundant: the diagnostic's wording is no longer recognised -> cannot judge (never an alarm)
        status, detail = E.UNDECIDED, "no program produced the text `redundant cases`: diagnostic wording not recognised"
    return E.Obligation("C13.cli.redundancy.sampled", ["C13"], UNIT, "match redundancy check (whole checker) via the real CLI", "bounded: run on the real CLI",
                        status, detail, time.time() - t0, "abra_core/src/statics/pat_exhaustiveness.rs", "",
                        "%d matches: two free arms over {true, false, _}^2 + a catch-all, scrutinee a two-bool record (named patterns in both field "
                        "orders, positional) or a (bool, bool) tuple; black-box stand-in, not a proof" % len(cases),
                        "the compiler reports redundant cases iff some arm matches no value that is not already matched by an earlier arm (four-value model)")


def run(tier="quick"):
    obs, info = _run_leaves(tier)
    if os.environ.get("ABRA_VERIF_PROP") in (None, "", "C13"):
        obs.append(cli_redundancy_standin())
        info['assumptions'] = list(info.get('assumptions', [])) + ["U14: `C13.cli.redundancy.sampled` is a sampled black-box run on the real CLI (324 matches), bounded, not a proof"]
    return obs, info


def _run_leaves(tier="quick"):
    maxlen = 6 if tier == "thorough" else 5
    sc = E.Scratch("u14")
    try:
        sl = _crate(sc)
        import concurrent.futures as cf
        with cf.ThreadPoolExecutor(max_workers=2) as ex:
            fk = ex.submit(kmulti.run, sc.path, ["u14::is_covered_by_scalar"], 300)
            fn = ex.submit(_native, sc, maxlen)
            kres = fk.result()
            nat = fn.result()
        real, canary = nat["real"], nat["canary"]
        obs = []
        sha_cov = S.sha(sl['Constructor::is_covered_by'] + sl['Constructor'])
        # ---- Kani scalar
        r = kres["u14::is_covered_by_scalar"]
        st, detail = r['status'], "\n".join(r['failed'][:6])
        if st == E.UNDECIDED:
            detail = r['raw'][-1500:]
        bad_cov = [c for c in r['cover'] if c[1] != 'SATISFIED']
        if st == E.DISCHARGED and (not r['cover'] or bad_cov):
            st, detail = E.UNDECIDED, "vacuity guard: cover not satisfied: %s" % (bad_cov or "no cover reported")
        obs.append(E.Obligation("C13.ctor.is_covered_by.scalar", ["C13"], UNIT, "Constructor::is_covered_by", "kani/cbmc", st, detail,
                                r['time_s'], PE, sha_cov, None, SCALAR_TEXT))
        # ---- native literal equality
        vac = None
        if not (canary["n_bad_float"] and canary["n_bad_string"] and canary["n_bad_split"]):
            vac = "vacuity canary: a negated specification is not distinguished from the real code"
        elif real["same_value_other_spelling"] == 0 or real["unparsable"]:
            vac = "vacuity guard: no pair of different spellings of one value in the table / unparsable spellings: %s" % real["unparsable"]
        nbad = real["n_bad_float"] + real["n_panic"] + real["n_bad_string"] + real["n_bad_wildcard"]
        if vac:
            st, detail = E.UNDECIDED, vac
        elif nbad:
            st = E.FAILED
            short = sorted(real["bad"], key=len)
            detail = ("%d of %d float pairs (%d of them spell one value differently), %d string pairs, %d wildcard pairs violate the clause; "
                      "first: %s" % (real["n_bad_float"] + real["n_panic"], real["float_pairs"], real["same_value_other_spelling"],
                                     real["n_bad_string"], real["n_bad_wildcard"], " | ".join(short[:6])))
        else:
            st, detail = E.DISCHARGED, ""
        bound = ("float spellings DIGITS '.' DIGITS* of length <= %d over the digits 0 1 5 9 plus %d listed long spellings "
                 "(%d spellings, %d pairs), 9 strings; exhaustive native execution, not symbolic" %
                 (maxlen, len(EXTRA), real["spellings"], real["float_pairs"]))
        obs.append(E.Obligation("C13.ctor.is_covered_by.literal_equality", ["C13"], UNIT, "Constructor::is_covered_by",
                                "exhaustive enumeration (native rustc build of the sliced code)", st, detail, nat["run_s"], PE, sha_cov,
                                bound, LIT_TEXT))
        # ---- native split
        if vac:
            st, detail = E.UNDECIDED, vac
        elif real["n_bad_split"]:
            st, detail = E.FAILED, "%d of %d head columns: %s" % (real["n_bad_split"], real["split_runs"], " | ".join(real["split_msgs"][:4]))
        else:
            st, detail = E.DISCHARGED, ""
        obs.append(E.Obligation("C13.ctor.split.partition", ["C13"], UNIT, "ConstructorSet::split",
                                "exhaustive enumeration (native rustc build of the sliced code)", st, detail, nat["run_s"], PE,
                                S.sha(sl['ConstructorSet::split']),
                                "head columns of length <= 3 over {true, false, _, x} / {Product, _} / {0, 1, 1.0, _}: %d columns; "
                                "EnumVariants case not covered" % real["split_runs"], SPLIT_TEXT))
        info = dict(
            assumptions=[
                "U14: a float literal arm is compared at run time with EqualFloat = total_cmp().is_eq() (DESIGN C16/U2); spellings denote what str::parse::<f64> returns (the conversion parse.rs itself applies)",
                "U14: patterns cannot spell negative floats or exponents (lexer handle_num + parse_match_pattern), so the spelling domain is DIGITS '.' DIGITS*",
                "U14: kani::assume only selects the constructor type of the pair (one type per pair; mixed pairs are outside is_covered_by's domain)",
                "U14: the usefulness recursion that calls is_covered_by/split is not covered (as C12)",
            ],
            trusted_base=["kani 0.68 / cbmc 6.11", "rustc (native build of the slice)", "tools/slicer.py",
                          "U14/T1 strum Display derive -> hand-written Display (panic message only)",
                          "U14/T2 EnumDef -> opaque id"],
            checker_cmds=[kres["_cmd"], "cargo build --release --offline && target/release/u14 <maxlen> [canary]"],
            notes=dict(native_build_s=round(nat["build_s"], 1), native_run_s=round(nat["run_s"], 2), kani_wall_s=round(kres["_wall_s"], 1),
                       enumeration={k: v for k, v in real.items() if k not in ('bad', 'split_msgs')},
                       canary=dict(n_bad_float=canary["n_bad_float"], n_bad_string=canary["n_bad_string"], n_bad_split=canary["n_bad_split"]),
                       extra_spellings=EXTRA),
        )
        return obs, info
    finally:
        sc.cleanup()


# ------------------------------------------------------------------ replay on the real CLI

def _match_program(s1, s2):
    return ("let x = %s\nmatch x {\n  %s -> println(\"first\"),\n  %s -> println(\"second\"),\n  _ -> println(\"other\"),\n}\n" % (s1, s1, s2))


def replay(ob):
    """For a pair of spellings (s1, s2) of one value that is_covered_by tells apart: the program
    `match s1 { s1 -> .., s2 -> .., _ -> .. }` has an unreachable second arm; the real checker must report
    'redundant cases'.  Confirmed iff it accepts the program silently (and, as a control, rejects the same program
    with s2 spelled exactly like s1)."""
    if ob.id == "C13.cli.redundancy.sampled":
        return (True if ob.status == E.FAILED else None), dict(note="the obligation itself is a run on the real CLI; the failing match is in verifier_output")
    if ob.id != "C13.ctor.is_covered_by.literal_equality":
        return None, dict(note="no CLI replay for this obligation")
    same_pairs, diff_pairs = [], []
    for m in re.finditer(r'Float\(([0-9.]+)\) vs Float\(([0-9.]+)\): is_covered_by = (true|false), same binary64 value = (true|false)', ob.detail or ""):
        (same_pairs if m.group(4) == 'true' else diff_pairs).append((m.group(1), m.group(2)))
    if same_pairs:
        same_pairs = [("1.0", "1.00")] + [pr for pr in same_pairs if pr != ("1.0", "1.00")]  # the property's own example first
    info = dict(same_value_pairs=same_pairs[:6], different_value_pairs=diff_pairs[:6])
    tried = []

    def run(s1, s2):
        prog = _match_program(s1, s2)
        out, err, rc = abra_cli.run_program(prog)
        return prog, re.sub(r'\x1b\[[0-9;]*m', '', out + err)

    # direction 1: two spellings of ONE value must make the second arm redundant
    for s1, s2 in same_pairs[:6]:
        try:
            if float(s1) != float(s2):
                continue
        except ValueError:
            continue
        prog, txt = run(s1, s2)
        control, ctxt = run(s1, s1)
        reported, control_reported = "redundant" in txt, "redundant" in ctxt
        tried.append(dict(program=prog, output=txt[:300], redundancy_reported=reported, control_reported=control_reported))
        if not reported and control_reported:
            ob.cex = dict(s1=s1, s2=s2)
            info.update(tried=tried, failing_input=dict(program=prog, output=txt[:300], control_program=control, control_output=ctxt[:200]))
            return True, info
    # direction 2: spellings of two DIFFERENT values must NOT be reported redundant
    for s1, s2 in diff_pairs[:6]:
        try:
            if float(s1) == float(s2):
                continue
        except ValueError:
            continue
        prog, txt = run(s1, s2)
        reported = "redundant" in txt
        tried.append(dict(program=prog, output=txt[:300], redundancy_reported=reported, expected="accepted: the two literals are different values"))
        if reported:
            ob.cex = dict(s1=s1, s2=s2)
            info.update(tried=tried, failing_input=dict(program=prog, output=txt[:300]))
            return True, info
    info['tried'] = tried
    return (False if tried else None), info
