// ===================================================================================
// U13 harnesses (hand written), appended to the sliced `calculate_named_arg_order`.
// ===================================================================================

pub mod u13 {
    use super::*;

    pub const NAMES: [&str; 4] = ["a", "b", "c", "zz"]; // parameter i is NAMES[i]; "zz" is never a parameter
    pub const MAXP: usize = 3; // arity bound
    pub const MAXC: usize = 4; // call-argument bound

    /// Input shape.  `choice[j]` of call argument j: 0 = positional, k>0 = named NAMES[k-1].
    #[derive(Clone, Copy, Debug)]
    pub struct Shape {
        pub np: usize,
        pub has_default: [bool; MAXP],
        pub rev: bool,
        pub nc: usize,
        pub choice: [u8; MAXC],
    }

    pub const ARG_ID: u32 = 10; // call argument j carries Expr id 10 + j
    pub const DEFAULT_ID: u32 = 100; // default value of parameter i carries Expr id 100 + i

    /// FuncArgDetails as resolve.rs `update_function_arg_info` builds it for a parameter list
    /// (name_i, default_i?) with distinct names: arg_indices = names in order, default_args =
    /// {i -> default_i}, nargs = #required + #default.  (__init__.py checks on every run that
    /// update_function_arg_info still contains these three statements.)
    pub fn details(s: &Shape) -> FuncArgDetails {
        let mut arg_indices = IdSet::new();
        let mut default_args: HashMap<usize, Rc<Expr>> = HashMap::default();
        let mut nrequired = 0usize;
        let mut i = 0;
        while i < s.np {
            arg_indices.insert(NAMES[i].to_string());
            if s.has_default[i] {
                default_args.insert(i, Rc::new(Expr { id: DEFAULT_ID + i as u32 }));
            } else {
                nrequired += 1;
            }
            i += 1;
        }
        default_args.rev = s.rev;
        let nargs = nrequired + default_args.len();
        FuncArgDetails { arg_indices, default_args, nargs }
    }

    pub fn call_args(s: &Shape) -> Vec<FuncCallArg> {
        let mut v = Vec::with_capacity(MAXC);
        let mut j = 0;
        while j < s.nc {
            let name = if s.choice[j] == 0 {
                None
            } else {
                Some(Rc::new(Identifier { v: NAMES[(s.choice[j] - 1) as usize].to_string() }))
            };
            v.push(FuncCallArg { name, val: Rc::new(Expr { id: ARG_ID + j as u32 }) });
            j += 1;
        }
        v
    }

    /// The property's notion of a well-formed call (C18): no unknown name, no duplicate, no
    /// missing required argument, no positional after named, and not more positional arguments
    /// than parameters.  -> Some(expected Expr id per parameter) when well-formed.
    pub fn expected(s: &Shape) -> Option<[u32; MAXP]> {
        let mut supplied = [0u8; MAXP];
        let mut exp = [0u32; MAXP];
        let mut named_seen = false;
        let mut j = 0;
        while j < s.nc {
            let c = s.choice[j] as usize;
            let idx = if c == 0 {
                if named_seen {
                    return None; // positional after named
                }
                j // positional argument j is parameter j
            } else {
                named_seen = true;
                c - 1
            };
            if idx >= s.np {
                return None; // unknown name ("zz" or a name beyond the arity) / too many positional arguments
            }
            supplied[idx] += 1;
            exp[idx] = ARG_ID + j as u32;
            j += 1;
        }
        let mut i = 0;
        while i < s.np {
            if supplied[i] > 1 {
                return None; // duplicate
            }
            if supplied[i] == 0 {
                if !s.has_default[i] {
                    return None; // missing required argument
                }
                exp[i] = DEFAULT_ID + i as u32;
            }
            i += 1;
        }
        Some(exp)
    }

    #[cfg(kani)]
    fn any_shape() -> Shape {
        let np: usize = kani::any();
        kani::assume(np <= MAXP);
        let has_default: [bool; MAXP] = [kani::any(), kani::any(), kani::any()];
        let rev: bool = kani::any();
        let nc: usize = kani::any();
        kani::assume(nc <= MAXC);
        let choice: [u8; MAXC] = [kani::any(), kani::any(), kani::any(), kani::any()];
        let mut j = 0;
        while j < MAXC {
            kani::assume(choice[j] <= NAMES.len() as u8);
            j += 1;
        }
        Shape { np, has_default, rev, nc, choice }
    }

    /// C18.resolve.named_arg_order.post
    #[cfg(kani)]
    #[kani::proof]
    #[kani::unwind(7)]
    fn named_arg_order_post() {
        let s = any_shape();
        let exp = expected(&s);
        kani::assume(exp.is_some()); // well-formed call shapes only
        let exp = exp.unwrap();
        let d = details(&s);
        let args = call_args(&s);
        let r = calculate_named_arg_order(&d, &args);
        assert!(r.len() == s.np, "result length differs from the number of parameters");
        let mut i = 0;
        while i < s.np {
            assert!(r[i].id == exp[i], "slot i does not hold positional i / the argument named param_i / default_i");
            i += 1;
        }
        kani::cover!(true, "reachable");
        kani::cover!(s.np == MAXP && s.nc == MAXP && s.choice[0] == 3 && s.choice[1] == 1, "3 arguments all named, out of order");
        kani::cover!(s.np == MAXP && s.nc == 1 && s.has_default[1] && s.has_default[2], "defaults fill two slots");
        kani::cover!(s.np == MAXP && s.nc == 2 && s.choice[0] == 0 && s.choice[1] == 3, "positional then named, one default");
    }

    /// C04.resolve.named_arg_order.total : no panic for ANY call shape (well-formed or not)
    #[cfg(kani)]
    #[kani::proof]
    #[kani::unwind(7)]
    fn named_arg_order_total() {
        let s = any_shape();
        let d = details(&s);
        let args = call_args(&s);
        let r = calculate_named_arg_order(&d, &args);
        assert!(r.len() <= s.np, "more slots than parameters");
        kani::cover!(true, "reachable");
        kani::cover!(expected(&s).is_none(), "ill-formed shape reachable");
        kani::cover!(s.nc > s.np, "more call arguments than parameters reachable");
    }
}
