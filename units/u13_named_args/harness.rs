// ===================================================================================
// U13 harness (hand written), appended to the sliced `calculate_named_arg_order`.
// Exhaustive native enumeration of the bounded domain (arity <= 3, <= 4 call arguments):
// CBMC needs > 6 GB for ONE concrete (arity, length) pair of this function (std iterator
// adaptors `iter().flatten().cloned().collect()` + Vec allocation), so the compiled slice
// is executed on every input of the domain instead, with panics caught.
// ===================================================================================

pub mod u13 {
    use super::*;

    pub const NAMES: [&str; 4] = ["a", "b", "c", "zz"]; // parameter i is NAMES[i]; "zz" is never a parameter
    pub const MAXP: usize = 3; // arity bound
    pub const MAXC: usize = 4; // call-argument bound

    /// Input shape.  `choice[j]` of call argument j: 0 = positional, k>0 = named NAMES[k-1].
    #[derive(Clone, Copy, Debug)]
    pub struct Shape {
        pub np: usize,
        pub has_default: [bool; MAXP],
        pub nc: usize,
        pub choice: [u8; MAXC],
    }

    pub const ARG_ID: u32 = 10; // call argument j carries Expr id 10 + j
    pub const DEFAULT_ID: u32 = 100; // default value of parameter i carries Expr id 100 + i

    /// FuncArgDetails as resolve.rs `update_function_arg_info` builds it for a parameter list
    /// (name_i, default_i?) with distinct names: arg_indices = names in order, default_args =
    /// {i -> default_i}, nargs = #required + #default.  (__init__.py checks on every run that
    /// update_function_arg_info still contains these three statements.)
    pub fn details(s: &Shape) -> FuncArgDetails {
        let mut arg_indices = IdSet::new();
        let mut default_args: HashMap<usize, Rc<Expr>> = HashMap::default();
        let mut nrequired = 0usize;
        for i in 0..s.np {
            arg_indices.insert(NAMES[i].to_string());
            if s.has_default[i] {
                default_args.insert(i, Rc::new(Expr { id: DEFAULT_ID + i as u32 }));
            } else {
                nrequired += 1;
            }
        }
        let nargs = nrequired + default_args.len();
        FuncArgDetails { arg_indices, default_args, nargs }
    }

    pub fn call_args(s: &Shape) -> Vec<FuncCallArg> {
        let mut v = Vec::with_capacity(MAXC);
        for j in 0..s.nc {
            let name = if s.choice[j] == 0 {
                None
            } else {
                Some(Rc::new(Identifier { v: NAMES[(s.choice[j] - 1) as usize].to_string() }))
            };
            v.push(FuncCallArg { name, val: Rc::new(Expr { id: ARG_ID + j as u32 }) });
        }
        v
    }

    /// The property's notion of a well-formed call (C18): no unknown name, no duplicate, no
    /// missing required argument, no positional after named, and not more positional arguments
    /// than parameters.  -> Some(expected Expr id per parameter) when well-formed.
    pub fn expected(s: &Shape, canary: bool) -> Option<Vec<u32>> {
        let mut supplied = [0u8; MAXP];
        let mut exp = [0u32; MAXP];
        let mut named_seen = false;
        for j in 0..s.nc {
            let c = s.choice[j] as usize;
            let idx = if c == 0 {
                if named_seen {
                    return None; // positional after named
                }
                j // positional argument j is parameter j
            } else {
                named_seen = true;
                c - 1
            };
            if idx >= s.np {
                return None; // unknown name ("zz" or a name beyond the arity) / too many positional arguments
            }
            supplied[idx] += 1;
            exp[idx] = ARG_ID + j as u32;
        }
        for i in 0..s.np {
            if supplied[i] > 1 {
                return None; // duplicate
            }
            if supplied[i] == 0 {
                if !s.has_default[i] {
                    return None; // missing required argument
                }
                // canary: a deliberately wrong specification (defaults shifted by one parameter)
                exp[i] = DEFAULT_ID + i as u32 + if canary { 1 } else { 0 };
            }
        }
        Some(exp[..s.np].to_vec())
    }

    pub fn show(s: &Shape) -> String {
        let params: Vec<String> =
            (0..s.np).map(|i| format!("{}{}", NAMES[i], if s.has_default[i] { "=dflt" } else { "" })).collect();
        let args: Vec<String> = (0..s.nc)
            .map(|j| if s.choice[j] == 0 { format!("#{}", j) } else { format!("{}=#{}", NAMES[(s.choice[j] - 1) as usize], j) })
            .collect();
        format!("np={} d={}{}{} nc={} c={}{}{}{} :: f({}) called as f({})", s.np, s.has_default[0] as u8, s.has_default[1] as u8,
                s.has_default[2] as u8, s.nc, s.choice[0], s.choice[1], s.choice[2], s.choice[3], params.join(", "), args.join(", "))
    }

    /// Ok(result ids) or Err(panic message)
    pub fn run_shape(s: &Shape) -> Result<Vec<u32>, String> {
        let d = details(s);
        let args = call_args(s);
        let r = std::panic::catch_unwind(std::panic::AssertUnwindSafe(|| calculate_named_arg_order(&d, &args)));
        match r {
            Ok(v) => Ok(v.iter().map(|e| e.id).collect()),
            Err(p) => Err(if let Some(m) = p.downcast_ref::<&str>() {
                m.to_string()
            } else if let Some(m) = p.downcast_ref::<String>() {
                m.clone()
            } else {
                "panic".to_string()
            }),
        }
    }

    pub fn enumerate_main() {
        let args: Vec<String> = std::env::args().collect();
        if args.len() >= 10 {
            // single shape: u13 np d0 d1 d2 nc c0 c1 c2 c3
            let a: Vec<u64> = args[1..].iter().map(|x| x.parse().unwrap()).collect();
            let s = Shape { np: a[0] as usize, has_default: [a[1] != 0, a[2] != 0, a[3] != 0], nc: a[4] as usize,
                            choice: [a[5] as u8, a[6] as u8, a[7] as u8, a[8] as u8] };
            println!("{} -> {:?} expected {:?}", show(&s), run_shape(&s), expected(&s, false));
            return;
        }
        let canary = args.get(1).map(|a| a == "canary").unwrap_or(false);
        static LAST_LOC: std::sync::Mutex<String> = std::sync::Mutex::new(String::new());
        std::panic::set_hook(Box::new(|info| {
            if let Some(l) = info.location() {
                *LAST_LOC.lock().unwrap() = format!("{}:{}", l.file(), l.line());
            }
        }));
        let (mut shapes, mut wellformed, mut illformed) = (0u64, 0u64, 0u64);
        let (mut npanic, mut nmismatch, mut nlong) = (0u64, 0u64, 0u64);
        let (mut all_named_reordered, mut defaults_fill_two, mut more_args_than_params) = (0u64, 0u64, 0u64);
        let mut panics: Vec<String> = vec![];
        let mut mismatches: Vec<String> = vec![];
        for np in 0..=MAXP {
            for dmask in 0..(1u32 << np) {
                let has_default = [dmask & 1 != 0, dmask & 2 != 0, dmask & 4 != 0];
                for nc in 0..=MAXC {
                    let total = 5u32.pow(nc as u32);
                    for code in 0..total {
                        let mut choice = [0u8; MAXC];
                        let mut c = code;
                        for j in 0..nc {
                            choice[j] = (c % 5) as u8;
                            c /= 5;
                        }
                        let s = Shape { np, has_default, nc, choice };
                        shapes += 1;
                        let exp = expected(&s, canary);
                        if exp.is_some() { wellformed += 1 } else { illformed += 1 }
                        if nc > np { more_args_than_params += 1 }
                        match run_shape(&s) {
                            Err(msg) => {
                                npanic += 1;
                                if panics.len() < 8 {
                                    panics.push(format!("{} :: panic `{}` at {}", show(&s), msg, LAST_LOC.lock().unwrap()));
                                }
                            }
                            Ok(got) => {
                                if got.len() > np {
                                    nlong += 1;
                                }
                                if let Some(e) = exp {
                                    if np == 3 && nc == 3 && choice[0] == 3 && choice[1] == 1 { all_named_reordered += 1 }
                                    if np == 3 && nc == 1 && has_default[1] && has_default[2] { defaults_fill_two += 1 }
                                    if got != e {
                                        nmismatch += 1;
                                        if mismatches.len() < 8 {
                                            mismatches.push(format!("{} :: got {:?} expected {:?}", show(&s), got, e));
                                        }
                                    }
                                }
                            }
                        }
                    }
                }
            }
        }
        let q = |v: &Vec<String>| v.iter().map(|m| format!("{:?}", m)).collect::<Vec<_>>().join(",");
        println!(
            "{{\"shapes\":{},\"wellformed\":{},\"illformed\":{},\"npanic\":{},\"nmismatch\":{},\"nlong\":{},\"cover_all_named_reordered\":{},\"cover_defaults_fill_two\":{},\"cover_more_args_than_params\":{},\"panics\":[{}],\"mismatches\":[{}]}}",
            shapes, wellformed, illformed, npanic, nmismatch, nlong, all_named_reordered, defaults_fill_two, more_args_than_params,
            q(&panics), q(&mismatches)
        );
    }
}
