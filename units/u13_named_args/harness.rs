// ===================================================================================
// U13 harness (hand written), appended to the sliced `calculate_func_call_order`,
// `calculate_named_arg_order`, `resolve_identifier`, `resolve_symbol` and `SymbolTable` text.
// Exhaustive native enumeration of the bounded domain (arity <= 3, every subset of defaults,
// <= 4 call arguments, each positional or named with a, b, c or zz).  CBMC needs > 6 GB for ONE
// concrete (arity, length) pair of calculate_named_arg_order (std iterator adaptors
// `iter().flatten().cloned().collect()` + Vec allocation), so the compiled slice is executed on
// every input of the domain instead, with panics caught.
// ===================================================================================

pub mod u13 {
    use super::*;

    pub const NAMES: [&str; 4] = ["a", "b", "c", "zz"]; // parameter i is NAMES[i]; "zz" is never a parameter
    pub const MAXP: usize = 3; // arity bound
    pub const MAXC: usize = 4; // call-argument bound

    /// Input shape.  `choice[j]` of call argument j: 0 = positional, k>0 = named NAMES[k-1].
    #[derive(Clone, Copy, Debug)]
    pub struct Shape {
        pub np: usize,
        pub has_default: [bool; MAXP],
        pub nc: usize,
        pub choice: [u8; MAXC],
    }

    pub const ARG_ID: u32 = 10; // value of call argument j is the Expr with id 10 + j
    pub const DEFAULT_ID: u32 = 100; // default value of parameter i is the Expr with id 100 + i
    pub const PARAM_ID: u32 = 200; // identifier node of parameter i in the definition
    pub const ARGNAME_ID: u32 = 300; // identifier node of the name of call argument j
    pub const FUNC_NODE: u32 = 1; // the callee expression node
    pub const FUNCAP_NODE: u32 = 2; // the call expression node
    pub const KEY: u32 = 7; // opaque FuncArgDetailsKey of the callee

    /// FuncArgDetails as resolve.rs `update_function_arg_info` builds it for a parameter list
    /// (name_i, default_i?) with distinct names: a fresh `SymbolTable::empty()` extended with one
    /// `Declaration::Var` per parameter, arg_indices = names in order, default_args = {i -> default_i},
    /// required_args = names without default, nargs = #required + #default.  (__init__.py checks on every
    /// run that update_function_arg_info still consists of these statements.)
    pub fn details(s: &Shape) -> FuncArgDetails {
        let mut arg_indices = IdSet::new();
        let symbol_table = SymbolTable::empty();
        let mut required_args: HashSet<String> = HashSet::default();
        let mut default_args: HashMap<usize, Rc<Expr>> = HashMap::default();
        for i in 0..s.np {
            let name = Rc::new(Identifier { v: NAMES[i].to_string(), id: NodeId { id: PARAM_ID + i as u32 } });
            symbol_table.extend_declaration(name.v.clone(), Declaration::Var(name.node()));
            arg_indices.insert(name.v.clone());
            if s.has_default[i] {
                default_args.insert(i, Rc::new(Expr { id: NodeId { id: DEFAULT_ID + i as u32 } }));
            } else {
                required_args.insert(name.v.clone());
            }
        }
        let nargs = required_args.len() + default_args.len();
        FuncArgDetails { symbol_table, arg_indices, required_args, default_args, nargs }
    }

    pub fn call_args(s: &Shape) -> Vec<FuncCallArg> {
        let mut v = Vec::with_capacity(MAXC);
        for j in 0..s.nc {
            let name = if s.choice[j] == 0 {
                None
            } else {
                Some(Rc::new(Identifier {
                    v: NAMES[(s.choice[j] - 1) as usize].to_string(),
                    id: NodeId { id: ARGNAME_ID + j as u32 },
                }))
            };
            v.push(FuncCallArg { name, val: Rc::new(Expr { id: NodeId { id: ARG_ID + j as u32 } }) });
        }
        v
    }

    // ------------------------------------------------------------------------------------
    // SPECIFICATION, written from the sentence of C18 (not from the code):
    //   "misuse (unknown, duplicate or missing arguments, or positional after named) is rejected
    //    with a diagnostic"; a well-formed call "behaves exactly like the positional call with the
    //    omitted parameters filled in with their defaults".
    // A positional argument in position j stands for parameter j (that is what "positional" means).
    // ------------------------------------------------------------------------------------
    #[derive(Clone, Copy, Debug, Default, PartialEq)]
    pub struct Misuse {
        pub unknown: bool,          // a name that is not a parameter
        pub duplicate: bool,        // one parameter supplied twice (named+named or positional+named)
        pub missing: bool,          // a parameter without default supplied neither positionally nor by name
        pub pos_after_named: bool,  // a positional argument after a named one
        pub excess_positional: bool, // NOT in the property's list: more positional arguments than parameters
    }
    impl Misuse {
        pub fn listed(&self) -> bool {
            self.unknown || self.duplicate || self.missing || self.pos_after_named
        }
    }

    pub fn classify(s: &Shape) -> Misuse {
        let mut m = Misuse::default();
        let mut supplied = [0u8; MAXP];
        let mut named_seen = false;
        for j in 0..s.nc {
            let c = s.choice[j] as usize;
            if c == 0 {
                if named_seen {
                    m.pos_after_named = true;
                }
                if j < s.np {
                    supplied[j] += 1;
                } else {
                    m.excess_positional = true;
                }
            } else {
                named_seen = true;
                if c - 1 < s.np {
                    supplied[c - 1] += 1;
                } else {
                    m.unknown = true;
                }
            }
        }
        for i in 0..s.np {
            if supplied[i] > 1 {
                m.duplicate = true;
            }
            if supplied[i] == 0 && !s.has_default[i] {
                m.missing = true;
            }
        }
        m
    }

    /// the positional call with defaults filled in (Expr ids), for a well-formed call
    pub fn expected(s: &Shape, canary: bool) -> Option<Vec<u32>> {
        let m = classify(s);
        if m.listed() || m.excess_positional {
            return None;
        }
        let mut exp = vec![0u32; s.np];
        let mut given = [false; MAXP];
        for j in 0..s.nc {
            let c = s.choice[j] as usize;
            let idx = if c == 0 { j } else { c - 1 };
            exp[idx] = ARG_ID + j as u32;
            given[idx] = true;
        }
        for i in 0..s.np {
            if !given[i] {
                // canary: a deliberately wrong specification (defaults shifted by one parameter)
                exp[i] = DEFAULT_ID + i as u32 + if canary { 1 } else { 0 };
            }
        }
        Some(exp)
    }

    pub fn show(s: &Shape) -> String {
        let params: Vec<String> =
            (0..s.np).map(|i| format!("{}{}", NAMES[i], if s.has_default[i] { "=dflt" } else { "" })).collect();
        let args: Vec<String> = (0..s.nc)
            .map(|j| if s.choice[j] == 0 { format!("#{}", j) } else { format!("{}=#{}", NAMES[(s.choice[j] - 1) as usize], j) })
            .collect();
        format!("np={} d={}{}{} nc={} c={}{}{}{} :: f({}) called as f({})", s.np, s.has_default[0] as u8, s.has_default[1] as u8,
                s.has_default[2] as u8, s.nc, s.choice[0], s.choice[1], s.choice[2], s.choice[3], params.join(", "), args.join(", "))
    }

    fn panic_text(p: Box<dyn std::any::Any + Send>) -> String {
        if let Some(m) = p.downcast_ref::<&str>() {
            m.to_string()
        } else if let Some(m) = p.downcast_ref::<String>() {
            m.clone()
        } else {
            "panic".to_string()
        }
    }

    /// calculate_named_arg_order alone: Ok(result ids) or Err(panic message)
    pub fn run_shape(s: &Shape) -> Result<Vec<u32>, String> {
        let d = details(s);
        let args = call_args(s);
        let r = std::panic::catch_unwind(std::panic::AssertUnwindSafe(|| calculate_named_arg_order(&d, &args)));
        match r {
            Ok(v) => Ok(v.iter().map(|e| e.id.id).collect()),
            Err(p) => Err(panic_text(p)),
        }
    }

    pub struct CallOutcome {
        pub errors: Vec<String>,
        pub order: Option<Vec<u32>>,
    }

    /// the caller: calculate_func_call_order on a context that resolves the callee to its definition
    pub fn run_call(s: &Shape) -> Result<CallOutcome, String> {
        let args = call_args(s);
        let mut ctx = StaticsContext {
            resolution_map: HashMap::default(),
            func_arg_details: HashMap::default(),
            function_call_arg_order: HashMap::default(),
            errors: Vec::new(),
        };
        ctx.resolution_map.insert(NodeId { id: FUNC_NODE }, Declaration::Function(FuncArgDetailsKey(KEY)));
        ctx.func_arg_details.insert(FuncArgDetailsKey(KEY), details(s));
        let func_node = AstNode::Other(NodeId { id: FUNC_NODE });
        let funcap_node = AstNode::Other(NodeId { id: FUNCAP_NODE });
        let r = std::panic::catch_unwind(std::panic::AssertUnwindSafe(|| {
            calculate_func_call_order(&mut ctx, func_node, &args, funcap_node);
        }));
        if let Err(p) = r {
            return Err(panic_text(p));
        }
        let errors = ctx
            .errors
            .iter()
            .map(|e| match e {
                Error::GenericWithNode { msg, .. } => msg.clone(),
                Error::UnresolvedIdentifier { .. } => "unresolved identifier".to_string(),
            })
            .collect();
        let order = ctx.function_call_arg_order.get(&NodeId { id: FUNCAP_NODE }).map(|v| v.iter().map(|e| e.id.id).collect());
        Ok(CallOutcome { errors, order })
    }

    fn push(v: &mut Vec<String>, s: String) {
        if v.len() < 8 {
            v.push(s);
        }
    }

    pub fn enumerate_main() {
        let args: Vec<String> = std::env::args().collect();
        if args.len() >= 10 {
            // single shape: u13 np d0 d1 d2 nc c0 c1 c2 c3
            let a: Vec<u64> = args[1..].iter().map(|x| x.parse().unwrap()).collect();
            let s = Shape { np: a[0] as usize, has_default: [a[1] != 0, a[2] != 0, a[3] != 0], nc: a[4] as usize,
                            choice: [a[5] as u8, a[6] as u8, a[7] as u8, a[8] as u8] };
            let c = run_call(&s);
            println!("{}\n  callee -> {:?}\n  caller -> errors {:?} order {:?}\n  spec   -> {:?} expected {:?}", show(&s), run_shape(&s),
                     c.as_ref().map(|o| o.errors.clone()), c.as_ref().map(|o| o.order.clone()), classify(&s), expected(&s, false));
            return;
        }
        let canary = args.get(1).map(|a| a == "canary").unwrap_or(false);
        static LAST_LOC: std::sync::Mutex<String> = std::sync::Mutex::new(String::new());
        std::panic::set_hook(Box::new(|info| {
            if let Some(l) = info.location() {
                *LAST_LOC.lock().unwrap() = format!("{}:{}", l.file(), l.line());
            }
        }));
        // callee (existing obligations)
        let (mut shapes, mut wellformed, mut illformed) = (0u64, 0u64, 0u64);
        let (mut npanic, mut nmismatch, mut nlong) = (0u64, 0u64, 0u64);
        let (mut all_named_reordered, mut defaults_fill_two, mut more_args_than_params) = (0u64, 0u64, 0u64);
        let mut panics: Vec<String> = vec![];
        let mut mismatches: Vec<String> = vec![];
        // caller (new obligations)
        let (mut in_domain, mut misuse_shapes, mut valid_shapes) = (0u64, 0u64, 0u64);
        let (mut k_unknown, mut k_dup_named, mut k_dup_pos_named, mut k_missing, mut k_pos_after) = (0u64, 0u64, 0u64, 0u64, 0u64);
        let (mut n_accepted_misuse, mut n_rejected_valid, mut n_caller_panic) = (0u64, 0u64, 0u64);
        let mut misuse_bad: Vec<String> = vec![];
        let (mut n_order_undefined, mut n_order_wrong, mut n_order_incomplete, mut orders_recorded) = (0u64, 0u64, 0u64, 0u64);
        let mut order_bad: Vec<String> = vec![];
        let (mut excess_only, mut excess_only_no_diag) = (0u64, 0u64);
        let mut excess_examples: Vec<String> = vec![];
        for np in 0..=MAXP {
            for dmask in 0..(1u32 << np) {
                let has_default = [dmask & 1 != 0, dmask & 2 != 0, dmask & 4 != 0];
                for nc in 0..=MAXC {
                    let total = 5u32.pow(nc as u32);
                    for code in 0..total {
                        let mut choice = [0u8; MAXC];
                        let mut c = code;
                        for j in 0..nc {
                            choice[j] = (c % 5) as u8;
                            c /= 5;
                        }
                        let s = Shape { np, has_default, nc, choice };
                        shapes += 1;
                        let exp = expected(&s, canary);
                        if exp.is_some() { wellformed += 1 } else { illformed += 1 }
                        if nc > np { more_args_than_params += 1 }
                        // ---- callee alone
                        match run_shape(&s) {
                            Err(msg) => {
                                npanic += 1;
                                push(&mut panics, format!("{} :: panic `{}` at {}", show(&s), msg, LAST_LOC.lock().unwrap()));
                            }
                            Ok(got) => {
                                if got.len() > np {
                                    nlong += 1;
                                }
                                if let Some(e) = &exp {
                                    if np == 3 && nc == 3 && choice[0] == 3 && choice[1] == 1 { all_named_reordered += 1 }
                                    if np == 3 && nc == 1 && has_default[1] && has_default[2] { defaults_fill_two += 1 }
                                    if &got != e {
                                        nmismatch += 1;
                                        push(&mut mismatches, format!("{} :: got {:?} expected {:?}", show(&s), got, e));
                                    }
                                }
                            }
                        }
                        // ---- caller
                        let m = classify(&s);
                        let out = run_call(&s);
                        if m.excess_positional {
                            // outside the obligation's domain; recorded as an observation only
                            if !m.listed() {
                                excess_only += 1;
                                if let Ok(o) = &out {
                                    if o.errors.is_empty() {
                                        excess_only_no_diag += 1;
                                        if excess_examples.len() < 3 {
                                            excess_examples.push(format!("{} :: no diagnostic, recorded order {:?}", show(&s), o.order));
                                        }
                                    }
                                }
                            }
                            continue;
                        }
                        in_domain += 1;
                        let misuse = m.listed() != canary; // canary: negated specification
                        if m.listed() {
                            misuse_shapes += 1;
                            if m.unknown { k_unknown += 1 }
                            if m.missing { k_missing += 1 }
                            if m.pos_after_named { k_pos_after += 1 }
                            if m.duplicate {
                                // positional+named duplicate: some named argument names a parameter also given positionally
                                let mut pos_named = false;
                                let npos = (0..nc).take_while(|j| choice[*j] == 0).count();
                                for j in 0..nc {
                                    if choice[j] != 0 && ((choice[j] - 1) as usize) < npos.min(np) { pos_named = true }
                                }
                                if pos_named { k_dup_pos_named += 1 } else { k_dup_named += 1 }
                            }
                        } else {
                            valid_shapes += 1;
                        }
                        match out {
                            Err(msg) => {
                                n_caller_panic += 1;
                                push(&mut misuse_bad, format!("{} :: PANIC `{}` at {} (spec: {:?})", show(&s), msg, LAST_LOC.lock().unwrap(), m));
                            }
                            Ok(o) => {
                                if misuse && o.errors.is_empty() {
                                    n_accepted_misuse += 1;
                                    push(&mut misuse_bad, format!("{} :: MISUSE ACCEPTED, no diagnostic (spec: {:?}); recorded order {:?}", show(&s), m, o.order));
                                }
                                if !misuse && !o.errors.is_empty() {
                                    n_rejected_valid += 1;
                                    push(&mut misuse_bad, format!("{} :: VALID CALL REJECTED: {:?}", show(&s), o.errors));
                                }
                                if let Some(ord) = &o.order {
                                    orders_recorded += 1;
                                    if ord.len() != np {
                                        n_order_incomplete += 1;
                                        push(&mut order_bad, format!("{} :: INCOMPLETE ORDER {:?} recorded for {} parameters (diagnostics {:?})", show(&s), ord, np, o.errors));
                                    }
                                }
                                if o.errors.is_empty() {
                                    if let Some(e) = &exp {
                                        match &o.order {
                                            None => {
                                                n_order_undefined += 1;
                                                push(&mut order_bad, format!("{} :: NO ORDER RECORDED for a well-formed call", show(&s)));
                                            }
                                            Some(ord) => {
                                                if ord != e {
                                                    n_order_wrong += 1;
                                                    push(&mut order_bad, format!("{} :: WRONG ORDER {:?} expected {:?}", show(&s), ord, e));
                                                }
                                            }
                                        }
                                    }
                                }
                            }
                        }
                    }
                }
            }
        }
        let q = |v: &Vec<String>| v.iter().map(|m| format!("{:?}", m)).collect::<Vec<_>>().join(",");
        println!(
            "{{\"shapes\":{},\"wellformed\":{},\"illformed\":{},\"npanic\":{},\"nmismatch\":{},\"nlong\":{},\"cover_all_named_reordered\":{},\"cover_defaults_fill_two\":{},\"cover_more_args_than_params\":{},\"panics\":[{}],\"mismatches\":[{}],\
\"caller\":{{\"in_domain\":{},\"misuse_shapes\":{},\"valid_shapes\":{},\"cover_unknown\":{},\"cover_duplicate_named_named\":{},\"cover_duplicate_positional_named\":{},\"cover_missing\":{},\"cover_positional_after_named\":{},\
\"n_accepted_misuse\":{},\"n_rejected_valid\":{},\"n_panic\":{},\"misuse_bad\":[{}],\"orders_recorded\":{},\"n_order_undefined\":{},\"n_order_wrong\":{},\"n_order_incomplete\":{},\"order_bad\":[{}],\
\"excess_positional_only\":{},\"excess_positional_only_without_diagnostic\":{},\"excess_examples\":[{}]}}}}",
            shapes, wellformed, illformed, npanic, nmismatch, nlong, all_named_reordered, defaults_fill_two, more_args_than_params,
            q(&panics), q(&mismatches),
            in_domain, misuse_shapes, valid_shapes, k_unknown, k_dup_named, k_dup_pos_named, k_missing, k_pos_after,
            n_accepted_misuse, n_rejected_valid, n_caller_panic, q(&misuse_bad), orders_recorded, n_order_undefined, n_order_wrong,
            n_order_incomplete, q(&order_bad), excess_only, excess_only_no_diag, q(&excess_examples)
        );
    }
}
