"""U13: `calculate_named_arg_order` (abra_core/src/statics/resolve.rs), sliced verbatim, with its
argument types reduced by TYPE SUBSTITUTION only; Kani, bounded (arity <= 3, <= 4 call arguments).

Sliced verbatim on every run:
  resolve.rs  : fn calculate_named_arg_order
  statics.rs  : struct FuncArgDetails minus the fields the function does not read
  ast.rs      : struct FuncCallArg; struct Identifier minus loc/id
  id_set.rs   : IdSet::get_id (the `try_get_id(value).unwrap()` that panics)
Type substitutions / stubs:
  T1 FuncArgDetails: fields `symbol_table`, `required_args` dropped (not read by the function).
  T2 IdSet<String> -> association-list stand-in (Vec<T>, first-insertion order = id) with
     new/insert/try_get_id/len and the REAL get_id body; replaces utils::IdSet (hashbrown map +
     raw pointers, proved separately in U15).
  T3 HashMap<usize, Rc<Expr>> -> association-list stand-in with insert/len/default and
     `for (k, v) in &map`; iteration order forward or reversed (symbolic) instead of hash order.
  T4 Expr -> opaque `struct Expr { id: u32 }` behind the real Rc.
  T5 Identifier: fields `loc`, `id` dropped (only `.v` is read).
"""
import os
import re
import slicer as S
import engine as E
import abra_cli
from . import kmulti

HERE = os.path.dirname(os.path.abspath(__file__))
UNIT = "U13-named-args"
R = 'abra_core/src/statics/resolve.rs'
ST = 'abra_core/src/statics.rs'
A = 'abra_core/src/ast.rs'
IDS = 'utils/src/id_set.rs'

PRELUDE = """#![allow(dead_code, unused_imports, unused_variables, unused_mut, clippy::all)]
use std::hash::Hash;
use std::rc::Rc;

// ---- T4: opaque expression ----
#[derive(Debug, Clone, PartialOrd, Ord, PartialEq, Eq, Hash)]
pub(crate) struct Expr {
    pub(crate) id: u32,
}

// ---- T3: association-list stand-in for utils::hash::HashMap ----
#[derive(Clone)]
pub struct HashMap<K, V> {
    items: Vec<(K, V)>,
    pub rev: bool,
}
impl<K, V> Default for HashMap<K, V> {
    fn default() -> Self {
        HashMap { items: Vec::new(), rev: false }
    }
}
impl<K: PartialEq, V> HashMap<K, V> {
    pub fn insert(&mut self, k: K, v: V) -> Option<V> {
        let mut i = 0;
        while i < self.items.len() {
            if self.items[i].0 == k {
                return Some(std::mem::replace(&mut self.items[i].1, v));
            }
            i += 1;
        }
        self.items.push((k, v));
        None
    }
    pub fn len(&self) -> usize {
        self.items.len()
    }
}
pub struct HashMapIter<'a, K, V> {
    m: &'a HashMap<K, V>,
    next: usize,
}
impl<'a, K, V> Iterator for HashMapIter<'a, K, V> {
    type Item = (&'a K, &'a V);
    fn next(&mut self) -> Option<Self::Item> {
        if self.next >= self.m.items.len() {
            return None;
        }
        let i = if self.m.rev { self.m.items.len() - 1 - self.next } else { self.next };
        self.next += 1;
        let (k, v) = &self.m.items[i];
        Some((k, v))
    }
}
impl<'a, K, V> IntoIterator for &'a HashMap<K, V> {
    type Item = (&'a K, &'a V);
    type IntoIter = HashMapIter<'a, K, V>;
    fn into_iter(self) -> Self::IntoIter {
        HashMapIter { m: self, next: 0 }
    }
}

// ---- T2: association-list stand-in for utils::id_set::IdSet (ids = first-insertion order) ----
#[derive(Clone)]
pub struct IdSet<T: Hash + Eq> {
    items: Vec<T>,
}
impl<T: Hash + Eq> IdSet<T> {
    pub fn new() -> Self {
        IdSet { items: Vec::new() }
    }
    pub fn insert(&mut self, value: T) -> u32 {
        if let Some(id) = self.try_get_id(&value) {
            return id;
        }
        self.items.push(value);
        (self.items.len() - 1) as u32
    }
    pub fn try_get_id(&self, value: &T) -> Option<u32> {
        let mut i = 0;
        while i < self.items.len() {
            if &self.items[i] == value {
                return Some(i as u32);
            }
            i += 1;
        }
        None
    }
    pub fn len(&self) -> usize {
        self.items.len()
    }
/*@GET_ID@*/
}
"""

CARGO = """[package]
name = "u13"
version = "0.1.0"
edition = "2024"
[dependencies]
[lints.rust]
unexpected_cfgs = { level = "allow" }
[workspace]
"""

MAIN = """#[cfg(not(kani))]
fn main() {
    // replay helper: u13 <np> <d0> <d1> <d2> <rev> <nc> <c0> <c1> <c2> <c3>  -> runs the sliced function natively
    use u13::u13::*;
    let a: Vec<u64> = std::env::args().skip(1).map(|x| x.parse().unwrap()).collect();
    let s = Shape { np: a[0] as usize, has_default: [a[1] != 0, a[2] != 0, a[3] != 0], rev: a[4] != 0, nc: a[5] as usize,
                    choice: [a[6] as u8, a[7] as u8, a[8] as u8, a[9] as u8] };
    let r = u13::replay_run(&s);
    println!("result ids: {:?}  expected: {:?}", r, expected(&s));
}
#[cfg(kani)]
fn main() {}
"""

REPLAY_FN = """
#[cfg(not(kani))]
pub fn replay_run(s: &u13::Shape) -> Vec<u32> {
    let d = u13::details(s);
    let args = u13::call_args(s);
    calculate_named_arg_order(&d, &args).iter().map(|e| e.id).collect()
}
"""

OBL = [
    ("C18.resolve.named_arg_order.post", ["C18"], "named_arg_order_post",
     "for every parameter list of arity <= 3 (any subset with defaults) and every call of <= 4 arguments that is well-formed "
     "(no unknown name, no duplicate, no missing required argument, no positional after named, not more positional arguments "
     "than parameters): calculate_named_arg_order returns a vector of length nargs whose slot i holds positional argument i, "
     "else the argument named param_i, else default_i"),
    ("C04.resolve.named_arg_order.total", ["C04", "C18"], "named_arg_order_total",
     "for every parameter list of arity <= 3 and EVERY call of <= 4 arguments (named with a parameter name, with an unknown name, "
     "or positional, in any order): calculate_named_arg_order returns (no panic) and returns at most nargs slots"),
]
BOUND = ("arity <= 3, <= 4 call arguments, names drawn from {a, b, c, zz}; default_args iterated forward or reversed "
         "(2 of the possible hash orders); Kani unwind 7")


def build():
    sl = {}
    fn = S.item(R, r'fn calculate_named_arg_order\(')
    sl['calculate_named_arg_order'] = fn
    fad = S.item(ST, r'pub\(crate\) struct FuncArgDetails \{')
    sl['FuncArgDetails'] = fad
    fad2 = S.drop_fields(fad, ['symbol_table', 'required_args'])
    left = re.findall(r'^\s+(\w+):', fad2, re.M)
    if left != ['arg_indices', 'default_args', 'nargs']:
        raise S.SliceError("FuncArgDetails: fields after T1 are %s" % left)
    for f in ('symbol_table', 'required_args'):
        if re.search(r'\b%s\b' % f, fn):
            raise S.SliceError("calculate_named_arg_order reads dropped field %s" % f)
    fad2 = re.sub(r'^(\s+)(arg_indices|default_args|nargs):', r'\1pub(crate) \2:', fad2, flags=re.M)
    fca = S.item(A, r'pub struct FuncCallArg \{')
    sl['FuncCallArg'] = fca
    ident = S.item(A, r'pub\(crate\) struct Identifier \{')
    sl['Identifier'] = ident
    ident2 = S.drop_fields(ident, ['loc', 'id'])
    ident2 = ident2.replace('#[derive(Debug, Clone, PartialOrd, Ord, PartialEq, Eq)]',
                            '#[derive(Debug, Clone, PartialOrd, Ord, PartialEq, Eq, Hash)] // T5: Hash derived (real impl hashes the dropped id)')
    if 'Hash)]' not in ident2:
        raise S.SliceError("Identifier derive line changed")
    get_id = S.method(IDS, r'impl<T: Hash \+ Eq> IdSet<T> \{', 'get_id')
    sl['IdSet::get_id'] = get_id
    if not re.search(r'self\.try_get_id\(value\)', get_id):
        raise S.SliceError("IdSet::get_id no longer delegates to try_get_id")
    # the harness builds FuncArgDetails the way update_function_arg_info does: check its three statements
    upd = S.item(R, r'fn update_function_arg_info\(')
    for stmt in ('arg_indices.insert(name.v.clone());', 'default_args.insert(i, default_arg);',
                 'let nargs = required_args.len() + default_args.len();'):
        if stmt not in upd:
            raise S.SliceError("update_function_arg_info no longer contains `%s` (harness constructor mirrors it)" % stmt)
    with open(os.path.join(HERE, 'harness.rs')) as f:
        h = f.read()
    lib = PRELUDE.replace('/*@GET_ID@*/', get_id)
    lib += "\n// ---- T5: ast.rs Identifier minus loc/id ----\n" + ident2 + "\n"
    lib += "\n// ---- ast.rs FuncCallArg (verbatim) ----\n" + fca + "\n"
    lib += "\n// ---- T1: statics.rs FuncArgDetails minus symbol_table/required_args ----\n" + fad2 + "\n"
    lib += "\n// ---- resolve.rs calculate_named_arg_order (verbatim) ----\n" + fn + "\n"
    lib += REPLAY_FN + "\n" + h
    return lib, sl


def _crate(sc):
    lib, sl = build()
    sc.file("Cargo.toml", CARGO)
    sc.file("src/lib.rs", lib)
    sc.file("src/main.rs", MAIN)
    return sl


def run(tier="quick"):
    sc = E.Scratch("u13")
    try:
        sl = _crate(sc)
        names = ["u13::" + o[2] for o in OBL]
        res = kmulti.run(sc.path, names, timeout=900 if tier == "thorough" else 400)
        obs = []
        sha = S.sha(sl['calculate_named_arg_order'] + sl['IdSet::get_id'])
        for oid, props, h, text in OBL:
            r = res["u13::" + h]
            st = r['status']
            detail = "\n".join(r['failed'][:6])
            if st == E.UNDECIDED:
                detail = r['raw'][-1500:]
            bad_cov = [c for c in r['cover'] if c[1] != 'SATISFIED']
            if st == E.DISCHARGED and (not r['cover'] or bad_cov):
                st, detail = E.UNDECIDED, "vacuity guard: cover not satisfied: %s" % (bad_cov or "no cover reported")
            obs.append(E.Obligation(oid, props, UNIT, "calculate_named_arg_order", "kani/cbmc", st, detail, r['time_s'],
                                    R, sha, BOUND, text))
        info = dict(
            assumptions=[
                "U13: kani::assume bounds arity (<= 3), call length (<= 4) and name choices; `post` additionally assumes the call shape is well-formed (expected(..).is_some())",
                "U13: FuncArgDetails is built as update_function_arg_info builds it for distinct parameter names (its three statements are checked syntactically on every run)",
                "U13/T3: HashMap iteration order = insertion order or its reverse",
                "U13: that calculate_func_call_order rejects ill-formed shapes and that the translator emits arguments in the returned order is not covered",
            ],
            trusted_base=["kani 0.68 / cbmc 6.11", "tools/slicer.py",
                          "U13/T1 FuncArgDetails minus symbol_table, required_args",
                          "U13/T2 IdSet<String> association-list stand-in (real get_id body; real IdSet proved in U15)",
                          "U13/T3 HashMap association-list stand-in", "U13/T4 Expr = opaque id behind the real Rc",
                          "U13/T5 Identifier minus loc, id (Hash derived)"],
            checker_cmds=[res["_cmd"]],
            notes=dict(kani_wall_s=round(res["_wall_s"], 1), bound=BOUND,
                       retried=[h for h in names if res[h].get('retried')]),
        )
        return obs, info
    finally:
        sc.cleanup()


# ------------------------------------------------------------------ replay

NAMES = ["a", "b", "c", "zz"]


def _program(shape):
    np_, hd, nc, ch = shape['np'], shape['has_default'], shape['nc'], shape['choice']
    params = ", ".join("%s: int%s" % (NAMES[i], " = %d" % (100 + i) if hd[i] else "") for i in range(np_))
    body = " ".join("println(%s)" % NAMES[i] for i in range(np_))
    args = ", ".join(("%s = %d" % (NAMES[ch[j] - 1], 10 + j)) if ch[j] else str(10 + j) for j in range(nc))
    return "fn f(%s) { %s\n}\nf(%s)\n" % (params, body.replace(" ", "\n  "), args)


def _expected(shape):
    np_, hd, nc, ch = shape['np'], shape['has_default'], shape['nc'], shape['choice']
    sup = [[] for _ in range(np_)]
    named = False
    for j in range(nc):
        if ch[j] == 0:
            if named:
                return None
            idx = j
        else:
            named = True
            idx = ch[j] - 1
        if idx >= np_:
            return None
        sup[idx].append(10 + j)
    out = []
    for i in range(np_):
        if len(sup[i]) > 1:
            return None
        if not sup[i]:
            if not hd[i]:
                return None
            out.append(100 + i)
        else:
            out.append(sup[i][0])
    return out


def _run_cli(shape):
    prog = _program(shape)
    out, err, rc = abra_cli.run_program(prog)
    txt = re.sub(r'\x1b\[[0-9;]*m', '', out + err)
    panicked = "panicked at" in txt
    return prog, txt, panicked, rc


def replay(ob):
    """Concrete call shape from Kani's playback -> an Abra program `fn f(a: int, b: int = 101, ..) {print params}`
    `f(10, c = 11, ..)` run on the real CLI.  total: confirmed iff the compiler panics.  post: confirmed iff the
    program is accepted and prints other values than the specification."""
    h = dict((o[0], o[2]) for o in OBL).get(ob.id)
    if not h:
        return None, dict(note="unknown obligation")
    sc = E.Scratch("u13r")
    try:
        _crate(sc)
        r = kmulti.run(sc.path, ["u13::" + h], timeout=600, playback=True)["u13::" + h]
    finally:
        sc.cleanup()
    info = dict(kani_status=r['status'], kani_failed=r['failed'][:3])
    pb = r.get('playback')
    shapes = []
    if r['status'] == E.FAILED and pb and len(pb) >= 10:
        v = [E.le_int(b, signed=False) for b in pb]
        shape = dict(np=v[0], has_default=[bool(v[1]), bool(v[2]), bool(v[3])], rev=bool(v[4]), nc=v[5], choice=v[6:10])
        if shape['np'] <= 3 and shape['nc'] <= 4 and all(c <= 4 for c in shape['choice']):
            info['counterexample'] = shape
            ob.cex = shape
            shapes.append(shape)
    if ob.id.endswith('.total'):
        # canonical witness of the expected class as a second candidate
        shapes.append(dict(np=1, has_default=[False, False, False], rev=False, nc=2, choice=[0, 4, 0, 0]))
    tried = []
    for shape in shapes:
        prog, txt, panicked, rc = _run_cli(shape)
        want = _expected(shape)
        got = [int(x) for x in txt.split() if re.fullmatch(r'-?\d+', x)] if not panicked else None
        tried.append(dict(program=prog, output=txt[:400], panicked=panicked, expected=want))
        if ob.id.endswith('.total'):
            if panicked:
                info.update(tried=tried, failing_input=dict(program=prog, output=txt[:400]))
                return True, info
        else:
            if want is not None and (panicked or ("error" not in txt and got != want)):
                info.update(tried=tried, failing_input=dict(program=prog, output=txt[:400], expected=want))
                return True, info
    info['tried'] = tried
    return (False if tried else None), info
