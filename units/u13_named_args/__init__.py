"""U13: named / default argument resolution of abra_core/src/statics/resolve.rs (property C18, C04 leaf):
the caller `calculate_func_call_order` (misuse diagnostics + recording of the argument order) and the
callee `calculate_named_arg_order`, both sliced verbatim, compiled natively against the REAL utils crate
and executed on EVERY input of a bounded domain (arity <= 3, every subset of defaults, <= 4 call
arguments, each positional or named with a, b, c or zz: 11,715 call shapes).

Back end: exhaustive native enumeration (bounded, labelled so).  Kani was tried first (as DESIGN.md
plans): with String names and Rc payloads CBMC reached 17 GB; with u8 names, an inline Rc and one
concrete (arity, length) pair per call it still ran out of 6 GB (the callee's
`iter().flatten().cloned().collect()` and Vec allocation dominate).  Panics are caught with catch_unwind.

Sliced verbatim on every run (tools/slicer.py, by name):
  resolve.rs : fn calculate_func_call_order, fn calculate_named_arg_order, fn resolve_identifier,
               fn resolve_symbol, struct SymbolTable, struct SymbolTableBase,
               SymbolTableBase::{lookup_declaration, extend_declaration},
               SymbolTable::{empty, lookup_declaration, extend_declaration}
  statics.rs : struct FuncArgDetails (complete); the four field declarations of StaticsContext that the
               sliced code touches (resolution_map, func_arg_details, function_call_arg_order, errors)
  ast.rs     : struct FuncCallArg, struct NodeId, struct Identifier minus `loc` + its Hash impl +
               `impl Identifier { node }`, `impl Expr { node }`
  utils      : the real crate as a path dependency: IdSet<String> (get_id, try_get_id, Index),
               hash::{HashMap, HashSet}, and the REAL `swrite!` macro
Type substitutions / stubs (every one is listed in info['trusted_base']):
  T1 StaticsContext -> a struct with exactly the four fields above (their real declarations).
  T2 Expr -> opaque `struct Expr { id: NodeId }` behind the real Rc (+ the real `impl Expr { node }`).
  T3 AstNode -> opaque enum {Expr(Rc<Expr>), Identifier(Rc<Identifier>), Other(NodeId)} with `id()`.
  T4 Declaration -> opaque enum {Function(FuncArgDetailsKey), Var(AstNode)};
     FuncArgDetailsKey -> opaque id; `FuncArgDetailsKey::try_from(&Declaration)` -> Ok for Function.
  T5 Identifier: field `loc` dropped.   T6 Namespace -> unit struct (SymbolTableBase.namespaces is never read).
  T7 Error -> the two variants the sliced code builds (GenericWithNode, UnresolvedIdentifier).
`resolve_identifier(ctx, &func_arg_info.symbol_table, name)` is NOT stubbed: the real function, the real
resolve_symbol and the real SymbolTable lookup are compiled.  The contract the coordinator asked for
("pushes an unresolved-identifier error iff the name is not a parameter") therefore is a consequence,
not an assumption; it holds because update_function_arg_info creates the table with
`SymbolTable::empty()` (no enclosing scope) and extends it with exactly one `Declaration::Var` per
(non-self) parameter name, and `lookup_declaration` only consults `declarations` and `enclosing`.
The harness builds FuncArgDetails by mirroring update_function_arg_info; the unit checks on every run
that the function still consists of those statements.
"""
import json
import os
import re
import shutil
import subprocess
import time
import slicer as S
import engine as E
import abra_cli

HERE = os.path.dirname(os.path.abspath(__file__))
UNIT = "U13-named-args"
R = 'abra_core/src/statics/resolve.rs'
ST = 'abra_core/src/statics.rs'
A = 'abra_core/src/ast.rs'
IDS = 'utils/src/id_set.rs'

PRELUDE = """#![allow(dead_code, unused_imports, unused_variables, unused_mut, private_interfaces, clippy::all)]
use std::cell::RefCell;
use std::hash::Hasher;
use std::rc::Rc;
use utils::hash::{HashMap, HashSet}; // the real utils crate (path dependency)
use utils::id_set::IdSet;
use utils::swrite; // the real macro

// ---- T2: opaque expression ----
#[derive(Debug, Clone, PartialOrd, Ord, PartialEq, Eq, Hash)]
pub(crate) struct Expr {
    pub(crate) id: NodeId,
}

// ---- T3: opaque AST node handle ----
#[derive(Debug, Clone)]
pub(crate) enum AstNode {
    Expr(Rc<Expr>),
    Identifier(Rc<Identifier>),
    Other(NodeId),
}
impl AstNode {
    pub(crate) fn id(&self) -> NodeId {
        match self {
            AstNode::Expr(e) => e.id,
            AstNode::Identifier(i) => i.id,
            AstNode::Other(n) => *n,
        }
    }
}

// ---- T4: opaque declaration / function key ----
#[derive(Debug, Clone, PartialEq, Eq, Hash)]
pub(crate) struct FuncArgDetailsKey(pub u32);
#[derive(Debug, Clone)]
pub(crate) enum Declaration {
    Function(FuncArgDetailsKey),
    Var(AstNode),
}
impl TryFrom<&Declaration> for FuncArgDetailsKey {
    type Error = ();
    fn try_from(value: &Declaration) -> Result<Self, Self::Error> {
        match value {
            Declaration::Function(k) => Ok(k.clone()),
            Declaration::Var(_) => Err(()),
        }
    }
}

// ---- T6 ----
#[derive(Debug)]
pub(crate) struct Namespace;

// ---- T7: statics::Error reduced to the variants the sliced code builds ----
#[derive(Debug)]
pub(crate) enum Error {
    GenericWithNode { msg: String, node: AstNode },
    UnresolvedIdentifier { node: AstNode },
}
"""

CARGO = """[package]
name = "u13"
version = "0.1.0"
edition = "2024"
[dependencies]
utils = { path = "%s" }
[lints.rust]
unexpected_cfgs = { level = "allow" }
[workspace]
"""

MAIN = "fn main() {\n    u13::u13::enumerate_main();\n}\n"

CTX_FIELDS = ['resolution_map', 'func_arg_details', 'function_call_arg_order', 'errors']
# statements of update_function_arg_info that harness.rs `details()` mirrors
MIRRORED = ('let symbol_table = SymbolTable::empty();',
            'symbol_table.extend_declaration(name.v.clone(), Declaration::Var(name.node()));',
            'arg_indices.insert(name.v.clone());', 'default_args.insert(i, default_arg);',
            'required_args.insert(name.v.clone());',
            'let nargs = required_args.len() + default_args.len();')

POST_TEXT = ("for every parameter list of arity <= 3 (any subset with defaults) and every call of <= 4 arguments that is well-formed "
             "(no unknown name, no duplicate, no missing required argument, no positional after named, not more positional arguments "
             "than parameters): calculate_named_arg_order returns a vector of length nargs whose slot i holds positional argument i, "
             "else the argument named param_i, else default_i")
TOTAL_TEXT = ("for every parameter list of arity <= 3 and EVERY call of <= 4 arguments (each positional, named with a parameter name or "
              "named with an unknown name, in any order): calculate_named_arg_order returns (no panic) and returns at most nargs slots")
MISUSE_TEXT = ("for every call shape of the domain that has no more positional arguments than parameters: after "
               "calculate_func_call_order(ctx, callee, args, call), ctx.errors is non-empty EXACTLY when the call is a misuse by the list of "
               "C18: a name that is not a parameter; one parameter supplied twice (named+named or positional+named, positional argument j "
               "standing for parameter j); a parameter without default supplied neither positionally nor by name; a positional argument "
               "after a named one.  No panic.  (More positional arguments than parameters is not in the property's list; those shapes are "
               "outside this obligation and reported as an observation in notes.)")
ORDER_TEXT = ("for the same domain: (a) when the call is well-formed and no diagnostic was produced, ctx.function_call_arg_order[call] is "
              "defined and equals the positional call with the omitted parameters filled in with their defaults; (b) whenever an order is "
              "recorded, with or without diagnostics, it has exactly one entry per parameter (its consumers, generate_constraints_expr_"
              "funcap_helper and the translator, read it as the positional argument list)")
BOUND = ("arity <= 3 with every subset of defaults, <= 4 call arguments, each positional or named with one of a, b, c, zz: "
         "%d call shapes, all executed on the compiled slice (exhaustive native execution, not symbolic)")


def build():
    sl = {}

    def take(key, text):
        sl[key] = text
        return text

    caller = take('calculate_func_call_order', S.item(R, r'pub\(crate\) fn calculate_func_call_order\('))
    callee = take('calculate_named_arg_order', S.item(R, r'fn calculate_named_arg_order\('))
    res_id = take('resolve_identifier', S.item(R, r'fn resolve_identifier\('))
    res_sym = take('resolve_symbol', S.item(R, r'fn resolve_symbol\('))
    symtab = take('SymbolTable', S.item(R, r'pub\(crate\) struct SymbolTable \{'))
    symbase = take('SymbolTableBase', S.item(R, r'struct SymbolTableBase \{'))
    base_m = [take('SymbolTableBase::' + m, S.method(R, r'impl SymbolTableBase \{', m)) for m in ('lookup_declaration', 'extend_declaration')]
    tab_m = [take('SymbolTable::' + m, S.method(R, r'impl SymbolTable \{', m)) for m in ('empty', 'lookup_declaration', 'extend_declaration')]
    # resolve_identifier must still be the lookup it is justified to be
    if 'lookup_declaration(symbol)' not in res_sym or 'Error::UnresolvedIdentifier' not in res_sym:
        raise S.SliceError("resolve_symbol no longer is `lookup_declaration(symbol)` / UnresolvedIdentifier")
    fad = take('FuncArgDetails', S.item(ST, r'pub\(crate\) struct FuncArgDetails \{'))
    fields = re.findall(r'^\s+(\w+):', fad, re.M)
    if fields != ['symbol_table', 'arg_indices', 'required_args', 'default_args', 'nargs']:
        raise S.SliceError("FuncArgDetails: fields are %s" % fields)
    ctx_struct = S.item(ST, r'pub\(crate\) struct StaticsContext \{')
    ctx_lines = []
    for f in CTX_FIELDS:
        m = re.findall(r'^[ \t]+pub\(crate\) %s: [^\n]*,\n' % f, ctx_struct, re.M)
        if len(m) != 1:
            raise S.SliceError("StaticsContext.%s found %d times" % (f, len(m)))
        ctx_lines.append(m[0])
    take('StaticsContext fields', "".join(ctx_lines))
    # every ctx.<field> the sliced functions touch must be one of the four
    for name, text in (('calculate_func_call_order', caller), ('resolve_symbol', res_sym), ('resolve_identifier', res_id)):
        used = set(re.findall(r'\bctx\.(\w+)', text))
        if not used <= set(CTX_FIELDS):
            raise S.SliceError("%s touches StaticsContext fields outside T1: %s" % (name, sorted(used - set(CTX_FIELDS))))
    ctx_stub = "// ---- T1: StaticsContext reduced to the fields the sliced code touches (real declarations) ----\npub(crate) struct StaticsContext {\n%s}\n" % "".join(ctx_lines)
    fca = take('FuncCallArg', S.item(A, r'pub struct FuncCallArg \{'))
    nodeid = take('NodeId', S.item(A, r'pub\(crate\) struct NodeId \{'))
    ident = take('Identifier', S.item(A, r'pub\(crate\) struct Identifier \{'))
    ident2 = S.drop_fields(ident, ['loc'])
    ident_hash = S.impl_block(A, r'impl std::hash::Hash for Identifier \{')
    ident_impl = S.impl_block(A, r'impl Identifier \{')
    expr_impl = S.impl_block(A, r'impl Expr \{')
    if len(ident_hash) != 1 or len(ident_impl) != 1 or len(expr_impl) != 1:
        raise S.SliceError("impl blocks of Identifier/Expr not found exactly once")
    for blk in (ident_impl[0], expr_impl[0]):
        if len(re.findall(r'\bfn \w+', blk)) != 1 or 'fn node(' not in blk:
            raise S.SliceError("impl Identifier / impl Expr contain more than `node`")
    get_id = take('IdSet::get_id', S.method(IDS, r'impl<T: Hash \+ Eq> IdSet<T> \{', 'get_id'))
    # the harness builds FuncArgDetails the way update_function_arg_info does
    upd = take('update_function_arg_info', S.item(R, r'fn update_function_arg_info\('))
    for stmt in MIRRORED:
        if upd.count(stmt) != 1:
            raise S.SliceError("update_function_arg_info no longer contains `%s` exactly once (harness constructor mirrors it)" % stmt)
    with open(os.path.join(HERE, 'harness.rs')) as f:
        h = f.read()
    lib = PRELUDE + "\n" + ctx_stub
    lib += "\n// ---- ast.rs ----\n" + "\n".join([nodeid, "// T5: Identifier minus loc\n" + ident2, ident_hash[0], ident_impl[0], expr_impl[0], fca]) + "\n"
    lib += "\n// ---- statics.rs FuncArgDetails (verbatim) ----\n" + fad + "\n"
    lib += "\n// ---- resolve.rs (verbatim) ----\n" + "\n\n".join(
        [symtab, symbase, "impl SymbolTableBase {\n" + "\n\n".join(base_m) + "\n}", "impl SymbolTable {\n" + "\n\n".join(tab_m) + "\n}",
         res_id, res_sym, caller, callee]) + "\n"
    lib += "\n" + h
    return lib, sl


def _build_exe(sc, timeout=400):
    lib, sl = build()
    sc.file("Cargo.toml", CARGO % os.path.join(S.REPO, "utils"))
    sc.file("src/lib.rs", lib)
    sc.file("src/main.rs", MAIN)
    env = E.kani_env()
    env["CARGO_TARGET_DIR"] = os.path.join(sc.path, "target-native")
    p = subprocess.run(["timeout", str(timeout), "cargo", "build", "--offline", "--quiet"], cwd=sc.path,
                       capture_output=True, text=True, env=env)
    if p.returncode != 0:
        raise E.Undecided("u13: native build of the sliced functions failed (drift?):\n" + p.stderr[-3000:])
    return os.path.join(env["CARGO_TARGET_DIR"], "debug", "u13"), sl


def _enumerate(exe, canary=False, timeout=300):
    q = subprocess.run(["timeout", str(timeout), exe] + (["canary"] if canary else []), capture_output=True, text=True)
    if q.returncode != 0:
        raise E.Undecided("u13: enumerator failed rc=%d\n%s" % (q.returncode, (q.stdout + q.stderr)[-2000:]))
    return json.loads(q.stdout.strip().split("\n")[-1])


def _verdicts(real, canary):
    """-> list of (id, props, function, status, detail, text) from the enumerator's counters."""
    c, cc = real["caller"], canary["caller"]
    vac = None
    if canary["nmismatch"] == 0 or cc["n_accepted_misuse"] == 0 or cc["n_rejected_valid"] == 0 or cc["n_order_wrong"] == 0:
        vac = "vacuity canary: a wrong specification (shifted defaults / negated misuse predicate) is not distinguished from the real code"
    else:
        covers = dict(wellformed=real["wellformed"], illformed=real["illformed"], all_named_reordered=real["cover_all_named_reordered"],
                      defaults_fill_two=real["cover_defaults_fill_two"], more_args_than_params=real["cover_more_args_than_params"],
                      valid_shapes=c["valid_shapes"], unknown=c["cover_unknown"], duplicate_named_named=c["cover_duplicate_named_named"],
                      duplicate_positional_named=c["cover_duplicate_positional_named"], missing=c["cover_missing"],
                      positional_after_named=c["cover_positional_after_named"])
        empty = [k for k, v in covers.items() if not v]
        if empty:
            vac = "vacuity guard: cover classes without a single input: %s" % empty
    out = []

    def add(oid, props, fn, nbad, detail, text):
        if vac:
            out.append((oid, props, fn, E.UNDECIDED, vac, text))
        elif nbad:
            out.append((oid, props, fn, E.FAILED, detail, text))
        else:
            out.append((oid, props, fn, E.DISCHARGED, "", text))

    add("C18.resolve.named_arg_order.post", ["C18"], "calculate_named_arg_order", real["nmismatch"],
        "%d of %d inputs: %s" % (real["nmismatch"], real["wellformed"], " | ".join(real["mismatches"][:5])), POST_TEXT)
    add("C04.resolve.named_arg_order.total", ["C04", "C18"], "calculate_named_arg_order", real["npanic"] + real["nlong"],
        "%d of %d inputs: %s" % (real["npanic"] + real["nlong"], real["shapes"], " | ".join(real["panics"][:5])), TOTAL_TEXT)
    nm = c["n_accepted_misuse"] + c["n_rejected_valid"] + c["n_panic"]
    add("C18.resolve.func_call_order.misuse_rejected", ["C18"], "calculate_func_call_order", nm,
        "%d of %d call shapes (%d misuses accepted without diagnostic, %d valid calls rejected, %d panics): %s" % (
            nm, c["in_domain"], c["n_accepted_misuse"], c["n_rejected_valid"], c["n_panic"], " | ".join(c["misuse_bad"][:5])), MISUSE_TEXT)
    no = c["n_order_undefined"] + c["n_order_wrong"] + c["n_order_incomplete"]
    add("C18.resolve.func_call_order.order_recorded", ["C18"], "calculate_func_call_order", no,
        "%d of %d call shapes (%d well-formed calls without a recorded order, %d wrong orders, %d recorded orders that do not have one "
        "entry per parameter): %s" % (no, c["in_domain"], c["n_order_undefined"], c["n_order_wrong"], c["n_order_incomplete"],
                                      " | ".join(c["order_bad"][:5])), ORDER_TEXT)
    return out


def _all_shapes(max_np=3, max_nc=3):
    import itertools
    for np_ in range(0, max_np + 1):
        for hd in itertools.product([False, True], repeat=np_):
            hd3 = list(hd) + [False] * (3 - np_)
            for nc in range(0, max_nc + 1):
                for ch in itertools.product(range(0, np_ + 2), repeat=nc):   # 0 = positional, k = name of parameter k, np_+1 = unknown name
                    ch4 = [min(c, 4) if c <= np_ else 4 for c in ch] + [0] * (4 - nc)
                    yield dict(np=np_, has_default=hd3, nc=nc, choice=ch4)


def cli_standin(reason):
    """Bounded stand-in used ONLY when the resolver functions can no longer be sliced (they left the reach of the
    function-level check): every call shape of arity <= 3 with <= 3 arguments, on the real CLI.  Well-formed calls are
    batched into one program per callee kind (free function, struct constructor) and must print the values of the positional
    call with defaults filled in; each listed misuse (arity <= 2, <= 2 arguments) must be rejected, no host panic anywhere."""
    t0 = time.time()
    good, bad = [], []
    for sh in _all_shapes():
        kinds, want = _classify(sh)
        if not kinds:
            good.append((sh, want))
        elif "excess positional" not in kinds and sh['np'] <= 2 and sh['nc'] <= 2:
            bad.append((sh, kinds))
    mism = []
    for kind in ("fn", "struct", "method", "variant"):
        sigs, calls, wants = {}, [], []
        if kind == "method":
            sigs[None] = ("Recv", "type Recv = {\n    tag: int\n}\nlet recv = Recv(0)\n")
        for sh, want in good:
            np_, hd = sh['np'], sh['has_default']
            if kind in ("struct", "variant") and np_ == 0:
                continue
            key = (np_, tuple(hd[:np_]))
            if key not in sigs:
                name = "%s%d_%s" % (dict(fn="f", struct="S", method="m", variant="V")[kind], np_, "".join("d" if x else "r" for x in hd[:np_]))
                if kind == "method":
                    params = "".join(", %s: int%s" % (NAMES[i], " = %d" % (100 + i) if hd[i] else "") for i in range(np_))
                    body = " .. \",\" .. ".join(NAMES[i] for i in range(np_)) if np_ else "\"\""
                    sigs[key] = (name, "extend Recv {\n  fn %s(self%s) -> string {\n    \"\" .. %s\n  }\n}\n" % (name, params, body))
                elif kind == "variant":
                    fields = ", ".join("%s: int%s" % (NAMES[i], " = %d" % (100 + i) if hd[i] else "") for i in range(np_))
                    sigs[key] = (name, "type E%s =\n  | %s(%s)\n" % (name, name, fields))
                elif kind == "fn":
                    params = ", ".join("%s: int%s" % (NAMES[i], " = %d" % (100 + i) if hd[i] else "") for i in range(np_))
                    body = " .. \",\" .. ".join(NAMES[i] for i in range(np_)) if np_ else "\"\""
                    sigs[key] = (name, "fn %s(%s) -> string {\n  \"\" .. %s\n}\n" % (name, params, body))
                else:
                    fields = "".join("    %s: int%s\n" % (NAMES[i], " = %d" % (100 + i) if hd[i] else "") for i in range(np_))
                    sigs[key] = (name, "type %s = {\n%s}\n" % (name, fields))
            name = sigs[key][0]
            args = ", ".join(("%s = %d" % (NAMES[sh['choice'][j] - 1], 10 + j)) if sh['choice'][j] else str(10 + j) for j in range(sh['nc']))
            if kind == "fn":
                calls.append("println(%s(%s))" % (name, args))
            elif kind == "method":
                calls.append("println(recv.%s(%s))" % (name, args))
            elif kind == "variant":
                k = len(calls)
                binds = ", ".join("%s = q%d%s" % (NAMES[i], k, NAMES[i]) for i in range(np_))
                calls.append("let v%d = E%s.%s(%s)\nmatch v%d {\n    .%s(%s) -> println(\"\" .. %s)\n}" % (
                    k, name, name, args, k, name, binds, " .. \",\" .. ".join("q%d%s" % (k, NAMES[i]) for i in range(np_))))
            else:
                calls.append("let v%d = %s(%s)\nprintln(\"\" .. %s)" % (len(calls), name, args, " .. \",\" .. ".join("v%d.%s" % (len(calls), NAMES[i]) for i in range(np_))))
            wants.append(",".join(str(x) for x in want))
        prog = "".join(v[1] for v in sigs.values()) + "\n".join(calls) + "\n"
        out, err, rc = abra_cli.run_program(prog, timeout=300)
        txt = re.sub(r'\x1b\[[0-9;]*m', '', out + err)
        got = out.split("\n")
        if rc != 0 or "panicked at" in txt:
            # find the individual calls the compiler rejects (or that crash)
            decl = "".join(v[1] for v in sigs.values())
            found = 0
            for i, c in enumerate(calls):
                o1, e1, rc1 = abra_cli.run_program(decl + c + "\n")
                t1 = re.sub(r'\x1b\[[0-9;]*m', '', o1 + e1)
                if rc1 != 0 or "panicked at" in t1:
                    mism.append("%s callee: well-formed call `%s` is rejected or crashes: %s" % (kind, c.split("\n")[0], t1.strip().split("\n")[0][:160]))
                    found += 1
                elif o1.split("\n")[0] != wants[i]:
                    mism.append("%s callee: `%s` gives %s, positional call with defaults gives %s" % (kind, c.split("\n")[0], o1.split("\n")[0], wants[i]))
                    found += 1
                if found >= 3:
                    break
            if not found:
                mism.append("%s callee: the batch of %d well-formed calls is rejected or crashes: %s" % (kind, len(calls), txt.strip().split("\n")[0][:200]))
            continue
        for i, w in enumerate(wants):
            g = got[i] if i < len(got) else "<missing>"
            if g != w:
                mism.append("%s callee: `%s` gives %s, positional call with defaults gives %s" % (kind, calls[i].split("\n")[0], g, w))
                if len(mism) > 8:
                    break
    nbad = 0
    for sh, kinds in bad:
        out, err, rc = abra_cli.run_program(_program(sh))
        txt = re.sub(r'\x1b\[[0-9;]*m', '', out + err)
        nbad += 1
        if "panicked at" in txt:
            mism.append("misuse %s: host panic on `%s`" % (sorted(kinds), _program(sh).strip().split("\n")[-1]))
        elif rc == 0 and out.rstrip().endswith("end"):
            mism.append("misuse %s accepted without diagnostic: `%s`" % (sorted(kinds), _program(sh).strip().split("\n")[-1]))
    ob = E.Obligation("C18.cli.named_args.sampled", ["C18"], UNIT, "calculate_func_call_order / calculate_named_arg_order via the real CLI",
                      "bounded: run on the real CLI", E.FAILED if mism else E.DISCHARGED, "; ".join(mism[:6]), time.time() - t0, R, "",
                      "%d well-formed call shapes (arity <= 3, <= 3 arguments) for each of four callee kinds: free function, struct constructor, member function with method syntax, enum variant constructor and %d misuse shapes "
                      "(arity <= 2, <= 2 arguments); black-box stand-in, not a proof" % (len(good), nbad),
                      "stand-in because: %s. A call with named/omitted arguments prints exactly what the positional call with the defaults filled in "
                      "prints; unknown, duplicate, missing and positional-after-named arguments are rejected; never a host panic" % reason[:300])
    return [ob], dict(assumptions=["U13 stand-in: the resolver functions could not be sliced (%s); only sampled CLI behaviour is decided" % reason[:200]],
                      trusted_base=["abra CLI built from the tree under check", "units/u13_named_args _classify (the property's misuse list in Python)"],
                      checker_cmds=["abra --standard-modules <repo>/modules main.abra (generated programs)"], notes=dict(standin=True, reason=reason[:500]))


def run(tier="quick"):
    try:
        obs, info = _run_sliced(tier)
    except (E.Undecided, S.SliceError) as ex:
        # the functions left the reach of the function-level check (data structure or anchor changed): bounded stand-in only
        return cli_standin(str(ex).split("\n")[0])
    if os.environ.get("ABRA_VERIF_PROP") in (None, "", "C18"):
        # the same stand-in ALSO runs next to the function-level obligations: it is the only thing that exercises what lies around
        # the two sliced functions (update_function_arg_info for each callee kind, the self parameter of methods, the consumers
        # of function_call_arg_order in the type checker and translator)
        o2, i2 = cli_standin("covers the code around the sliced functions (argument details per callee kind, consumers of the recorded order)")
        obs += o2
        info['assumptions'] = list(info.get('assumptions', [])) + ["U13: `C18.cli.named_args.sampled` is a sampled black-box run on the real CLI, bounded, not a proof"]
        info['trusted_base'] = list(info.get('trusted_base', [])) + [x for x in i2['trusted_base'] if x not in info.get('trusted_base', [])]
    return obs, info


def _run_sliced(tier="quick"):
    sc = E.Scratch("u13")
    try:
        t0 = time.time()
        exe, sl = _build_exe(sc)
        t1 = time.time()
        real = _enumerate(exe)
        t2 = time.time()
        canary = _enumerate(exe, canary=True)
        sha = {'calculate_named_arg_order': S.sha(sl['calculate_named_arg_order'] + sl['IdSet::get_id']),
               'calculate_func_call_order': S.sha(sl['calculate_func_call_order'] + sl['calculate_named_arg_order'] + sl['resolve_symbol'])}
        obs = []
        for oid, props, fn, st, detail, text in _verdicts(real, canary):
            obs.append(E.Obligation(oid, props, UNIT, fn,
                                    "exhaustive enumeration (native rustc build of the sliced functions + real utils crate)",
                                    st, detail, t2 - t1, R, sha[fn], BOUND % real["shapes"], text))
        c = real["caller"]
        notes = dict(build_s=round(t1 - t0, 1), enumeration_s=round(t2 - t1, 2),
                     enumeration={k: v for k, v in real.items() if k not in ('panics', 'mismatches', 'caller')},
                     caller={k: v for k, v in c.items() if k not in ('misuse_bad', 'order_bad')},
                     canary=dict(callee_mismatches=canary["nmismatch"], accepted_misuse=canary["caller"]["n_accepted_misuse"],
                                 rejected_valid=canary["caller"]["n_rejected_valid"], wrong_orders=canary["caller"]["n_order_wrong"]),
                     observation_excess_positional=(
                         "NOT an obligation (the property's misuse list does not mention it): %d call shapes whose only irregularity is "
                         "more positional arguments than parameters; %d of them get no diagnostic today and the surplus arguments are "
                         "dropped from the recorded order (e.g. %s). Real CLI: `fn g(a: int) { println(a) }  g(1, 2)` prints 1."
                         % (c["excess_positional_only"], c["excess_positional_only_without_diagnostic"], "; ".join(c["excess_examples"][:2]))))
        if tier == "thorough":
            notes["mutation_self_test"] = selftest()
        info = dict(
            assumptions=[
                "U13: FuncArgDetails is built as update_function_arg_info builds it for distinct parameter names (its six statements are checked syntactically on every run)",
                "U13: the callee node resolves to a declaration that has FuncArgDetails (T4); the branch 'named arguments but no function definition known' is not exercised",
                "U13: HashMap/HashSet iteration order is the one FxHash produces for these keys (the real maps are used)",
                "U13: that the type checker and translator consume function_call_arg_order as the positional argument list is read from the source, not proved",
                "U13: bounded domain executed exhaustively instead of symbolically (CBMC > 6 GB on one concrete (arity, length) pair)",
            ],
            trusted_base=["rustc (native build of the slice)", "tools/slicer.py",
                          "U13/T1 StaticsContext = {resolution_map, func_arg_details, function_call_arg_order, errors} (real field declarations)",
                          "U13/T2 Expr = opaque id behind the real Rc", "U13/T3 AstNode = opaque handle with id()",
                          "U13/T4 Declaration, FuncArgDetailsKey opaque; try_from = Ok for functions",
                          "U13/T5 Identifier minus loc", "U13/T6 Namespace = unit struct", "U13/T7 Error = {GenericWithNode, UnresolvedIdentifier}",
                          "resolve_identifier / resolve_symbol / SymbolTable lookup: REAL text (not stubbed); swrite!: REAL macro from utils",
                          "specification units/u13_named_args/harness.rs: classify(), expected()"],
            checker_cmds=["cargo build --offline (scratch crate = sliced functions + path dependency on utils) && target/debug/u13 [canary]"],
            notes=notes,
        )
        return obs, info
    finally:
        sc.cleanup()


# ------------------------------------------------------------------ mutation self-test

def _m_regression(t):
    return t.replace("                    seen_named_args.insert(name.clone());\n", "", 1), t.count("                    seen_named_args.insert(name.clone());\n")


def _m_no_pos_after_named(t):
    rx = re.compile(r'(if named_encountered \{)\n\s+ctx\.errors\.push\(Error::GenericWithNode \{\n\s+msg: "Can\'t use unnamed argument after named arguments, only before"\n'
                    r'\s+\.to_string\(\),\n\s+node: arg\.val\.node\(\),\n\s+\}\);')
    return rx.subn(r'\1', t)


def _m_no_missing_remove(t):
    return t.replace("                    missing_arg_names.remove(name);\n", "", 1), t.count("                    missing_arg_names.remove(name);\n")


def _m_no_return(t):
    old = "                node: funcap_node,\n            });\n            return;\n        }\n        ctx.function_call_arg_order"
    new = "                node: funcap_node.clone(),\n            });\n        }\n        ctx.function_call_arg_order"
    return t.replace(old, new, 1), t.count(old)


MUTANTS = [
    ("M1 positional branch forgets `seen_named_args.insert(name.clone())` (the handed-over regression: f(x, a = y) accepted)",
     _m_regression, "C18.resolve.func_call_order.misuse_rejected"),
    ("M2 positional-after-named diagnostic dropped", _m_no_pos_after_named, "C18.resolve.func_call_order.misuse_rejected"),
    ("M3 positional branch forgets `missing_arg_names.remove(name)` (valid calls rejected)", _m_no_missing_remove,
     "C18.resolve.func_call_order.misuse_rejected"),
    ("M4 `return` removed after the missing-arguments diagnostic (an order with holes is recorded)", _m_no_return,
     "C18.resolve.func_call_order.order_recorded"),
]


def selftest():
    """Apply each mutant to a scratch copy of the sliced sources (never to /repo) and require the named obligation to FAIL."""
    repo_real = S.REPO
    copy = E.Scratch("u13m-src")
    crate = E.Scratch("u13m")
    results = []
    try:
        for rel in (R, ST, A):
            os.makedirs(os.path.dirname(os.path.join(copy.path, rel)), exist_ok=True)
            shutil.copy(os.path.join(repo_real, rel), os.path.join(copy.path, rel))
        shutil.copytree(os.path.join(repo_real, "utils"), os.path.join(copy.path, "utils"),
                        ignore=shutil.ignore_patterns("target"))
        with open(os.path.join(repo_real, R)) as f:
            original = f.read()
        S.REPO = copy.path
        for name, fn, want in [("M0 unmutated copy (control: nothing may fail)", lambda t: (t, 1), None)] + MUTANTS:
            mutated, k = fn(original)
            if k != 1 or (want and mutated == original):
                results.append(dict(mutant=name, result="NOT APPLIED (anchor found %d times)" % k, ok=False))
                continue
            with open(os.path.join(copy.path, R), "w") as f:
                f.write(mutated)
            S._cache.pop(os.path.join(copy.path, R), None)
            try:
                exe, _ = _build_exe(crate)
                real, canary = _enumerate(exe), _enumerate(exe, canary=True)
                v = _verdicts(real, canary)
                failed = [o[0] for o in v if o[3] == E.FAILED]
                first = next((o[4] for o in v if o[0] == want), "") if want else ""
                ok = (want in failed) if want else (not failed and all(o[3] == E.DISCHARGED for o in v))
                results.append(dict(mutant=name, expected_to_fail=want, failed=failed, ok=ok, first=first[:400]))
            except E.Undecided as ex:
                results.append(dict(mutant=name, result="UNDECIDED: " + str(ex)[:300], ok=False))
        return results
    finally:
        S.REPO = repo_real
        copy.cleanup()
        crate.cleanup()


# ------------------------------------------------------------------ replay on the real CLI

NAMES = ["a", "b", "c", "zz"]


def _program(shape):
    np_, hd, nc, ch = shape['np'], shape['has_default'], shape['nc'], shape['choice']
    params = ", ".join("%s: int%s" % (NAMES[i], " = %d" % (100 + i) if hd[i] else "") for i in range(np_))
    body = "".join("  println(%s)\n" % NAMES[i] for i in range(np_))
    args = ", ".join(("%s = %d" % (NAMES[ch[j] - 1], 10 + j)) if ch[j] else str(10 + j) for j in range(nc))
    return "fn f(%s) {\n%s  println(\"end\")\n}\nf(%s)\n" % (params, body, args)


def _classify(shape):
    """The property's misuse list, in Python (same sentence as harness.rs classify, written separately)."""
    np_, hd, nc, ch = shape['np'], shape['has_default'], shape['nc'], shape['choice']
    sup = [[] for _ in range(np_)]
    kinds = set()
    named = False
    for j in range(nc):
        if ch[j] == 0:
            if named:
                kinds.add("positional after named")
            if j < np_:
                sup[j].append(10 + j)
            else:
                kinds.add("excess positional")
        else:
            named = True
            if ch[j] - 1 < np_:
                sup[ch[j] - 1].append(10 + j)
            else:
                kinds.add("unknown name")
    for i in range(np_):
        if len(sup[i]) > 1:
            kinds.add("duplicate")
        if not sup[i] and not hd[i]:
            kinds.add("missing")
    expected = None
    if not kinds:
        expected = [sup[i][0] if sup[i] else 100 + i for i in range(np_)]
    return kinds, expected


def _expected(shape):
    return _classify(shape)[1]


def _shapes_from_detail(detail):
    out = []
    for m in re.finditer(r'np=(\d) d=(\d)(\d)(\d) nc=(\d) c=(\d)(\d)(\d)(\d)', detail or ""):
        g = [int(x) for x in m.groups()]
        out.append(dict(np=g[0], has_default=[bool(g[1]), bool(g[2]), bool(g[3])], nc=g[4], choice=g[5:9]))
    return out


def replay(ob):
    """The enumerator's failing call shapes (in ob.detail) become Abra programs
    `fn f(a: int, b: int = 101, ..) { println(a) .. println("end") }  f(10, c = 11, ..)` run on the real CLI.
      named_arg_order.total        : confirmed iff the compiler panics;
      named_arg_order.post,
      func_call_order.order_recorded: confirmed iff a well-formed call is accepted and prints other values than the
                                     positional call with defaults (or the compiler panics);
      func_call_order.misuse_rejected: confirmed iff the CLI accepts (compiles and runs) a call that is a misuse by the
                                     property's list, or rejects a well-formed call with a diagnostic (or panics)."""
    if ob.id == "C18.cli.named_args.sampled":
        return (True if ob.status == E.FAILED else None), dict(note="the obligation itself is a run on the real CLI; failing calls are in verifier_output")
    shapes = _shapes_from_detail(ob.detail)
    info = dict(shapes=len(shapes))
    if not shapes:
        return None, info
    ob.cex = shapes[0]
    tried = []
    for shape in shapes:
        prog = _program(shape)
        out, err, rc = abra_cli.run_program(prog)
        txt = re.sub(r'\x1b\[[0-9;]*m', '', out + err)
        panicked = "panicked at" in txt
        kinds, want = _classify(shape)
        got = [int(x) for x in out.split() if re.fullmatch(r'-?\d+', x)]
        accepted = (not panicked) and "error" not in txt and out.rstrip().endswith("end")
        rec = dict(program=prog, output=txt[:500], panicked=panicked, accepted=accepted, misuse=sorted(kinds), expected_values=want)
        tried.append(rec)
        confirmed = False
        if ob.id.endswith('named_arg_order.total'):
            confirmed = panicked
        elif ob.id.endswith('misuse_rejected'):
            listed = kinds - {"excess positional"}
            confirmed = panicked or (bool(listed) and accepted) or (not kinds and not accepted)
            rec['verdict'] = ("misuse accepted by the CLI" if (listed and accepted) else
                              "well-formed call rejected by the CLI" if (not kinds and not accepted) else "compiler panic" if panicked else "agrees with the property")
        else:
            confirmed = want is not None and (panicked or (accepted and got != want))
        if confirmed:
            info.update(tried=tried, failing_input=dict(program=prog, output=txt[:500], misuse=sorted(kinds), expected_values=want))
            return True, info
    info['tried'] = tried
    return False, info
