"""U13: `calculate_named_arg_order` (abra_core/src/statics/resolve.rs), sliced verbatim, compiled
against the REAL utils crate (IdSet, HashMap) with its argument types reduced by type substitution
only, and executed on EVERY input of a bounded domain (arity <= 3, <= 4 call arguments).

Back end: exhaustive native enumeration.  Kani was tried first (as DESIGN.md plans): with String
names and Rc payloads CBMC reached 17 GB; with u8 names, an inline Rc and one concrete
(arity, length) pair per call it still ran out of 6 GB (the function's
`iter().flatten().cloned().collect()` and Vec allocation dominate).  The bounded domain has 11,715
inputs, so it is executed completely instead; panics are caught with catch_unwind.

Sliced verbatim on every run:
  resolve.rs  : fn calculate_named_arg_order
  statics.rs  : struct FuncArgDetails minus the fields the function does not read
  ast.rs      : struct FuncCallArg; struct Identifier minus loc/id
  utils       : the real crate, as a path dependency (IdSet<String>, hash::HashMap, get_id)
Type substitutions / stubs:
  T1 FuncArgDetails: fields `symbol_table`, `required_args` dropped (not read by the function).
  T4 Expr -> opaque `struct Expr { id: u32 }` behind the real std::rc::Rc.
  T5 Identifier: fields `loc`, `id` dropped (only `.v` is read); Hash derived.
"""
import json
import os
import re
import subprocess
import time
import slicer as S
import engine as E
import abra_cli

HERE = os.path.dirname(os.path.abspath(__file__))
UNIT = "U13-named-args"
R = 'abra_core/src/statics/resolve.rs'
ST = 'abra_core/src/statics.rs'
A = 'abra_core/src/ast.rs'
IDS = 'utils/src/id_set.rs'

PRELUDE = """#![allow(dead_code, unused_imports, unused_variables, unused_mut, private_interfaces, clippy::all)]
use std::rc::Rc;
use utils::hash::HashMap; // the real utils crate (path dependency)
use utils::id_set::IdSet;

// ---- T4: opaque expression ----
#[derive(Debug, Clone, PartialOrd, Ord, PartialEq, Eq, Hash)]
pub(crate) struct Expr {
    pub(crate) id: u32,
}
"""

CARGO = """[package]
name = "u13"
version = "0.1.0"
edition = "2024"
[dependencies]
utils = { path = "%s" }
[lints.rust]
unexpected_cfgs = { level = "allow" }
[workspace]
"""

MAIN = "fn main() {\n    u13::u13::enumerate_main();\n}\n"

OBL = [
    ("C18.resolve.named_arg_order.post", ["C18"], "nmismatch", "mismatches",
     "for every parameter list of arity <= 3 (any subset with defaults) and every call of <= 4 arguments that is well-formed "
     "(no unknown name, no duplicate, no missing required argument, no positional after named, not more positional arguments "
     "than parameters): calculate_named_arg_order returns a vector of length nargs whose slot i holds positional argument i, "
     "else the argument named param_i, else default_i"),
    ("C04.resolve.named_arg_order.total", ["C04", "C18"], "npanic", "panics",
     "for every parameter list of arity <= 3 and EVERY call of <= 4 arguments (each positional, named with a parameter name or "
     "named with an unknown name, in any order): calculate_named_arg_order returns (no panic) and returns at most nargs slots"),
]
BOUND = ("arity <= 3 with every subset of defaults, <= 4 call arguments, each positional or named with one of a, b, c, zz: "
         "%d inputs, all executed on the compiled slice (exhaustive native execution, not symbolic)")


def build():
    sl = {}
    fn = S.item(R, r'fn calculate_named_arg_order\(')
    sl['calculate_named_arg_order'] = fn
    fad = S.item(ST, r'pub\(crate\) struct FuncArgDetails \{')
    sl['FuncArgDetails'] = fad
    fad2 = S.drop_fields(fad, ['symbol_table', 'required_args'])
    left = re.findall(r'^\s+(\w+):', fad2, re.M)
    if left != ['arg_indices', 'default_args', 'nargs']:
        raise S.SliceError("FuncArgDetails: fields after T1 are %s" % left)
    for f in ('symbol_table', 'required_args'):
        if re.search(r'\b%s\b' % f, fn):
            raise S.SliceError("calculate_named_arg_order reads dropped field %s" % f)
    fca = S.item(A, r'pub struct FuncCallArg \{')
    sl['FuncCallArg'] = fca
    ident = S.item(A, r'pub\(crate\) struct Identifier \{')
    sl['Identifier'] = ident
    ident2 = S.drop_fields(ident, ['loc', 'id'])
    ident2 = ident2.replace('#[derive(Debug, Clone, PartialOrd, Ord, PartialEq, Eq)]',
                            '#[derive(Debug, Clone, PartialOrd, Ord, PartialEq, Eq, Hash)] // T5: Hash derived (real impl hashes the dropped id)')
    if 'Hash)]' not in ident2:
        raise S.SliceError("Identifier derive line changed")
    get_id = S.method(IDS, r'impl<T: Hash \+ Eq> IdSet<T> \{', 'get_id')
    sl['IdSet::get_id'] = get_id
    # the harness builds FuncArgDetails the way update_function_arg_info does: check its three statements
    upd = S.item(R, r'fn update_function_arg_info\(')
    for stmt in ('arg_indices.insert(name.v.clone());', 'default_args.insert(i, default_arg);',
                 'let nargs = required_args.len() + default_args.len();'):
        if stmt not in upd:
            raise S.SliceError("update_function_arg_info no longer contains `%s` (harness constructor mirrors it)" % stmt)
    with open(os.path.join(HERE, 'harness.rs')) as f:
        h = f.read()
    lib = PRELUDE
    lib += "\n// ---- T5: ast.rs Identifier minus loc/id ----\n" + ident2 + "\n"
    lib += "\n// ---- ast.rs FuncCallArg (verbatim) ----\n" + fca + "\n"
    lib += "\n// ---- T1: statics.rs FuncArgDetails minus symbol_table/required_args ----\n" + fad2 + "\n"
    lib += "\n// ---- resolve.rs calculate_named_arg_order (verbatim) ----\n" + fn + "\n"
    lib += "\n" + h
    return lib, sl


def _build_exe(sc, timeout=400):
    lib, sl = build()
    sc.file("Cargo.toml", CARGO % os.path.join(S.REPO, "utils"))
    sc.file("src/lib.rs", lib)
    sc.file("src/main.rs", MAIN)
    env = E.kani_env()
    env["CARGO_TARGET_DIR"] = os.path.join(sc.path, "target-native")
    p = subprocess.run(["timeout", str(timeout), "cargo", "build", "--offline", "--quiet"], cwd=sc.path,
                       capture_output=True, text=True, env=env)
    if p.returncode != 0:
        raise E.Undecided("u13: native build of the sliced function failed (drift?):\n" + p.stderr[-3000:])
    return os.path.join(env["CARGO_TARGET_DIR"], "debug", "u13"), sl


def _enumerate(exe, canary=False, timeout=300):
    q = subprocess.run(["timeout", str(timeout), exe] + (["canary"] if canary else []), capture_output=True, text=True)
    if q.returncode != 0:
        raise E.Undecided("u13: enumerator failed rc=%d\n%s" % (q.returncode, (q.stdout + q.stderr)[-2000:]))
    return json.loads(q.stdout.strip().split("\n")[-1])


def run(tier="quick"):
    sc = E.Scratch("u13")
    try:
        t0 = time.time()
        exe, sl = _build_exe(sc)
        t1 = time.time()
        real = _enumerate(exe)
        t2 = time.time()
        canary = _enumerate(exe, canary=True)
        vac = None
        if canary["nmismatch"] == 0:
            vac = "vacuity canary: a specification with wrong defaults is not distinguished from the real function"
        elif not (real["wellformed"] and real["illformed"] and real["cover_all_named_reordered"] and
                  real["cover_defaults_fill_two"] and real["cover_more_args_than_params"]):
            vac = "vacuity guard: a cover class is empty: %s" % {k: v for k, v in real.items() if k.startswith('cover') or k.endswith('formed')}
        sha = S.sha(sl['calculate_named_arg_order'] + sl['IdSet::get_id'])
        obs = []
        for oid, props, nkey, lkey, text in OBL:
            n = real[nkey] + (real["nlong"] if nkey == "npanic" else 0)
            if vac:
                st, detail = E.UNDECIDED, vac
            elif n:
                st = E.FAILED
                detail = "%d of %d inputs: %s" % (n, real["shapes"] if nkey == "npanic" else real["wellformed"], " | ".join(real[lkey][:5]))
            else:
                st, detail = E.DISCHARGED, ""
            obs.append(E.Obligation(oid, props, UNIT, "calculate_named_arg_order",
                                    "exhaustive enumeration (native rustc build of the sliced function + real utils crate)",
                                    st, detail, t2 - t1, R, sha, BOUND % real["shapes"], text))
        info = dict(
            assumptions=[
                "U13: FuncArgDetails is built as update_function_arg_info builds it for distinct parameter names (its three statements are checked syntactically on every run)",
                "U13: HashMap iteration order is the one FxHashMap produces for these keys (the real map is used)",
                "U13: that calculate_func_call_order rejects ill-formed shapes and that the translator emits arguments in the returned order is not covered",
                "U13: bounded domain executed exhaustively instead of symbolically (CBMC > 6 GB on one concrete (arity, length) pair)",
            ],
            trusted_base=["rustc (native build of the slice)", "tools/slicer.py",
                          "U13/T1 FuncArgDetails minus symbol_table, required_args",
                          "U13/T4 Expr = opaque id behind the real Rc",
                          "U13/T5 Identifier minus loc, id (Hash derived)",
                          "specification units/u13_named_args/harness.rs: expected()"],
            checker_cmds=["cargo build --offline (scratch crate = sliced function + path dependency on utils) && target/debug/u13 [canary]"],
            notes=dict(build_s=round(t1 - t0, 1), enumeration_s=round(t2 - t1, 2),
                       enumeration={k: v for k, v in real.items() if k not in ('panics', 'mismatches')},
                       canary_mismatches=canary["nmismatch"]),
        )
        return obs, info
    finally:
        sc.cleanup()


# ------------------------------------------------------------------ replay on the real CLI

NAMES = ["a", "b", "c", "zz"]


def _program(shape):
    np_, hd, nc, ch = shape['np'], shape['has_default'], shape['nc'], shape['choice']
    params = ", ".join("%s: int%s" % (NAMES[i], " = %d" % (100 + i) if hd[i] else "") for i in range(np_))
    body = "".join("  println(%s)\n" % NAMES[i] for i in range(np_))
    args = ", ".join(("%s = %d" % (NAMES[ch[j] - 1], 10 + j)) if ch[j] else str(10 + j) for j in range(nc))
    return "fn f(%s) {\n%s  println(\"end\")\n}\nf(%s)\n" % (params, body, args)


def _expected(shape):
    np_, hd, nc, ch = shape['np'], shape['has_default'], shape['nc'], shape['choice']
    sup = [[] for _ in range(np_)]
    named = False
    for j in range(nc):
        if ch[j] == 0:
            if named:
                return None
            idx = j
        else:
            named = True
            idx = ch[j] - 1
        if idx >= np_:
            return None
        sup[idx].append(10 + j)
    out = []
    for i in range(np_):
        if len(sup[i]) > 1:
            return None
        if not sup[i]:
            if not hd[i]:
                return None
            out.append(100 + i)
        else:
            out.append(sup[i][0])
    return out


def _shapes_from_detail(detail):
    out = []
    for m in re.finditer(r'np=(\d) d=(\d)(\d)(\d) nc=(\d) c=(\d)(\d)(\d)(\d)', detail or ""):
        g = [int(x) for x in m.groups()]
        out.append(dict(np=g[0], has_default=[bool(g[1]), bool(g[2]), bool(g[3])], nc=g[4], choice=g[5:9]))
    return out


def replay(ob):
    """The enumerator's failing inputs (in ob.detail) become Abra programs
    `fn f(a: int, b: int = 101, ..) { println(a) .. }  f(10, c = 11, ..)` run on the real CLI.
    total: confirmed iff the compiler panics.  post: confirmed iff the program is accepted and prints
    other values than the specification."""
    shapes = _shapes_from_detail(ob.detail)
    info = dict(shapes=len(shapes))
    if not shapes:
        return None, info
    ob.cex = shapes[0]
    tried = []
    for shape in shapes:
        prog = _program(shape)
        out, err, rc = abra_cli.run_program(prog)
        txt = re.sub(r'\x1b\[[0-9;]*m', '', out + err)
        panicked = "panicked at" in txt
        want = _expected(shape)
        tried.append(dict(program=prog, output=txt[:500], panicked=panicked, expected=want))
        if ob.id.endswith('.total'):
            if panicked:
                info.update(tried=tried, failing_input=dict(program=prog, output=txt[:500]))
                return True, info
        else:
            got = [int(x) for x in txt.split() if re.fullmatch(r'-?\d+', x)]
            if want is not None and (panicked or (rc == 0 and "error" not in txt and got != want)):
                info.update(tried=tried, failing_input=dict(program=prog, output=txt[:500], expected=want))
                return True, info
    info['tried'] = tried
    return False, info
