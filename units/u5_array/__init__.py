"""U5: array arms of step() on the real pointer code, against a list model (Kani;
array length <= 3 concrete per path, elements and indices symbolic)."""
import os
from units import vmk
import abra_cli
import engine as E

HERE = os.path.dirname(os.path.abspath(__file__))
UNIT = "U5-array"
B = "array length <= 3 (every length 0..3 explored, elements/indices fully symbolic)"
ARMS = ['ConstructArray', 'GetIndex', 'SetIndex', 'ArrayPush', 'ArrayPushIntImm', 'ArrayLength', 'ArrayPop', 'DeconstructArray']
P = ["C26", "C01"]
T = [
    dict(h="construct_array_is_list", id="C26.vm.ConstructArray.post", props=P, fn="step arm ConstructArray / ArrayObject::new", bounded=B,
         text="ConstructArray(n) yields a list whose element i is the i-th pushed value; one heap object"),
    dict(h="get_index_model", id="C26.vm.GetIndex.post", props=P, fn="step arm GetIndex", bounded=B,
         text="0 <= idx < len: pushes element idx; otherwise stops with ArrayOutOfBounds (all i64 idx)"),
    dict(h="set_index_model", id="C26.vm.SetIndex.post", props=P, fn="step arm SetIndex", bounded=B,
         text="0 <= idx < len: exactly slot idx updated, operands consumed; otherwise ArrayOutOfBounds and the array unchanged"),
    dict(h="push_len_model", id="C26.vm.ArrayPush_ArrayLength.post", props=P, fn="step arms ArrayPush, ArrayLength", bounded=B,
         text="push appends; earlier elements unchanged; heap_size tracks capacity; ArrayLength reports the length"),
    dict(h="push_int_imm_model", id="C26.vm.ArrayPushIntImm.post", props=P + ["C05"], fn="step arm ArrayPushIntImm", bounded=B,
         text="appends the int constant the immediate names"),
    dict(h="pop_model", id="C26.vm.ArrayPop.post", props=P, fn="step arm ArrayPop", bounded=B,
         text="non-empty: returns last element and shrinks by one; EMPTY: stops with a runtime error, never a host panic"),
    dict(h="deconstruct_model", id="C26.vm.DeconstructArray.post", props=P + ["C14"], fn="step arm DeconstructArray", bounded=B,
         text="pushes all elements, element 0 on top"),
]
for r in T:
    r['h'] = ["vm::u5::%s_%d" % (r['h'], n) for n in range(4)]


def run(tier="quick"):
    return vmk.run_table(UNIT, "u5", ARMS, os.path.join(HERE, "harness.rs"), T, timeout=600, jobs=4)


def replay(ob):
    """ArrayPop / GetIndex / SetIndex failures: the classic inputs on the real CLI."""
    progs = {
        "C26.vm.ArrayPop.post": ("let a: array<int> = []\na.pop()\nprintln(\"after\")\n", "runtime error (not a host panic)"),
        "C26.vm.GetIndex.post": ("let a = [1, 2, 3]\nprintln(a[3])\n", "array out of bounds runtime error"),
        "C26.vm.SetIndex.post": ("let a = [1, 2, 3]\na[0 - 1] = 5\nprintln(a)\n", "array out of bounds runtime error"),
    }
    if ob.id not in progs:
        return None, dict(note="no canned replay for this obligation")
    prog, want = progs[ob.id]
    out, err, rc = abra_cli.run_program(prog)
    bad = ("panicked" in err) or rc not in (0, 1) or ("indexed past the end" not in (out + err))
    return (True if bad else None), dict(program=prog, real_output=(out + err)[:800], expected=want, exit_code=rc)
