// U5: array arms on the REAL pointer code (ArrayObject behind raw pointers), against a
// list model.  Array lengths are concrete on every path (selected by a symbolic
// selector from 0..=3); element values and indices are fully symbolic.
#[cfg(kani)]
mod u5 {
    use super::hs::*;
    use super::*;

    const M: usize = 3;
    /// a thread whose stack holds one array (built by the real ConstructArray arm) of
    /// concrete length n in 0..=3 with symbolic scalar elements
    fn thread_with_array(n: usize) -> (VmGreenThread, Value, [Value; M], usize) {
        // n is a CONCRETE length in every harness instance (one harness per length)
        let e = [any_scalar(), any_scalar(), any_scalar()];
        let mut t = match n {
            0 => mk_thread_with(vec![], 0, vec![], vec![]),
            1 => mk_thread_with(vec![e[0]], 0, vec![], vec![]),
            2 => mk_thread_with(vec![e[0], e[1]], 0, vec![], vec![]),
            _ => mk_thread_with(vec![e[0], e[1], e[2]], 0, vec![], vec![]),
        };
        assert!(t.arm_ConstructArray(n as u16));
        assert!(t.value_stack.len() == 1);
        let a = t.value_stack[0];
        assert!(a.1 == ValueTag::Array);
        (t, a, e, n)
    }
    fn model_len(t: &mut VmGreenThread, a: Value) -> usize {
        a.get_array(t).data.len()
    }
    fn model_at(t: &mut VmGreenThread, a: Value, i: usize) -> Value {
        a.get_array(t).data[i]
    }

    fn construct_array_is_list(n: usize) {
        let (mut t, a, e, n) = thread_with_array(n);
        assert!(model_len(&mut t, a) == n, "ConstructArray(n) builds a list of n elements");
        let mut i = 0;
        while i < M {
            if i < n {
                assert!(model_at(&mut t, a, i) == e[i], "element i is the i-th pushed value");
            }
            i += 1;
        }
        assert!(t.heap_list.len() == 1);
        kani::cover!(true, "reachable");
        std::mem::forget(t);
    }

    fn get_index_model(n: usize) {
        let (mut t, a, e, n) = thread_with_array(n);
        let idx: i64 = kani::any();
        t.push(idx);
        // GetIndex(reg1 = array, reg2 = index): index fetched first
        let cont = t.arm_GetIndex(TOP, TOP);
        if 0 <= idx && (idx as i128) < n as i128 {
            assert!(cont && err_kind(&t) == 0, "in range: no error");
            assert!(t.value_stack.len() == 1 && t.value_stack[0] == e[idx as usize], "in range: pushes the element");
        } else {
            assert!(!cont, "out of range: the program stops");
            assert!(err_kind(&t) == 1, "out of range: ArrayOutOfBounds");
        }
        kani::cover!(idx < 0, "negative index reachable");
        kani::cover!(cont, "in-range reachable");
        std::mem::forget(t);
    }

    fn set_index_model(n: usize) {
        let (mut t, a, e, n) = thread_with_array(n);
        let idx: i64 = kani::any();
        let v = any_scalar();
        // SetIndex(reg1 = index, reg2 = rvalue): rvalue fetched first, then index, then the array popped
        t.push(idx);
        t.push(v);
        let cont = t.arm_SetIndex(TOP, TOP);
        if 0 <= idx && (idx as i128) < n as i128 {
            assert!(cont && err_kind(&t) == 0);
            assert!(t.value_stack.len() == 0, "consumes array, index and rvalue");
            assert!(model_len(&mut t, a) == n, "length unchanged");
            let mut i = 0;
            while i < M {
                if i < n {
                    let want = if i == idx as usize { v } else { e[i] };
                    assert!(model_at(&mut t, a, i) == want, "exactly slot idx is updated");
                }
                i += 1;
            }
        } else {
            assert!(!cont && err_kind(&t) == 1, "out of range: ArrayOutOfBounds, not a host panic");
            assert!(model_len(&mut t, a) == n);
        }
        std::mem::forget(t);
    }

    fn push_len_model(n: usize) {
        let (mut t, a, e, n) = thread_with_array(n);
        let v = any_scalar();
        let hs0 = t.heap_size;
        // ArrayPush(reg1 = array, reg2 = rvalue)
        t.push(v);
        assert!(t.arm_ArrayPush(TOP, TOP));
        assert!(t.value_stack.len() == 0);
        assert!(model_len(&mut t, a) == n + 1, "push appends one element");
        assert!(model_at(&mut t, a, n) == v, "the appended element is the pushed value");
        let mut i = 0;
        while i < M {
            if i < n {
                assert!(model_at(&mut t, a, i) == e[i], "earlier elements unchanged");
            }
            i += 1;
        }
        assert!(t.heap_size >= hs0, "heap accounting never decreases on push");
        assert!(t.heap_size == a.get_array(&mut t).nbytes(), "heap_size follows the array's capacity");
        t.push(a);
        assert!(t.arm_ArrayLength(TOP, TOP));
        assert!(t.value_stack.len() == 1 && t.value_stack[0] == Value::from((n + 1) as AbraInt), "ArrayLength reports the model length");
        std::mem::forget(t);
    }

    fn push_int_imm_model(n: usize) {
        let (mut t0, a, e, n) = thread_with_array(n);
        let k: i64 = kani::any();
        // the arm reads the constant table: rebuild the thread's shared constants is not possible after the
        // fact, so use a second thread sharing nothing but built with the constant; the array lives in t's heap
        let mut t = mk_thread_with(vec![a], 0, vec![k], vec![]);
        assert!(t.arm_ArrayPushIntImm(TOP, 0));
        assert!(model_len(&mut t, a) == n + 1 && model_at(&mut t, a, n) == Value::from(k));
        std::mem::forget(t);
        std::mem::forget(t0);
    }

    fn pop_model(n: usize) {
        let (mut t, a, e, n) = thread_with_array(n);
        // ArrayPop(dest, reg)
        let cont = t.arm_ArrayPop(TOP, TOP);
        if n > 0 {
            assert!(cont && err_kind(&t) == 0);
            assert!(t.value_stack.len() == 1 && t.value_stack[0] == e[n - 1], "pop returns the last element");
            assert!(model_len(&mut t, a) == n - 1, "pop removes exactly one element");
        } else {
            // C26: popping an empty array stops with a runtime error rather than crashing the host
            assert!(!cont, "empty array: the program stops");
            assert!(err_kind(&t) == 1, "empty array: ArrayOutOfBounds runtime error");
        }
        kani::cover!(true, "reachable");
        std::mem::forget(t);
    }

    fn deconstruct_model(n: usize) {
        let (mut t, a, e, n) = thread_with_array(n);
        assert!(t.arm_DeconstructArray());
        assert!(t.value_stack.len() == n, "pushes every element");
        // element 0 ends on top (reverse order), as for structs
        let mut i = 0;
        while i < M {
            if i < n {
                assert!(t.value_stack[n - 1 - i] == e[i]);
            }
            i += 1;
        }
        std::mem::forget(t);
    }

    macro_rules! per_len {
        ($f:ident, $h0:ident, $h1:ident, $h2:ident, $h3:ident) => {
            #[kani::proof]
            #[kani::unwind(6)]
            fn $h0() { $f(0) }
            #[kani::proof]
            #[kani::unwind(6)]
            fn $h1() { $f(1) }
            #[kani::proof]
            #[kani::unwind(6)]
            fn $h2() { $f(2) }
            #[kani::proof]
            #[kani::unwind(6)]
            fn $h3() { $f(3) }
        };
    }
    per_len!(construct_array_is_list, construct_array_is_list_0, construct_array_is_list_1, construct_array_is_list_2, construct_array_is_list_3);
    per_len!(get_index_model, get_index_model_0, get_index_model_1, get_index_model_2, get_index_model_3);
    per_len!(set_index_model, set_index_model_0, set_index_model_1, set_index_model_2, set_index_model_3);
    per_len!(push_len_model, push_len_model_0, push_len_model_1, push_len_model_2, push_len_model_3);
    per_len!(push_int_imm_model, push_int_imm_model_0, push_int_imm_model_1, push_int_imm_model_2, push_int_imm_model_3);
    per_len!(pop_model, pop_model_0, pop_model_1, pop_model_2, pop_model_3);
    per_len!(deconstruct_model, deconstruct_model_0, deconstruct_model_1, deconstruct_model_2, deconstruct_model_3);
}
