"""U4a: stack-manipulation, constant, jump, call/return and status arms of step(), lifted
verbatim and verified by Verus for stacks and call stacks of any size (C01 operand/stack
discipline at VM level; C11 status arms; the L-lemma hypotheses of C05)."""
import os
from units.vmenv import armunit

HERE = os.path.dirname(os.path.abspath(__file__))
U1SPEC = os.path.join(os.path.dirname(HERE), 'u1_int', 'spec.rs')
UNIT = "U4a-ctrl"
O = "*old(self)"
F = "*final(self)"
S0 = "old(self).value_stack@"
B = "old(self).stack_base as int"

ARMS = {
    'Pop': dict(props=["C01", "C05"], contract=(
        "        requires %s.len() > 0,\n"
        "        ensures cont && final(self).value_stack@ == %s.drop_last() && frame_stack(%s, %s),\n" % (S0, S0, O, F))),
    'Duplicate': dict(props=["C01", "C05"], rewrites=[(r'self\.push\(v\)', 'self.push_val(v)', 1)], contract=(
        "        requires %s.len() > 0,\n"
        "        ensures cont && final(self).value_stack@ == %s.push(%s.last()) && frame_stack(%s, %s),\n" % (S0, S0, S0, O, F))),
    'LoadOffset': dict(props=["C01", "C05"], rewrites=[(r'self\.push\(v\)', 'self.push_val(v)', 1)], contract=(
        "        requires 0 <= %s + n < %s.len(), %s.len() <= usize::MAX,\n"
        "        ensures cont && final(self).value_stack@ == %s.push(%s[%s + n]) && frame_stack(%s, %s),\n" % (B, S0, S0, S0, S0, B, O, F))),
    'StoreOffset': dict(props=["C01", "C05"], rewrites=[(r'self\.store_offset\(n, v\)', 'self.store_offset_val(n, v)', 1)], contract=(
        "        requires %s.len() > 0, 0 <= %s + n < %s.len() - 1,\n"
        "        ensures cont && final(self).value_stack@ == %s.drop_last().update(%s + n, %s.last()) && frame_stack(%s, %s),\n" % (S0, B, S0, S0, B, S0, O, F))),
    'StoreOffsetImm': dict(props=["C01", "C05"], rewrites=[(r'self\.store_offset\(n, ', 'self.store_offset_int(n, ', 1)], contract=(
        "        requires 0 <= %s + n < %s.len(), (imm as int) < old(self).shared.int_constants@.len(),\n"
        "        ensures cont && final(self).value_stack@ == %s.update(%s + n, val_int(old(self).shared.int_constants@[imm as int])) && frame_stack(%s, %s),\n" % (B, S0, S0, B, O, F))),
    'PushInt': dict(props=["C01", "C05", "C30"], rewrites=[(r'self\.push\(', 'self.push_int(', 1)], contract=(
        "        requires (n as int) < old(self).shared.int_constants@.len(),\n"
        "        ensures cont && final(self).value_stack@ == %s.push(val_int(old(self).shared.int_constants@[n as int])) && frame_stack(%s, %s),\n" % (S0, O, F))),
    'PushFloat': dict(props=["C01", "C05", "C30", "C16"], rewrites=[(r'self\.push\(', 'self.push_float(', 1)], contract=(
        "        requires (f as int) < old(self).shared.float_constants@.len(),\n"
        "        ensures cont && final(self).value_stack@ == %s.push(val_float(old(self).shared.float_constants@[f as int])) && frame_stack(%s, %s),\n" % (S0, O, F))),
    'PushBool': dict(props=["C01", "C05"], rewrites=[(r'self\.push\(', 'self.push_bool(', 1)], contract=(
        "        ensures cont && final(self).value_stack@ == %s.push(val_bool(b)) && frame_stack(%s, %s),\n" % (S0, O, F))),
    'PushAddr': dict(props=["C01"], rewrites=[(r'self\.push\(', 'self.push_addr(', 1)], contract=(
        "        ensures cont && final(self).value_stack@ == %s.push(val_addr(addr)) && frame_stack(%s, %s),\n" % (S0, O, F))),
    'PushString': dict(props=["C01", "C30"], rewrites=[(r'self\.push\(', 'self.push_sstr(', 1)], contract=(
        "        requires (idx as int) < old(self).shared.static_strings@.len(),\n"
        "        ensures cont && final(self).value_stack@ == %s.push(val_sptr(old(self).shared.static_strings@[idx as int])) && frame_stack(%s, %s),\n" % (S0, O, F))),
    'Not': dict(props=["C24", "C01", "C05"], store='bool', contract=(
        "        requires un_pre_t(%s, dest, reg, ValueTag::Bool),\n"
        "        ensures bool_post(%s, %s, cont, reg_after_load(%s, reg), dest, !bool_of(reg_val(%s, %s, reg))),\n" % (O, O, F, S0, S0, B))),
    'EqualBool': dict(props=["C24", "C01", "C05"], store='bool', contract=(
        "        requires bin_pre(%s, dest, reg1, reg2, ValueTag::Bool),\n"
        "        ensures bool_post(%s, %s, cont, bin_rest(%s, reg1, reg2), dest, bool_of(bin_a(%s, reg1, reg2)) == bool_of(bin_b(%s, reg2))),\n" % (O, O, F, O, O, O))),
    'Jump': dict(props=["C01", "C05"], contract=(
        "        ensures cont && final(self).pc == target && final(self).value_stack@ == %s && frame_pc(%s, %s),\n" % (S0, O, F))),
    'JumpIf': dict(props=["C01", "C05"], contract=(
        "        requires %s.len() > 0, tag_of(%s.last()) == ValueTag::Bool,\n"
        "        ensures cont && final(self).value_stack@ == %s.drop_last() && frame_pc(%s, %s)\n"
        "            && final(self).pc == (if bool_of(%s.last()) { target } else { old(self).pc }),\n" % (S0, S0, S0, O, F, S0))),
    'JumpIfFalse': dict(props=["C01", "C05"], contract=(
        "        requires %s.len() > 0, tag_of(%s.last()) == ValueTag::Bool,\n"
        "        ensures cont && final(self).value_stack@ == %s.drop_last() && frame_pc(%s, %s)\n"
        "            && final(self).pc == (if !bool_of(%s.last()) { target } else { old(self).pc }),\n" % (S0, S0, S0, O, F, S0))),
    'Call': dict(props=["C01"], contract=(
        "        ensures cont && frame_call(%s, %s) && final(self).value_stack@ == %s\n"
        "            && final(self).pc.0 == cd_addr(call_data) && final(self).stack_base == %s.len()\n"
        "            && final(self).call_stack@.len() == old(self).call_stack@.len() + 1\n"
        "            && final(self).call_stack@.drop_last() == old(self).call_stack@\n"
        "            && final(self).call_stack@.last().pc == old(self).pc && final(self).call_stack@.last().stack_base == old(self).stack_base\n"
        "            && final(self).call_stack@.last().nargs == cd_nargs(call_data),\n" % (O, F, S0, S0))),
    'Return': dict(props=["C01", "C23"], contract=(
        "        requires old(self).call_stack@.len() > 0, old(self).call_stack@.last().nargs == nargs,\n"
        "                 nargs <= old(self).stack_base, old(self).stack_base < %s.len(), %s.len() <= usize::MAX,\n"
        "        ensures cont && frame_call(%s, %s)\n"
        "            && final(self).value_stack@ =~= ret_stack(%s, %s, nargs as int)\n"
        "            && final(self).pc == old(self).call_stack@.last().pc && final(self).stack_base == old(self).call_stack@.last().stack_base\n"
        "            && final(self).call_stack@ == old(self).call_stack@.drop_last(),\n" % (S0, S0, O, F, S0, B))),
    'ReturnVoid': dict(props=["C01", "C23"], contract=(
        "        requires old(self).call_stack@.len() > 0, old(self).call_stack@.last().nargs <= old(self).stack_base, old(self).stack_base <= %s.len(),\n"
        "        ensures cont && frame_call(%s, %s)\n"
        "            && final(self).value_stack@ =~= %s.subrange(0, %s - old(self).call_stack@.last().nargs)\n"
        "            && final(self).pc == old(self).call_stack@.last().pc && final(self).stack_base == old(self).call_stack@.last().stack_base\n"
        "            && final(self).call_stack@ == old(self).call_stack@.drop_last(),\n" % (S0, O, F, S0, B))),
    'Stop': dict(props=["C11", "C01"], contract=(
        "        ensures !cont && final(self).done && final(self).pending_host_func == old(self).pending_host_func && frame_status(%s, %s),\n" % (O, F))),
    'HostFunc': dict(props=["C11", "C10", "C01"], contract=(
        "        ensures !cont && final(self).pending_host_func == Some(eff) && final(self).done == old(self).done && frame_status(%s, %s),\n" % (O, F))),
}


def run(tier="quick"):
    return armunit.run_arm_unit(UNIT, "u4a", [U1SPEC, os.path.join(HERE, 'spec.rs')], ARMS, ["C01"], id_prefix="C01",
                                extra_assumptions=["verus/U4a: CallData::{get_addr,get_nargs} by contract (round trip with CallData::new proved by Kani, U4 enc.calldata)"])
