// U4a: specification helpers for control / stack arms.
// frame where only value_stack may change is frame_stack (vmenv); here: only pc changes, and call frames.
spec fn frame_pc(a: VmGreenThread, b: VmGreenThread) -> bool {
    &&& a.stack_base == b.stack_base
    &&& a.call_stack@ == b.call_stack@
    &&& a.heap_list@ == b.heap_list@
    &&& a.gray_stack@ == b.gray_stack@
    &&& a.gc_state == b.gc_state
    &&& a.gc_visited == b.gc_visited
    &&& a.heap_size == b.heap_size
    &&& a.gc_debt == b.gc_debt
    &&& a.last_gc_heap_size == b.last_gc_heap_size
    &&& a.pending_host_func == b.pending_host_func
    &&& a.error == b.error
    &&& a.pending_ffi_call == b.pending_ffi_call
    &&& a.done == b.done
    &&& a.string_op_index1 == b.string_op_index1
    &&& a.string_op_index2 == b.string_op_index2
    &&& a.string_operand1 == b.string_operand1
    &&& a.string_operand2 == b.string_operand2
    &&& a.concat_string_builder@ == b.concat_string_builder@
    &&& a.is_main == b.is_main
    &&& a.id == b.id
    &&& a.shared == b.shared
}
// frame for calls/returns: value_stack, pc, stack_base, call_stack may change
spec fn frame_call(a: VmGreenThread, b: VmGreenThread) -> bool {
    &&& a.heap_list@ == b.heap_list@
    &&& a.gray_stack@ == b.gray_stack@
    &&& a.gc_state == b.gc_state
    &&& a.gc_visited == b.gc_visited
    &&& a.heap_size == b.heap_size
    &&& a.gc_debt == b.gc_debt
    &&& a.last_gc_heap_size == b.last_gc_heap_size
    &&& a.pending_host_func == b.pending_host_func
    &&& a.error == b.error
    &&& a.pending_ffi_call == b.pending_ffi_call
    &&& a.done == b.done
    &&& a.string_op_index1 == b.string_op_index1
    &&& a.string_op_index2 == b.string_op_index2
    &&& a.string_operand1 == b.string_operand1
    &&& a.string_operand2 == b.string_operand2
    &&& a.concat_string_builder@ == b.concat_string_builder@
    &&& a.is_main == b.is_main
    &&& a.id == b.id
    &&& a.shared == b.shared
}
// frame for status changes: only done / pending_host_func may change
spec fn frame_status(a: VmGreenThread, b: VmGreenThread) -> bool {
    &&& a.pc == b.pc
    &&& a.value_stack@ == b.value_stack@
    &&& a.stack_base == b.stack_base
    &&& a.call_stack@ == b.call_stack@
    &&& a.heap_list@ == b.heap_list@
    &&& a.gray_stack@ == b.gray_stack@
    &&& a.gc_state == b.gc_state
    &&& a.heap_size == b.heap_size
    &&& a.gc_debt == b.gc_debt
    &&& a.error == b.error
    &&& a.pending_ffi_call == b.pending_ffi_call
    &&& a.string_op_index1 == b.string_op_index1
    &&& a.string_op_index2 == b.string_op_index2
    &&& a.is_main == b.is_main
    &&& a.shared == b.shared
}
spec fn un_pre_t(t: VmGreenThread, dest: u16, reg: u16, tg: ValueTag) -> bool {
    let s0 = t.value_stack@; let base = t.stack_base as int;
    &&& reg_ok(s0, base, reg) && tag_of(reg_val(s0, base, reg)) == tg
    &&& reg_store_ok(reg_after_load(s0, reg), base, dest)
}
// what Return(nargs) must leave behind: the caller's operands below the arguments, then the result
spec fn ret_stack(s: Seq<Value>, base: int, nargs: int) -> Seq<Value> {
    s.subrange(0, base - nargs).push(s.last())
}
