// U1 Kani twins: the same lifted arms, run on the *real* stack helpers and value
// encoding (no contract stand-ins), against an i128 oracle.  Operands are fully
// symbolic; the register configuration is fixed to (Top, Top, Top) / (Top, Top, imm 0).
// Used (a) as complete loop-free proofs for that configuration and (b) to obtain
// concrete counterexamples for Verus obligations that fail.
#[cfg(kani)]
mod u1_twin {
    use super::hs::*;
    use super::*;

    enum Out {
        Val(i64),
        Overflow,
        DivZero,
        /// some value fits (value itself not checked here: 64-bit division is out of
        /// CBMC's reach; the value is the Verus obligation's business)
        Fits,
        Unspecified,
    }
    fn exact(x: i128) -> Out {
        if x >= i64::MIN as i128 && x <= i64::MAX as i128 { Out::Val(x as i64) } else { Out::Overflow }
    }
    fn spec_add(a: i64, b: i64) -> Out { exact(a as i128 + b as i128) }
    fn spec_sub(a: i64, b: i64) -> Out { exact(a as i128 - b as i128) }
    fn spec_mul(a: i64, b: i64) -> Out { exact(a as i128 * b as i128) } // slow (64x64 multiplier): thorough tier only
    fn spec_div(a: i64, b: i64) -> Out {
        if b == 0 { Out::DivZero }
        else if a == i64::MIN && b == -1 { Out::Overflow } // exact quotient 2^63 does not fit
        else { Out::Fits }
    }
    fn spec_mod(a: i64, b: i64) -> Out {
        if b == 0 { return Out::DivZero; }
        if b == -1 || b == 1 { return Out::Val(0); }
        Out::Fits // the Euclidean remainder always fits; its value is Verus' obligation
    }
    fn spec_pow(a: i64, n: i64) -> Out {
        // domain of the bounded twin: n in 0..=3, or (a == 2 or a == -3) with n >= 2^32
        if n < 0 { return Out::Unspecified; }
        if n <= 3 {
            let mut acc: i128 = 1;
            let mut i = 0;
            while i < n {
                acc = acc * (a as i128);
                if acc > i64::MAX as i128 || acc < i64::MIN as i128 { return Out::Overflow; }
                i += 1;
            }
            return Out::Val(acc as i64);
        }
        if n >= (1i64 << 32) && (a == 2 || a == -3) { return Out::Overflow; }
        Out::Unspecified
    }

    fn check(cont: bool, t: &VmGreenThread, out: Out) {
        match out {
            Out::Val(c) => {
                assert!(cont, "exact result fits: the arm must continue");
                assert!(err_kind(t) == 0, "exact result fits: no error may be set");
                assert!(t.value_stack.len() == 1 && t.value_stack[0] == Value::from(c), "stored result equals the exact result");
            }
            Out::Overflow => {
                assert!(!cont, "exact result does not fit: the arm must stop");
                assert!(err_kind(t) == 3, "exact result does not fit: error kind must be IntegerOverflowUnderflow");
            }
            Out::DivZero => {
                assert!(!cont, "zero divisor: the arm must stop");
                assert!(err_kind(t) == 4, "zero divisor: error kind must be DivisionByZero");
            }
            Out::Fits => {
                assert!(cont, "a representable result exists: the arm must continue");
                assert!(err_kind(t) == 0, "a representable result exists: no error may be set");
            }
            Out::Unspecified => {}
        }
    }

    fn run_bin(f: fn(&mut VmGreenThread, u16, u16, u16) -> bool, a: i64, b: i64) -> (bool, VmGreenThread) {
        let mut t = mk_thread_with(vec![Value::from(a), Value::from(b)], 0, vec![], vec![]);
        let cont = f(&mut t, TOP, TOP, TOP);
        (cont, t)
    }
    fn run_imm(f: fn(&mut VmGreenThread, u16, u16, u16) -> bool, a: i64, b: i64) -> (bool, VmGreenThread) {
        let mut t = mk_thread_with(vec![Value::from(a)], 0, vec![b], vec![]);
        let cont = f(&mut t, TOP, TOP, 0);
        (cont, t)
    }

    macro_rules! twin {
        ($h:ident, $run:ident, $arm:ident, $spec:ident) => {
            #[kani::proof]
            #[kani::unwind(34)]
            fn $h() {
                let a: i64 = kani::any();
                let b: i64 = kani::any();
                let (cont, t) = $run(VmGreenThread::$arm, a, b);
                check(cont, &t, $spec(a, b));
                std::mem::forget(t);
            }
        };
    }
    macro_rules! twin_pow {
        ($h:ident, $run:ident, $arm:ident) => {
            #[kani::proof]
            #[kani::unwind(34)]
            fn $h() {
                let a: i64 = kani::any();
                let b: i64 = kani::any();
                // bounded stand-in: exponents that do not fit in u32, bases 2 and -3 only
                kani::assume(b >= (1i64 << 32) && b <= (1i64 << 32) + 40 && (a == 2 || a == -3));
                let (cont, t) = $run(VmGreenThread::$arm, a, b);
                check(cont, &t, spec_pow(a, b));
                std::mem::forget(t);
            }
        };
    }
    twin!(twin_AddInt, run_bin, arm_AddInt, spec_add);
    twin!(twin_AddIntImm, run_imm, arm_AddIntImm, spec_add);
    twin!(twin_SubtractInt, run_bin, arm_SubtractInt, spec_sub);
    twin!(twin_SubIntImm, run_imm, arm_SubIntImm, spec_sub);
    twin!(twin_MulInt, run_bin, arm_MulInt, spec_mul);
    twin!(twin_MulIntImm, run_imm, arm_MulIntImm, spec_mul);
    twin!(twin_DivideInt, run_bin, arm_DivideInt, spec_div);
    twin!(twin_DivideIntImm, run_imm, arm_DivideIntImm, spec_div);
    twin!(twin_Modulo, run_bin, arm_Modulo, spec_mod);
    twin!(twin_ModuloImm, run_imm, arm_ModuloImm, spec_mod);
    twin_pow!(twin_PowerInt, run_bin, arm_PowerInt);
    twin_pow!(twin_PowerIntImm, run_imm, arm_PowerIntImm);
}
