// ---------------------------------------------------------------------------
// U1: top-level specification of integer arithmetic, transcribed from property
// C15 ("exact or fails with the documented error"), not from the code.
// ---------------------------------------------------------------------------
enum Out { Val(int), Overflow, DivZero }

pub open spec fn fits(x: int) -> bool { i64::MIN <= x <= i64::MAX }

spec fn exact(x: int) -> Out { if fits(x) { Out::Val(x) } else { Out::Overflow } }

// truncating (toward zero) quotient, b != 0
spec fn tdiv(a: int, b: int) -> int {
    if a >= 0 && b > 0 { a / b }
    else if a < 0 && b > 0 { -((-a) / b) }
    else if a >= 0 && b < 0 { -(a / (-b)) }
    else { (-a) / (-b) }
}
// Euclidean (non-negative) remainder, b != 0: the unique r in [0,|b|) with a == q*b + r
spec fn emod(a: int, b: int) -> int {
    if b > 0 { a % b } else { a % (-b) }
}
pub open spec fn ipow(a: int, n: nat) -> int decreases n {
    if n == 0 { 1 } else { a * ipow(a, (n - 1) as nat) }
}

spec fn int_add(a: int, b: int) -> Out { exact(a + b) }
spec fn int_sub(a: int, b: int) -> Out { exact(a - b) }
spec fn int_mul(a: int, b: int) -> Out { exact(a * b) }
spec fn int_neg(a: int) -> Out { exact(-a) }
spec fn int_div(a: int, b: int) -> Out { if b == 0 { Out::DivZero } else { exact(tdiv(a, b)) } }
spec fn int_mod(a: int, b: int) -> Out { if b == 0 { Out::DivZero } else { exact(emod(a, b)) } }
// C15 only constrains non-negative exponents
spec fn int_pow(a: int, n: int) -> Out recommends n >= 0 { exact(ipow(a, n as nat)) }

// ---- std contracts assumed (no vstd spec exists): transcribed from the std docs ----
pub assume_specification[ i64::checked_pow ](x: i64, exp: u32) -> (r: Option<i64>)
    ensures r == (if fits(ipow(x as int, exp as nat)) { Some(ipow(x as int, exp as nat) as i64) } else { None::<i64> });

// ---- operand plumbing of a three-register arm (reg2 fetched first, then reg1) ----
spec fn bin_pre(t: VmGreenThread, dest: u16, reg1: u16, reg2: u16, tg: ValueTag) -> bool {
    let s0 = t.value_stack@; let base = t.stack_base as int;
    let s1 = reg_after_load(s0, reg2);
    let s2 = reg_after_load(s1, reg1);
    &&& reg_ok(s0, base, reg2) && tag_of(reg_val(s0, base, reg2)) == tg
    &&& reg_ok(s1, base, reg1) && tag_of(reg_val(s1, base, reg1)) == tg
    &&& reg_store_ok(s2, base, dest)
}
spec fn bin_a(t: VmGreenThread, reg1: u16, reg2: u16) -> Value {
    reg_val(reg_after_load(t.value_stack@, reg2), t.stack_base as int, reg1)
}
spec fn bin_b(t: VmGreenThread, reg2: u16) -> Value {
    reg_val(t.value_stack@, t.stack_base as int, reg2)
}
spec fn bin_rest(t: VmGreenThread, reg1: u16, reg2: u16) -> Seq<Value> {
    reg_after_load(reg_after_load(t.value_stack@, reg2), reg1)
}
// immediate form: one register, one constant-table index
spec fn imm_pre(t: VmGreenThread, dest: u16, reg1: u16, imm: u16, tg: ValueTag) -> bool {
    let s0 = t.value_stack@; let base = t.stack_base as int;
    &&& reg_ok(s0, base, reg1) && tag_of(reg_val(s0, base, reg1)) == tg
    &&& reg_store_ok(reg_after_load(s0, reg1), base, dest)
    &&& (imm as int) < t.shared.int_constants@.len()
}
spec fn imm_a(t: VmGreenThread, reg1: u16) -> Value { reg_val(t.value_stack@, t.stack_base as int, reg1) }
spec fn imm_b(t: VmGreenThread, imm: u16) -> int { t.shared.int_constants@[imm as int] as int }
spec fn imm_rest(t: VmGreenThread, reg1: u16) -> Seq<Value> { reg_after_load(t.value_stack@, reg1) }

// what an arithmetic arm must do given the specified outcome `out`
spec fn arith_post(pre: VmGreenThread, post: VmGreenThread, cont: bool, rest: Seq<Value>, dest: u16, out: Out) -> bool {
    match out {
        Out::Val(c) => cont && fits(c)
            && post.value_stack@ == reg_after_store(rest, pre.stack_base as int, dest, val_int(c as i64))
            && frame_stack(pre, post),
        Out::Overflow => !cont && has_error(post, ErrK::Overflow) && post.value_stack@ == rest && frame_stack_err(pre, post),
        Out::DivZero => !cont && has_error(post, ErrK::DivZero) && post.value_stack@ == rest && frame_stack_err(pre, post),
    }
}
spec fn bool_post(pre: VmGreenThread, post: VmGreenThread, cont: bool, rest: Seq<Value>, dest: u16, r: bool) -> bool {
    cont && post.value_stack@ == reg_after_store(rest, pre.stack_base as int, dest, val_bool(r)) && frame_stack(pre, post)
}
spec fn intval_post(pre: VmGreenThread, post: VmGreenThread, cont: bool, rest: Seq<Value>, dest: u16, r: i64) -> bool {
    cont && post.value_stack@ == reg_after_store(rest, pre.stack_base as int, dest, val_int(r)) && frame_stack(pre, post)
}

// wrapping arms (hash mixing only): an int is stored; it is the exact result whenever that fits
spec fn wrap_post(pre: VmGreenThread, post: VmGreenThread, cont: bool, rest: Seq<Value>, dest: u16, exactv: int) -> bool {
    let base = pre.stack_base as int;
    let v = reg_val(post.value_stack@, base, dest);
    &&& cont && frame_stack(pre, post)
    &&& reg_ok(post.value_stack@, base, dest)
    &&& post.value_stack@ == reg_after_store(rest, base, dest, v)
    &&& tag_of(v) == ValueTag::Int
    &&& fits(exactv) ==> int_of(v) as int == exactv
}

// ---- lemmas connecting vstd's machine-division specs (rust_div, Euclidean `%` with a
// possibly negative divisor) to the mathematical ones above ----
proof fn lemma_ediv_neg(a: int, b: int)
    requires b < 0,
    ensures a / b == -(a / (-b)), a % b == a % (-b),
{
    let d = -b;
    let q1 = a / b; let r1 = a % b;
    let q2 = a / d; let r2 = a % d;
    assert(a == b * q1 + r1 && 0 <= r1 < d) by (nonlinear_arith) requires b < 0, d == -b, q1 == a / b, r1 == a % b;
    assert(a == d * q2 + r2 && 0 <= r2 < d) by (nonlinear_arith) requires d > 0, q2 == a / d, r2 == a % d;
    assert(q1 + q2 == 0) by (nonlinear_arith) requires a == b * q1 + r1, a == d * q2 + r2, d == -b, 0 <= r1 < d, 0 <= r2 < d, d > 0;
    assert(r1 == r2) by (nonlinear_arith) requires a == b * q1 + r1, a == d * q2 + r2, d == -b, q1 + q2 == 0;
}

proof fn lemma_rust_div_is_tdiv(a: int, b: int)
    requires b != 0,
    ensures vstd::arithmetic::div_mod::rust_div(a, b) == tdiv(a, b),
{
    if b < 0 { lemma_ediv_neg(a, b); lemma_ediv_neg(-a, b); }
    if a == 0 {
        assert(0int / b == 0) by (nonlinear_arith) requires b != 0;
        if b < 0 { assert(0int / (-b) == 0) by (nonlinear_arith) requires -b > 0; }
    }
}

proof fn lemma_erem_is_emod(a: int, b: int)
    requires b != 0,
    ensures a % b == emod(a, b), 0 <= emod(a, b), emod(a, b) < (if b > 0 { b } else { -b }),
{
    if b < 0 { lemma_ediv_neg(a, b); }
    let d = if b > 0 { b } else { -b };
    assert(0 <= a % d < d) by (nonlinear_arith) requires d > 0;
}

proof fn lemma_tdiv_fits(a: i64, b: i64)
    requires b != 0,
    ensures fits(tdiv(a as int, b as int)) <==> !(a == i64::MIN && b == -1),
{
    let ai = a as int; let bi = b as int;
    if ai >= 0 && bi > 0 {
        assert(0 <= ai / bi <= ai) by (nonlinear_arith) requires ai >= 0, bi > 0;
    } else if ai < 0 && bi > 0 {
        assert(0 <= (-ai) / bi <= -ai) by (nonlinear_arith) requires -ai >= 0, bi > 0;
    } else if ai >= 0 && bi < 0 {
        assert(0 <= ai / (-bi) <= ai) by (nonlinear_arith) requires ai >= 0, -bi > 0;
    } else {
        assert(0 <= (-ai) / (-bi) <= -ai) by (nonlinear_arith) requires -ai >= 0, -bi > 0;
        if bi == -1 { assert((-ai) / 1 == -ai); }
        else {
            assert((-ai) / (-bi) < -ai) by (nonlinear_arith) requires -ai > 0, -bi >= 2;
        }
    }
}

// ---- lemmas about exact powers (for checked_pow_int) ----
spec fn iabs(x: int) -> int { if x < 0 { -x } else { x } }

proof fn lemma_ipow_01(n: nat)
    ensures ipow(1, n) == 1, n > 0 ==> ipow(0, n) == 0,
    decreases n,
{
    if n > 0 { lemma_ipow_01((n - 1) as nat); }
}
proof fn lemma_ipow_neg1(n: nat)
    ensures ipow(-1, n) == (if n % 2 == 0 { 1int } else { -1int }),
    decreases n,
{
    if n > 0 { lemma_ipow_neg1((n - 1) as nat); }
}
proof fn lemma_ipow_abs_ge(a: int, n: nat)
    requires iabs(a) >= 2,
    ensures iabs(ipow(a, n)) >= ipow(2, n), ipow(2, n) >= 1,
    decreases n,
{
    if n > 0 {
        lemma_ipow_abs_ge(a, (n - 1) as nat);
        let x = ipow(a, (n - 1) as nat);
        let y = ipow(2, (n - 1) as nat);
        assert(iabs(a * x) >= 2 * y) by (nonlinear_arith) requires iabs(a) >= 2, iabs(x) >= y, y >= 1;
    }
}
proof fn lemma_ipow2_ge64(n: nat)
    requires n >= 64,
    ensures ipow(2, n) >= 0x1_0000_0000_0000_0000,
    decreases n,
{
    if n == 64 {
        assert(ipow(2, 64) == 0x1_0000_0000_0000_0000) by (compute);
    } else {
        lemma_ipow2_ge64((n - 1) as nat);
    }
}
proof fn lemma_ipow_big(a: int, n: nat)
    requires iabs(a) >= 2, n >= 64,
    ensures !fits(ipow(a, n)),
{
    lemma_ipow_abs_ge(a, n);
    lemma_ipow2_ge64(n);
}
