"""U1: integer arithmetic / comparison arms of VmGreenThread::step, lifted verbatim
from vm.rs and verified by Verus against the mathematical specification of C15."""
import os
import re
import slicer as S
import engine as E
from units import vmenv
from units import vmk
import abra_cli

HERE = os.path.dirname(os.path.abspath(__file__))
UNIT = "U1-int"
V = 'abra_core/src/vm.rs'

A = "int_of(bin_a(*old(self), reg1, reg2)) as int"
B = "int_of(bin_b(*old(self), reg2)) as int"
AI = "int_of(imm_a(*old(self), reg1)) as int"
BI = "imm_b(*old(self), imm)"

# arm -> (shape, post kind, spec expression over a,b, store kind, property ids)
ARITH = ["C15", "C01", "C05"]
CMP = ["C24", "C01", "C05"]
ARMS = {
    'AddInt': ('bin', 'arith', 'int_add(a, b)', 'int', ARITH),
    'AddIntImm': ('imm', 'arith', 'int_add(a, b)', 'int', ARITH),
    'SubtractInt': ('bin', 'arith', 'int_sub(a, b)', 'int', ARITH),
    'SubIntImm': ('imm', 'arith', 'int_sub(a, b)', 'int', ARITH),
    'MulInt': ('bin', 'arith', 'int_mul(a, b)', 'int', ARITH),
    'MulIntImm': ('imm', 'arith', 'int_mul(a, b)', 'int', ARITH),
    'DivideInt': ('bin', 'arith', 'int_div(a, b)', 'int', ARITH),
    'DivideIntImm': ('imm', 'arith', 'int_div(a, b)', 'int', ARITH),
    'Modulo': ('bin', 'arith', 'int_mod(a, b)', 'int', ARITH),
    'ModuloImm': ('imm', 'arith', 'int_mod(a, b)', 'int', ARITH),
    'PowerInt': ('bin', 'arith_if', ('b >= 0', 'int_pow(a, b)'), 'int', ARITH),
    'PowerIntImm': ('imm', 'arith_if', ('b >= 0', 'int_pow(a, b)'), 'int', ARITH),
    'LessThanInt': ('bin', 'bool', 'a < b', 'bool', CMP),
    'LessThanIntImm': ('imm', 'bool', 'a < b', 'bool', CMP),
    'LessThanOrEqualInt': ('bin', 'bool', 'a <= b', 'bool', CMP),
    'LessThanOrEqualIntImm': ('imm', 'bool', 'a <= b', 'bool', CMP),
    'GreaterThanInt': ('bin', 'bool', 'a > b', 'bool', CMP),
    'GreaterThanIntImm': ('imm', 'bool', 'a > b', 'bool', CMP),
    'GreaterThanOrEqualInt': ('bin', 'bool', 'a >= b', 'bool', CMP),
    'GreaterThanOrEqualIntImm': ('imm', 'bool', 'a >= b', 'bool', CMP),
    'EqualInt': ('bin', 'bool', 'a == b', 'bool', CMP),
    'EqualIntImm': ('imm', 'bool', 'a == b', 'bool', CMP),
    'WrappingAdd': ('bin', 'wrap', 'a + b', 'int', ["C01", "C24"]),
    'WrappingMul': ('bin', 'wrap', 'a * b', 'int', ["C01", "C24"]),
}

# ghost text spliced in front of a statement of the real body (anchor -> proof block)
# ghost text spliced at the very start of the real body (no anchor inside the body needed)
def _ab(shape):
    if shape == 'bin':
        return "let a = int_of(bin_a(*self, reg1, reg2)); let b = int_of(bin_b(*self, reg2));"
    return "let a = int_of(imm_a(*self, reg1)); let b = self.shared.int_constants@[imm as int];"


PROOFS = {
    'DivideInt': 'if b != 0 { lemma_tdiv_fits(a, b); lemma_rust_div_is_tdiv(a as int, b as int); }',
    'DivideIntImm': 'if b != 0 { lemma_tdiv_fits(a, b); lemma_rust_div_is_tdiv(a as int, b as int); }',
    'Modulo': 'if b != 0 { lemma_erem_is_emod(a as int, b as int); }',
    'ModuloImm': 'if b != 0 { lemma_erem_is_emod(a as int, b as int); }',
}

# free functions of vm.rs that arms call: sliced verbatim, given a contract, verified too
HELPER_FNS = {
    'checked_pow_int': dict(
        rx=r'pub\(crate\) fn checked_pow_int\(',
        contract=("    ensures b >= 0 ==> r == (if fits(ipow(a as int, b as nat)) { Some(ipow(a as int, b as nat) as i64) } else { None::<i64> }),\n"),
        proof=("proof { if b > u32::MAX as i64 { let n = b as nat; lemma_ipow_01(n); lemma_ipow_neg1(n); "
               "if a >= 2 || a <= -2 { lemma_ipow_big(a as int, n); } } }"),
        props=["C15", "C05"]),
}


def contract(name):
    shape, kind, expr, store, props = ARMS[name]
    if shape == 'bin':
        pre = "bin_pre(*old(self), dest, reg1, reg2, ValueTag::Int)"
        lets = "let a = %s; let b = %s; let rest = bin_rest(*old(self), reg1, reg2);" % (A, B)
    else:
        pre = "imm_pre(*old(self), dest, reg1, imm, ValueTag::Int)"
        lets = "let a = %s; let b = %s; let rest = imm_rest(*old(self), reg1);" % (AI, BI)
    if kind == 'arith':
        post = "arith_post(*old(self), *final(self), cont, rest, dest, %s)" % expr
    elif kind == 'arith_if':
        post = "(%s) ==> arith_post(*old(self), *final(self), cont, rest, dest, %s)" % expr
    elif kind == 'bool':
        post = "bool_post(*old(self), *final(self), cont, rest, dest, %s)" % expr
    elif kind == 'wrap':
        # exact when the result fits; otherwise some i64 (used only by hashing, where any total function will do)
        post = "wrap_post(*old(self), *final(self), cont, rest, dest, %s)" % expr
    return ("        requires %s,\n        ensures ({ %s %s }),\n" % (pre, lets, post))


def build(exclude=()):
    text = vmenv.prelude([os.path.join(HERE, 'spec.rs')])
    meta = {}
    for hname, h in HELPER_FNS.items():
        if hname in exclude:
            continue
        ftxt = S.item(V, h['rx'])
        sig, body = S.fn_parts(ftxt)
        sig = re.sub(r'-> Option<AbraInt>', '-> (r: Option<AbraInt>)', sig)
        text += "// ---- real fn %s (vm.rs) ----\n%s\n%s{\n    %s%s}\n" % (hname, sig, h['contract'], h['proof'], body)
        meta[hname] = dict(contract=h['contract'], sha=S.sha(ftxt))
    text += "\nimpl VmGreenThread {\n"
    rewrites = {'R2': 0, 'R3': 0, 'proof_splices': len(HELPER_FNS)}
    for name in ARMS:
        if name in exclude:
            continue
        arm = S.step_arm(name)
        body = arm['body']
        body, k = vmenv.apply_R2(body)
        rewrites['R2'] += k
        body, k = vmenv.apply_R3(body, ARMS[name][3])
        rewrites['R3'] += k
        if k != 1:
            raise S.SliceError("arm %s: expected exactly one store_offset_or_top, found %d" % (name, k))
        if name in PROOFS:
            body = "\n                proof { %s %s }" % (_ab(ARMS[name][0]), PROOFS[name]) + body
            rewrites['proof_splices'] += 1
        c = contract(name)
        a2 = dict(arm)
        a2['body'] = body
        text += "// ---- real arm Instr::%s (vm.rs step), lifted ----\n" % name
        text += vmenv.lift(a2, c)
        meta[name] = dict(contract=c, sha=S.sha(arm['raw']))
    text += "}\n" + vmenv.EPILOGUE
    text, k = vmenv.strip_vis(text)
    rewrites['R0'] = k
    return text, meta, rewrites


def canary(text):
    """Vacuity guard: same file, but every arm's ensures replaced by `false`.  Every arm
    must then FAIL; one that verifies has a contradictory precondition."""
    return re.sub(r'ensures \(\{[^\n]*\}\),\n', 'ensures false,\n', text)


def run(tier="quick"):
    sc = E.Scratch("u1")
    obs = []
    try:
        state = {}

        def _b(exclude):
            t, m, r = build(exclude)
            state['meta'], state['rewrites'] = m, r
            return t
        text, res, excluded = vmenv.verify_isolating(_b, set(ARMS) | set(HELPER_FNS), sc, "u1_int.rs")
        meta, rewrites = state['meta'], state['rewrites']
        for nm, why in excluded.items():
            meta.setdefault(nm, dict(contract="", sha=""))
        lines = E.fn_line_ranges(text)
        errs_by_fn = {}
        for e in res['errors']:
            fn = lines[e['line'] - 1] if e['line'] and e['line'] <= len(lines) else None
            errs_by_fn.setdefault(fn, []).append(e['block'])
        # canary
        cpath = sc.file("u1_canary.rs", canary(text))
        cres = E.run_verus(cpath)
        vac = []
        for name in ARMS:
            f = [v for k, v in cres['functions'].items() if k.endswith("::arm_" + name)]
            if not f or f[0]['success']:
                vac.append(name)
        for name, (shape, kind, expr, store, props) in ARMS.items():
            f = [v for k, v in res['functions'].items() if k.endswith("::arm_" + name)]
            oid = "%s.vm.%s.post" % (props[0], name)
            if not f:
                st, detail, t, rl = E.UNDECIDED, excluded.get(name, "function not reported by verus"), 0, None
            else:
                t, rl = f[0]['time_s'], f[0]['rlimit']
                if f[0]['success']:
                    st, detail = E.DISCHARGED, ""
                else:
                    detail = "\n".join(errs_by_fn.get("arm_" + name, []))
                    st = E.UNDECIDED if ("rlimit" in detail.lower() and "postcondition" not in detail) else E.FAILED
            if name in vac and st == E.DISCHARGED:
                st, detail = E.UNDECIDED, "vacuity canary: arm verifies `ensures false` (contradictory precondition)"
            obs.append(E.Obligation(oid, props, UNIT, "VmGreenThread::step arm Instr::" + name,
                                    "verus/z3", st, detail, t, "abra_core/src/vm.rs",
                                    meta[name]['sha'], None, meta[name]['contract'], rlimit=rl))
        for hname, h in HELPER_FNS.items():
            f = [v for k, v in res['functions'].items() if k.split("::")[-1] == hname]
            st = E.UNDECIDED if not f else (E.DISCHARGED if f[0]['success'] else E.FAILED)
            obs.append(E.Obligation("C15.vm.%s.post" % hname, h['props'], UNIT, hname, "verus/z3", st,
                                    "\n".join(errs_by_fn.get(hname, [])) or excluded.get(hname, ""), f[0]['time_s'] if f else 0,
                                    "abra_core/src/vm.rs", meta[hname]['sha'], None, h['contract'],
                                    rlimit=f[0]['rlimit'] if f else None))
        # helper lemmas are obligations too
        for k, v in res['functions'].items():
            short = k.split("::")[-1]
            if short.startswith("lemma_"):
                obs.append(E.Obligation("C15.lemma.%s" % short, ["C15"], UNIT, short, "verus/z3",
                                        E.DISCHARGED if v['success'] else E.FAILED,
                                        "\n".join(errs_by_fn.get(short, [])), v['time_s'],
                                        "verif/units/u1_int/spec.rs", "", None, "", rlimit=v['rlimit']))
        # Kani twins: real helpers + real encoding, full-domain operands, fixed registers
        twin_names = TWIN_QUICK + (TWIN_SLOW if tier == "thorough" else [])
        if os.environ.get("ABRA_VERIF_PROP") not in (None, "C15", "C05"):
            twin_names = []
        tres, tinfo = run_twins(twin_names, timeout=1500 if tier == "thorough" else 300) if twin_names else ({}, dict(arm_sha={}, rewrites={}))
        for n in twin_names:
            r = tres[n]
            bounded = None
            if n.startswith('Power'):
                bounded = "exponents 2^32..2^32+40 with bases 2 and -3 only (checked_pow loop unwound 34x)"
            obs.append(E.Obligation("C15.kani.%s.twin" % n, ["C15", "C05"], UNIT,
                                    "VmGreenThread::step arm Instr::" + n, "kani/cbmc", r['status'],
                                    "\n".join(r['failed'][:6]) or (r['raw'][-800:] if r['status'] != E.DISCHARGED else ""),
                                    r['time_s'], "abra_core/src/vm.rs", tinfo['arm_sha'].get(n, ""), bounded,
                                    "harness vm::u1_twin::twin_%s: operands a,b = kani::any::<i64>(); registers (Top,Top,Top)/(Top,Top,imm); "
                                    "outcome class (value / overflow / division by zero) must equal the i128 oracle; value compared for + - *" % n))
        if any(o.status == E.UNDECIDED for o in obs) and os.environ.get("ABRA_VERIF_PROP") in (None, "C15", "C05"):
            from units import clidiff
            obs.append(clidiff.standin_obligation(E, "C15.cli.operand_forms.sampled", ["C15", "C05"], UNIT, "abra_core/src/vm.rs"))
        info = dict(
            assumptions=vmenv.ASSUMED + vmk.ASSUMED + [
                "verus/U1: assume_specification for i64::checked_pow (std documentation: exact power or None on overflow)",
                "machine integers are machine integers (i64 in exec code); vstd specs for checked_add/sub/mul/div/rem_euclid, wrapping_add/mul trusted",
            ],
            trusted_base=vmk.TRUSTED + ["verus 0.2026.09.13 + z3", "tools/slicer.py (arm lifting)", "rewrite rules R2 (error boxing), R3 (typed store)"] + vmenv.DROPPED,
            checker_cmds=[res['cmd'].replace(sc.path, "$SCRATCH"),
                          "cargo kani -Z function-contracts -Z stubbing --harness vm::u1_twin::twin_<Arm> --exact (crate assembled from vm.rs by units/vmk)"],
            notes=dict(rewrites=rewrites, kani_rewrites=tinfo['rewrites'], canary_all_failed=(not vac), canary_verified=vac,
                       verus_wall_s=round(res['wall_s'], 2), smt_ms=res['smt_ms']),
        )
        return obs, info
    finally:
        sc.cleanup()


# ------------------------------------------------------------------ Kani twins / replay

OPSYM = {'AddInt': '+', 'SubtractInt': '-', 'MulInt': '*', 'DivideInt': '/', 'Modulo': '%', 'PowerInt': '^',
         'AddIntImm': '+', 'SubIntImm': '-', 'MulIntImm': '*', 'DivideIntImm': '/', 'ModuloImm': '%', 'PowerIntImm': '^'}
TWIN_QUICK = ['AddInt', 'AddIntImm', 'SubtractInt', 'SubIntImm', 'DivideInt', 'DivideIntImm', 'Modulo', 'ModuloImm']
TWIN_SLOW = ['MulInt', 'MulIntImm', 'PowerInt', 'PowerIntImm']


def run_twins(names, playback=False, timeout=600):
    sc = E.Scratch("u1k")
    try:
        with open(os.path.join(HERE, 'twin.rs')) as f:
            hsrc = f.read()
        info = vmk.build(sc.path, arms=[n for n in ARMS if n in OPSYM], harness_src=hsrc)
        res = E.run_kani(sc.path, ["vm::u1_twin::twin_" + n for n in names], timeout=timeout, jobs=12, playback=playback)
        return {n: res["vm::u1_twin::twin_" + n] for n in names}, info
    finally:
        sc.cleanup()


def py_oracle(op, a, b):
    """The C15 sentence, in exact integer arithmetic."""
    fits = lambda x: -(1 << 63) <= x < (1 << 63)
    if op in '+-*':
        x = a + b if op == '+' else a - b if op == '-' else a * b
        return str(x) if fits(x) else 'overflow'
    if op == '/':
        if b == 0:
            return 'divzero'
        q = abs(a) // abs(b)
        q = q if (a >= 0) == (b >= 0) else -q
        return str(q) if fits(q) else 'overflow'
    if op == '%':
        if b == 0:
            return 'divzero'
        return str(a % abs(b))
    if op == '^':
        if b < 0:
            return None
        if abs(a) <= 1:
            x = a ** (b % 2 + 2) if a == -1 else a ** min(b, 2) if b > 0 else 1
            return str(x)
        if b > 64:
            return 'overflow'
        x = a ** b
        return str(x) if fits(x) else 'overflow'


def lit(n):
    # avoid relying on negative-literal lexing (C30/C31): build negatives by subtraction
    if n >= 0:
        return str(n)
    if n == -(1 << 63):
        return "(0 - 9223372036854775807 - 1)"
    return "(0 - %d)" % (-n)


def replay(ob):
    """Counterexample from the Kani twin of the failed arm, replayed as an Abra program
    on the real CLI built from /repo."""
    if ob.id.endswith(".cli.operand_forms.sampled"):
        from units import clidiff
        return clidiff.standin_replay(ob)
    m = re.search(r'Instr::(\w+)', ob.function)
    if not m or m.group(1) not in OPSYM:
        return grid_replay(ob)
    name = m.group(1)
    res, _ = run_twins([name], playback=True, timeout=900)
    r = res[name]
    info = dict(twin_harness="vm::u1_twin::twin_" + name, twin_status=r['status'], twin_failed=r['failed'][:4])
    if r['status'] != E.FAILED or not r.get('playback') or len(r['playback']) < 2:
        ok, g = grid_replay(ob)
        g.update(info)
        return ok, g
    a, b = E.le_int(r['playback'][0]), E.le_int(r['playback'][1])
    op = OPSYM[name]
    info['counterexample'] = dict(a=a, b=b, op=op)
    ob.cex = info['counterexample']
    if name.endswith('Imm') and b >= 0:
        prog = "fn f(a: int) = a %s %s\nprintln(f(%s))\n" % (op, b, lit(a))
    elif name.endswith('Imm'):
        prog = "fn f(a: int) = a %s -%d\nprintln(f(%s))\n" % (op, -b, lit(a))
    else:
        prog = "fn f(a: int, b: int) = a %s b\nprintln(f(%s, %s))\n" % (op, lit(a), lit(b))
    out, err, rc = abra_cli.run_program(prog)
    got = out.strip() if rc == 0 else ('overflow' if 'overflow' in (out + err) else 'divzero' if 'division by zero' in (out + err) else 'other:' + (out + err)[:200])
    want = py_oracle(op, a, b)
    info.update(program=prog, real_output=(out + err)[:600], real_class=got, expected_class=want)
    if want is None:
        return None, info
    return (got != want), info


def grid_replay(ob):
    """No counterexample from a twin: search a grid of boundary operands for every operator
    (variable and literal operand forms) on the real CLI against the exact-arithmetic oracle."""
    MIN, MAX = -(1 << 63), (1 << 63) - 1
    vals = [0, 1, -1, 2, -2, 3, -3, 7, 10, 62, 63, 64, MAX, MIN, MIN + 1, (1 << 32), (1 << 32) + 2, 3037000500]
    cases = []
    for op in '+-*/%^':
        for a in vals:
            for b in vals:
                w = py_oracle(op, a, b)
                if w is None:
                    continue
                if op == '^' and (b > 64 and abs(a) > 1) and b < (1 << 32):
                    continue
                cases.append((op, a, b, w))
    lines = ["fn add(a: int, b: int) = a + b", "fn sub(a: int, b: int) = a - b", "fn mul(a: int, b: int) = a * b",
             "fn div(a: int, b: int) = a / b", "fn rem(a: int, b: int) = a % b", "fn pow(a: int, b: int) = a ^ b"]
    fname = {'+': 'add', '-': 'sub', '*': 'mul', '/': 'div', '%': 'rem', '^': 'pow'}
    # errors stop the program: run error cases one program each is too slow, so split: value cases in one program
    val_cases = [c for c in cases if c[3] not in ('overflow', 'divzero')]
    err_cases = [c for c in cases if c[3] in ('overflow', 'divzero')]
    prog = "\n".join(lines + ["println(%s(%s, %s))" % (fname[op], lit(a), lit(b)) for op, a, b, w in val_cases]) + "\n"
    out, err, rc = abra_cli.run_program(prog, timeout=300)
    got = out.strip().split("\n")
    for i, (op, a, b, w) in enumerate(val_cases):
        g = got[i] if i < len(got) else "<stopped: %s>" % (err.strip().split("\n")[0][:120])
        if g != w:
            ob.cex = dict(a=a, b=b, op=op)
            return True, dict(counterexample=ob.cex, real_output=g, expected=w, program="%s(%s, %s)" % (fname[op], a, b))
    import random
    rnd = random.Random(int(os.environ.get("VERIF_SEED", "0") or 0))
    for op, a, b, w in rnd.sample(err_cases, min(40, len(err_cases))):
        prog = "\n".join(lines + ["println(%s(%s, %s))" % (fname[op], lit(a), lit(b))]) + "\n"
        out, err, rc = abra_cli.run_program(prog)
        g = 'overflow' if 'overflow' in (out + err) else 'divzero' if 'division by zero' in (out + err) else (out.strip() or err.strip()[:120])
        if g != w:
            ob.cex = dict(a=a, b=b, op=op)
            return True, dict(counterexample=ob.cex, real_output=g, expected=w, program=prog)
    return None, dict(note="no failing input in a grid of %d value cases and %d sampled error cases on the real CLI" % (len(val_cases), min(40, len(err_cases))))
