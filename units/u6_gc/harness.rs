// ===== U6 GC harness (hand-written; appended inside module `vm`, so private items of the
// real vm.rs are visible).  `__N__`, `__S__`, `__U__` are substituted by units/u6_gc/__init__.py.
//
// Colour convention read off the real code (gc_visited is initialised to `true` and never
// changed): an object is MARKED in the current cycle iff `header.visited == gc_visited`;
// GREY = on `gray_stack` (always marked); BLACK = marked and not on `gray_stack`;
// WHITE = not marked.  `sweep` resets every survivor to `visited = !gc_visited`, so at Idle
// the whole heap is white.  Objects allocated while Idle are born white (`visited: false`),
// objects allocated during Marking are born marked+grey, during Sweeping born marked.
#[cfg(any(kani, test))]
pub(crate) mod u6 {
    use super::*;

    pub const N: usize = __N__; // max heap objects in an arbitrary world
    pub const SMAX: usize = __S__; // max operand-stack length in an arbitrary world

    // ------------------------------------------------------------------ views on real objects
    pub fn fields<'a>(h: *mut ObjectHeader) -> &'a [Value] {
        unsafe {
            match (*h).kind {
                ObjectKind::Struct => (&*(h as *const StructObject)).get_fields(),
                ObjectKind::Array => &(&*(h as *const ArrayObject)).data[..],
                ObjectKind::Enum => std::slice::from_ref(&(&*(h as *const EnumObject)).val),
                ObjectKind::String | ObjectKind::Channel => &[],
            }
        }
    }
    pub fn set_field(h: *mut ObjectHeader, i: usize, v: Value) {
        unsafe {
            match (*h).kind {
                ObjectKind::Struct => (&mut *(h as *mut StructObject)).get_fields_mut()[i] = v,
                ObjectKind::Array => (&mut *(h as *mut ArrayObject)).data[i] = v,
                ObjectKind::Enum => (&mut *(h as *mut EnumObject)).val = v,
                ObjectKind::String | ObjectKind::Channel => {}
            }
        }
    }
    /// the pointer Value the VM itself would build for this object (real `From` impls)
    pub fn ptr_val(h: *mut ObjectHeader) -> Value {
        unsafe {
            match (*h).kind {
                ObjectKind::Struct => Value::from(h as *mut StructObject),
                ObjectKind::Array => Value::from(h as *mut ArrayObject),
                ObjectKind::Enum => Value::from(h as *mut EnumObject),
                ObjectKind::String => Value::from(h as *mut StringObject),
                ObjectKind::Channel => Value::from(h as *mut ChannelObject),
            }
        }
    }
    pub fn tag_kind_ok(tag: ValueTag, k: ObjectKind) -> bool {
        matches!(
            (tag, k),
            (ValueTag::Struct, ObjectKind::Struct)
                | (ValueTag::Array, ObjectKind::Array)
                | (ValueTag::Variant, ObjectKind::Enum)
                | (ValueTag::String, ObjectKind::String)
        )
    }
    /// position of `p` in heap_list, or heap_list.len() if absent (pointer comparison only)
    pub fn pos(t: &VmGreenThread, p: *mut ObjectHeader) -> usize {
        let mut i = 0;
        while i < t.heap_list.len() {
            if t.heap_list[i] == p {
                return i;
            }
            i += 1;
        }
        i
    }
    pub fn is_static(t: &VmGreenThread, p: *mut ObjectHeader) -> bool {
        let mut i = 0;
        while i < t.shared.static_strings.len() {
            if t.shared.static_strings[i] as *mut ObjectHeader == p {
                return true;
            }
            i += 1;
        }
        false
    }
    pub fn marked(t: &VmGreenThread, h: *mut ObjectHeader) -> bool {
        unsafe { (*h).visited == t.gc_visited }
    }
    pub fn on_gray(t: &VmGreenThread, h: *mut ObjectHeader) -> bool {
        let mut i = 0;
        while i < t.gray_stack.len() {
            if t.gray_stack[i] == h {
                return true;
            }
            i += 1;
        }
        false
    }
    /// SAFE = "sweep will not free it in this cycle".  Idle/Marking: nothing is freed before the
    /// next Marking->Sweeping transition, so every object is safe.  Sweeping{index}: positions
    /// below `index` were already kept; from `index` on exactly the marked ones are kept.
    pub fn safe_at(t: &VmGreenThread, p: usize) -> bool {
        match t.gc_state {
            GcState::Sweeping { index } => p < index || marked(t, t.heap_list[p]),
            _ => true,
        }
    }
    /// A Value held by a root or by a safe object: scalar, or a static string, or a pointer to a
    /// live, well-typed, safe object of heap_list (and a marked one if the holder is black).
    /// Order matters: pointer comparisons first, the pointee is only read once it is known to be
    /// an element of heap_list.
    pub fn val_ok(t: &VmGreenThread, v: &Value, holder_black: bool) -> bool {
        if !v.1.is_pointer() {
            return true;
        }
        let h = v.0 as *mut ObjectHeader;
        if is_static(t, h) {
            return v.1 == ValueTag::String;
        }
        let p = pos(t, h);
        if p >= t.heap_list.len() {
            return false; // I1: dangling / foreign pointer
        }
        if !tag_kind_ok(v.1, unsafe { (*h).kind }) {
            return false; // I0
        }
        if !safe_at(t, p) {
            return false; // I4/I5: a root or a safe object points to something sweep would free
        }
        if holder_black && !marked(t, h) {
            return false; // I3
        }
        true
    }

    /// THE INVARIANT (I0..I7).  Executable, over the real thread fields.
    pub fn inv(t: &VmGreenThread) -> bool {
        let n = t.heap_list.len();
        // I7: constructors hard-code `visited: true` for "marked", the rest of the collector
        // compares with gc_visited; the two agree only because gc_visited is constantly true.
        if !t.gc_visited {
            return false;
        }
        let (marking, sweeping, idx) = match t.gc_state {
            GcState::Idle => (false, false, 0),
            GcState::Marking => (true, false, 0),
            GcState::Sweeping { index } => (false, true, index),
        };
        if sweeping && idx > n {
            return false;
        }
        // grey objects exist only while Marking
        if !marking && !t.gray_stack.is_empty() {
            return false;
        }
        // I0: heap_list has no duplicates
        let mut i = 0;
        while i < n {
            let mut j = i + 1;
            while j < n {
                if t.heap_list[i] == t.heap_list[j] {
                    return false;
                }
                j += 1;
            }
            i += 1;
        }
        // I2: gray_stack ⊆ marked ⊆ heap_list.  (write_barrier has no `no_gc` test, so a static
        // string stored into a marked object is shaded and pushed too; harmless, allowed here.)
        let mut g = 0;
        while g < t.gray_stack.len() {
            let h = t.gray_stack[g];
            if !is_static(t, h) {
                if pos(t, h) >= n {
                    return false;
                }
                if !marked(t, h) {
                    return false;
                }
            }
            g += 1;
        }
        // roots: operand stack / locals and the two string-operation registers
        let mut s = 0;
        while s < t.value_stack.len() {
            if !val_ok(t, &t.value_stack[s], false) {
                return false;
            }
            s += 1;
        }
        if !val_ok(t, &t.string_operand1, false) || !val_ok(t, &t.string_operand2, false) {
            return false;
        }
        // objects
        let mut sum: usize = 0;
        let mut p = 0;
        while p < n {
            let h = t.heap_list[p];
            let (no_gc, kind) = unsafe { ((*h).no_gc, (*h).kind) };
            if no_gc {
                return false;
            }
            if matches!(kind, ObjectKind::Channel) {
                return false; // channels are outside this unit (stated)
            }
            let m = marked(t, h);
            if !marking && !sweeping && m {
                return false; // Idle: the whole heap is white
            }
            if sweeping && p < idx && m {
                return false; // I5: survivors already passed by sweep were reset to white
            }
            sum += unsafe { (*h).nbytes() };
            if safe_at(t, p) {
                let black = marking && m && !on_gray(t, h);
                let fs = fields(h);
                let mut f = 0;
                while f < fs.len() {
                    if !val_ok(t, &fs[f], black) {
                        return false;
                    }
                    f += 1;
                }
            }
            p += 1;
        }
        // I6
        sum == t.heap_size
    }

    // ------------------------------------------------------------------ construction
    pub fn mk_shared_with(statics: Vec<String>) -> Arc<VmSharedReadonly> {
        let mut sh = VmSharedReadonly {
            program: vec![],
            int_constants: vec![],
            float_constants: vec![],
            static_strings: vec![],
            filename_table: vec![],
            lineno_table: vec![],
            function_name_table: vec![],
            filename_arena: vec![],
            function_name_arena: vec![],
            heap_size: 0,
        };
        for s in statics {
            // same two lines as Runtime::new
            let s_obj = StringObject::new_static(s, &mut sh);
            sh.static_strings.push(s_obj);
        }
        Arc::new(sh)
    }
    pub fn mk_thread(statics: Vec<String>) -> VmGreenThread {
        let (tx, _rx) = mpsc::channel();
        VmGreenThread::new(mk_shared_with(statics), tx)
    }

    /// The concrete scenario of DESIGN E11, on the real code, usable natively and under Kani:
    /// array holding one enum value on the stack; start_mark_phase; ArrayPop moves the element
    /// onto the stack; marking finishes; sweep runs to completion.
    /// Returns (popped element still in heap_list, its payload as read afterwards if still there).
    pub fn scenario_pop_during_mark(t: &mut VmGreenThread) -> (bool, Option<AbraInt>) {
        // let e = Some(41)      -- PushInt; ConstructVariant
        t.push(41 as AbraInt);
        t.construct_variant(1);
        // let arr = [e]         -- ConstructArray(1)
        t.construct_array(1);
        let arr_v = t.top();
        // a collection cycle starts here (maybe_gc from Idle when heap_size > threshold)
        t.start_mark_phase();
        // arr.pop()             -- the real lifted arm; array is a local at stack_base+0
        t.arm_ArrayPop(0x8000, 0);
        let e_v = t.top();
        let e_ptr = e_v.0 as *mut ObjectHeader;
        // collector increments with any budget that finishes the phase
        let mut guard = 0;
        while t.gc_state == GcState::Marking && guard < 8 {
            let mut b = usize::MAX;
            t.process_gray(&mut b);
            guard += 1;
        }
        guard = 0;
        while matches!(t.gc_state, GcState::Sweeping { .. }) && guard < 8 {
            t.sweep(usize::MAX);
            guard += 1;
        }
        let _ = arr_v;
        let still = pos(t, e_ptr) < t.heap_list.len();
        let payload = if still { Some(e_v.get_variant(t).val.get_int(t)) } else { None };
        (still, payload)
    }

    #[cfg(test)]
    mod native {
        use super::*;
        /// native replay of C06.gc.scenario.pop_during_mark on the real collector
        #[test]
        fn pop_during_mark_native() {
            let mut t = mk_thread(vec![]);
            let (still, payload) = scenario_pop_during_mark(&mut t);
            println!("U6-NATIVE still_in_heap_list={} payload={:?} stack_len={} heap_len={} state={:?}",
                     still, payload, t.value_stack.len(), t.heap_list.len(), t.gc_state);
            // the element is referenced by value_stack[1]
            assert!(t.value_stack.len() == 2);
            if !still {
                // make the use-after-free observable to valgrind/ASan as well
                let v = t.value_stack[1];
                let x = v.get_variant(&t).val.get_int(&t);
                println!("U6-NATIVE read-after-free payload={}", x);
            }
            std::mem::forget(t);
            assert!(still, "object referenced from value_stack was deallocated by sweep");
        }
    }

    // ================================================================== Kani only
    // Arbitrary-but-invariant worlds.  To stay inside CBMC's budget every Vec has a CONCRETE
    // length when the operation starts and every object a CONCRETE kind; what is symbolic is
    // the content of every field / stack slot / string register (scalar with arbitrary bits, or
    // a pointer to any object of the world, or the static string), every colour bit, the
    // collector state (Idle / Marking with any grey multiset / Sweeping at any index) and the
    // pacing counters.  Template T1: heap_list = [Array(len 2), Struct(2 fields), Enum(1 field)],
    // template T2: [Enum, Array(len 1), String, Struct(1 field)] ; operand stack of 3 slots.
    #[cfg(kani)]
    pub struct World {
        pub t: VmGreenThread,
        pub objs: [*mut ObjectHeader; NMAX],
        pub n: usize,
        pub stat: *mut ObjectHeader,
    }
    #[cfg(kani)]
    pub const NMAX: usize = 4;

    #[cfg(kani)]
    pub fn any_val(objs: &[*mut ObjectHeader; NMAX], n: usize, stat: *mut ObjectHeader) -> Value {
        let c: u8 = kani::any();
        if (c as usize) < n {
            ptr_val(objs[c as usize])
        } else if c == 0xfe && !stat.is_null() {
            Value::from(stat as *mut StringObject)
        } else {
            Value::from(kani::any::<AbraInt>())
        }
    }

    #[cfg(kani)]
    pub fn any_world(template: u8, with_static: bool) -> World {
        let mut t = mk_thread(if with_static { vec![String::from("s")] } else { vec![] });
        let stat: *mut ObjectHeader =
            if with_static { t.shared.static_strings[0] as *mut ObjectHeader } else { std::ptr::null_mut() };
        let z = Value::from(0 as AbraInt);
        let mut objs: [*mut ObjectHeader; NMAX] = [std::ptr::null_mut(); NMAX];
        let n;
        // real constructors, thread Idle: objects are born white and registered in heap_list
        match template {
            1 => {
                objs[0] = ArrayObject::new(vec![z, z], &mut t) as *mut ObjectHeader;
                objs[1] = StructObject::new(vec![z, z], &mut t) as *mut ObjectHeader;
                objs[2] = EnumObject::new(kani::any(), z, &mut t) as *mut ObjectHeader;
                n = 3;
            }
            2 => {
                objs[0] = EnumObject::new(kani::any(), z, &mut t) as *mut ObjectHeader;
                objs[1] = ArrayObject::new(vec![z], &mut t) as *mut ObjectHeader;
                objs[2] = StringObject::new(String::from("a"), &mut t) as *mut ObjectHeader;
                objs[3] = StructObject::new(vec![z], &mut t) as *mut ObjectHeader;
                n = 4;
            }
            3 => {
                objs[0] = ArrayObject::new(vec![z], &mut t) as *mut ObjectHeader;
                objs[1] = EnumObject::new(kani::any(), z, &mut t) as *mut ObjectHeader;
                n = 2;
            }
            4 => {
                objs[0] = ArrayObject::new(vec![z, z], &mut t) as *mut ObjectHeader;
                objs[1] = ArrayObject::new(vec![z], &mut t) as *mut ObjectHeader;
                objs[2] = ArrayObject::new(vec![z], &mut t) as *mut ObjectHeader;
                n = 3;
            }
            _ => {
                objs[0] = ArrayObject::new(vec![z], &mut t) as *mut ObjectHeader;
                objs[1] = ArrayObject::new(vec![z], &mut t) as *mut ObjectHeader;
                n = 2;
            }
        }
        let mut i = 0;
        while i < n {
            let k = fields(objs[i]).len();
            let mut f = 0;
            while f < k {
                set_field(objs[i], f, any_val(&objs, n, stat));
                f += 1;
            }
            i += 1;
        }
        t.value_stack = vec![any_val(&objs, n, stat), any_val(&objs, n, stat), any_val(&objs, n, stat)];
        t.string_operand1 = any_val(&objs, n, stat);
        t.string_operand2 = any_val(&objs, n, stat);
        i = 0;
        while i < n {
            unsafe { (*objs[i]).visited = kani::any() };
            i += 1;
        }
        t.gray_stack = Vec::with_capacity(8);
        match kani::any::<u8>() {
            0 => t.gc_state = GcState::Idle,
            1 => {
                t.gc_state = GcState::Marking;
                i = 0;
                while i < n {
                    if kani::any() {
                        t.gray_stack.push(objs[i]);
                    }
                    i += 1;
                }
                if with_static && kani::any() {
                    unsafe { (*stat).visited = true };
                    t.gray_stack.push(stat);
                }
            }
            _ => {
                let index: usize = kani::any();
                kani::assume(index <= n);
                t.gc_state = GcState::Sweeping { index };
            }
        }
        t.gc_debt = kani::any();
        t.last_gc_heap_size = kani::any();
        World { t, objs, n, stat }
    }

    // ------------------------------------------------------------------ scenario
    #[cfg(kani)]
    #[kani::proof]
    #[kani::unwind(__U__)]
    fn scenario_pop_during_mark_h() {
        let mut t = mk_thread(vec![]);
        let (still, payload) = scenario_pop_during_mark(&mut t);
        kani::cover!(true, "reachable");
        assert!(still, "U6: object referenced from value_stack must not be deallocated by sweep");
        assert!(payload == Some(41), "U6: popped element keeps its payload");
        std::mem::forget(t);
    }

    // ------------------------------------------------------------------ collector steps
    #[cfg(kani)]
    fn process_gray_body(template: u8) {
        let mut w = any_world(template, false);
        kani::assume(inv(&w.t));
        kani::assume(w.t.gc_state == GcState::Marking); // only call site: maybe_gc, Marking arm
        let mut batch: usize = kani::any();
        w.t.process_gray(&mut batch);
        kani::cover!(matches!(w.t.gc_state, GcState::Sweeping { .. }), "reachable: switched to Sweeping");
        kani::cover!(w.t.gc_state == GcState::Marking, "reachable: still Marking");
        assert!(inv(&w.t), "U6: Inv preserved by process_gray");
        std::mem::forget(w);
    }
    #[cfg(kani)]
    #[kani::proof]
    #[kani::unwind(__U__)]
    fn process_gray_preserves_inv_t1() {
        process_gray_body(1)
    }
    #[cfg(kani)]
    #[kani::proof]
    #[kani::unwind(__U__)]
    fn process_gray_preserves_inv_t3() {
        process_gray_body(3)
    }
    #[cfg(kani)]
    #[kani::proof]
    #[kani::unwind(4)]
    fn process_gray_preserves_inv_t4() {
        process_gray_body(4)
    }
    #[cfg(kani)]
    #[kani::proof]
    #[kani::unwind(4)]
    fn process_gray_preserves_inv_t5() {
        process_gray_body(5)
    }
}
