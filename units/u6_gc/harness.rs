// ===== U6 GC harness (hand-written; appended inside module `vm`, so private items of the
// real vm.rs are visible).  
//
// Colour convention read off the real code (gc_visited is initialised to `true` and never
// changed): an object is MARKED in the current cycle iff `header.visited == gc_visited`;
// GREY = on `gray_stack` (always marked); BLACK = marked and not on `gray_stack`;
// WHITE = not marked.  `sweep` resets every survivor to `visited = !gc_visited`, so at Idle
// the whole heap is white.  Objects allocated while Idle are born white (`visited: false`),
// objects allocated during Marking are born marked+grey, during Sweeping born marked.
#[cfg(any(kani, test))]
pub(crate) mod u6 {
    use super::*;


    // ------------------------------------------------------------------ views on real objects
    pub fn fields<'a>(h: *mut ObjectHeader) -> &'a [Value] {
        unsafe {
            match (*h).kind {
                ObjectKind::Struct => (&*(h as *const StructObject)).get_fields(),
                ObjectKind::Array => &(&*(h as *const ArrayObject)).data[..],
                ObjectKind::Enum => std::slice::from_ref(&(&*(h as *const EnumObject)).val),
                ObjectKind::String | ObjectKind::Channel => &[],
            }
        }
    }
    pub fn set_field(h: *mut ObjectHeader, i: usize, v: Value) {
        unsafe {
            match (*h).kind {
                ObjectKind::Struct => (&mut *(h as *mut StructObject)).get_fields_mut()[i] = v,
                ObjectKind::Array => (&mut *(h as *mut ArrayObject)).data[i] = v,
                ObjectKind::Enum => (&mut *(h as *mut EnumObject)).val = v,
                ObjectKind::String | ObjectKind::Channel => {}
            }
        }
    }
    /// Children of an object as the collector sees them: struct fields, array elements, the enum
    /// payload, and -- for a channel -- the Values sitting in its queue (process_gray marks those
    /// under the lock).  Only queues whose pointer values point into THIS thread's heap are in
    /// scope; a queue shared with another thread (pointers into a foreign heap) is C09's problem.
    pub fn nchildren(h: *mut ObjectHeader) -> usize {
        unsafe {
            match (*h).kind {
                ObjectKind::Channel => (&*(h as *const ChannelObject)).data.lock().unwrap().len(),
                _ => fields(h).len(),
            }
        }
    }
    pub fn child(h: *mut ObjectHeader, i: usize) -> Value {
        unsafe {
            match (*h).kind {
                ObjectKind::Channel => *(&*(h as *const ChannelObject)).data.lock().unwrap().iter().nth(i).unwrap(),
                _ => fields(h)[i],
            }
        }
    }
    pub fn children(h: *mut ObjectHeader) -> Vec<Value> {
        let mut v = vec![];
        let mut i = 0;
        while i < nchildren(h) {
            v.push(child(h, i));
            i += 1;
        }
        v
    }
    /// the pointer Value the VM itself would build for this object (real `From` impls)
    pub fn ptr_val(h: *mut ObjectHeader) -> Value {
        unsafe {
            match (*h).kind {
                ObjectKind::Struct => Value::from(h as *mut StructObject),
                ObjectKind::Array => Value::from(h as *mut ArrayObject),
                ObjectKind::Enum => Value::from(h as *mut EnumObject),
                ObjectKind::String => Value::from(h as *mut StringObject),
                ObjectKind::Channel => Value::from(h as *mut ChannelObject),
            }
        }
    }
    pub fn tag_kind_ok(tag: ValueTag, k: ObjectKind) -> bool {
        matches!(
            (tag, k),
            (ValueTag::Struct, ObjectKind::Struct)
                | (ValueTag::Array, ObjectKind::Array)
                | (ValueTag::Variant, ObjectKind::Enum)
                | (ValueTag::String, ObjectKind::String)
                | (ValueTag::Channel, ObjectKind::Channel)
        )
    }
    /// position of `p` in heap_list, or heap_list.len() if absent (pointer comparison only)
    pub fn pos(t: &VmGreenThread, p: *mut ObjectHeader) -> usize {
        let mut i = 0;
        while i < t.heap_list.len() {
            if t.heap_list[i] == p {
                return i;
            }
            i += 1;
        }
        i
    }
    pub fn is_static(t: &VmGreenThread, p: *mut ObjectHeader) -> bool {
        let mut i = 0;
        while i < t.shared.static_strings.len() {
            if t.shared.static_strings[i] as *mut ObjectHeader == p {
                return true;
            }
            i += 1;
        }
        false
    }
    pub fn marked(t: &VmGreenThread, h: *mut ObjectHeader) -> bool {
        unsafe { (*h).visited == t.gc_visited }
    }
    pub fn on_gray(t: &VmGreenThread, h: *mut ObjectHeader) -> bool {
        let mut i = 0;
        while i < t.gray_stack.len() {
            if t.gray_stack[i] == h {
                return true;
            }
            i += 1;
        }
        false
    }
    /// SAFE = "sweep will not free it in this cycle".  Idle/Marking: nothing is freed before the
    /// next Marking->Sweeping transition, so every object is safe.  Sweeping{index}: positions
    /// below `index` were already kept; from `index` on exactly the marked ones are kept.
    pub fn safe_at(t: &VmGreenThread, p: usize) -> bool {
        match t.gc_state {
            GcState::Sweeping { index } => p < index || marked(t, t.heap_list[p]),
            _ => true,
        }
    }
    /// A Value held by a root or by a safe object: scalar, or a static string, or a pointer to a
    /// live, well-typed, safe object of heap_list (and a marked one if the holder is black).
    /// Order matters: pointer comparisons first, the pointee is only read once it is known to be
    /// an element of heap_list.
    pub fn val_ok(t: &VmGreenThread, v: &Value, holder_black: bool) -> bool {
        if !v.1.is_pointer() {
            return true;
        }
        let h = v.0 as *mut ObjectHeader;
        if is_static(t, h) {
            return v.1 == ValueTag::String;
        }
        let p = pos(t, h);
        if p >= t.heap_list.len() {
            return false; // I1: dangling / foreign pointer
        }
        if !tag_kind_ok(v.1, unsafe { (*h).kind }) {
            return false; // I0
        }
        if !safe_at(t, p) {
            return false; // I4/I5: a root or a safe object points to something sweep would free
        }
        if holder_black && !marked(t, h) {
            return false; // I3
        }
        true
    }

    /// THE INVARIANT, in four conjuncts (so that the native enumerator can prune early with the
    /// very same code).  Executable, over the real thread fields.
    ///
    /// state_ok:  I7 gc_visited is the constant `true` the constructors hard-code;
    ///            Sweeping{index} has index <= len; grey objects exist only while Marking;
    ///            I0 heap_list has no duplicates and holds no no_gc object;
    ///            I2 gray_stack ⊆ marked ⊆ heap_list (static strings tolerated, see below);
    ///            Idle: the whole heap is white;  I5b Sweeping: positions < index are white again.
    pub fn state_ok(t: &VmGreenThread) -> bool {
        let n = t.heap_list.len();
        if !t.gc_visited {
            return false;
        }
        let (marking, sweeping, idx) = match t.gc_state {
            GcState::Idle => (false, false, 0),
            GcState::Marking => (true, false, 0),
            GcState::Sweeping { index } => (false, true, index),
        };
        if sweeping && idx > n {
            return false;
        }
        if !marking && !t.gray_stack.is_empty() {
            return false;
        }
        let mut i = 0;
        while i < n {
            let mut j = i + 1;
            while j < n {
                if t.heap_list[i] == t.heap_list[j] {
                    return false;
                }
                j += 1;
            }
            i += 1;
        }
        // (write_barrier has no `no_gc` test, so a static string stored into a marked object is
        // shaded and pushed too; process_gray treats it as a leaf; harmless, tolerated here.)
        let mut g = 0;
        while g < t.gray_stack.len() {
            let h = t.gray_stack[g];
            if !is_static(t, h) {
                if pos(t, h) >= n {
                    return false;
                }
                if !marked(t, h) {
                    return false;
                }
            }
            g += 1;
        }
        let mut p = 0;
        while p < n {
            let h = t.heap_list[p];
            let no_gc = unsafe { (*h).no_gc };
            if no_gc {
                return false;
            }
            let m = marked(t, h);
            if !marking && !sweeping && m {
                return false;
            }
            if sweeping && p < idx && m {
                return false;
            }
            p += 1;
        }
        true
    }
    /// obj_ok(p): I1+I3+I4/I5a for the object at position p: if it is SAFE, each of its children
    /// (fields / elements / payload / queued channel values) is
    /// a scalar, a static string, or a well-typed pointer to a live SAFE object -- a MARKED one
    /// if p is black (Marking, marked, not on gray_stack).  Objects sweep is about to free are
    /// unconstrained (they may point to already freed garbage; nobody reads them).
    pub fn obj_ok(t: &VmGreenThread, p: usize) -> bool {
        let h = t.heap_list[p];
        if safe_at(t, p) {
            let black = t.gc_state == GcState::Marking && marked(t, h) && !on_gray(t, h);
            let k = nchildren(h);
            let mut f = 0;
            while f < k {
                let c = child(h, f);
                if !val_ok(t, &c, black) {
                    return false;
                }
                f += 1;
            }
        }
        true
    }
    /// roots_ok: every slot of value_stack (operands and locals) and both string-operation
    /// registers hold a scalar, a static string or a well-typed pointer to a live SAFE object.
    /// NOTE: while Marking a root may be WHITE -- stack writes have no barrier -- so a correct
    /// collector must look at the roots again before it starts sweeping.
    pub fn roots_ok(t: &VmGreenThread) -> bool {
        let mut s = 0;
        while s < t.value_stack.len() {
            if !val_ok(t, &t.value_stack[s], false) {
                return false;
            }
            s += 1;
        }
        val_ok(t, &t.string_operand1, false) && val_ok(t, &t.string_operand2, false)
    }
    /// size_ok: I6 heap_size == sum of nbytes over heap_list
    pub fn size_ok(t: &VmGreenThread) -> bool {
        let mut sum: usize = 0;
        let mut p = 0;
        while p < t.heap_list.len() {
            sum += unsafe { (*t.heap_list[p]).nbytes() };
            p += 1;
        }
        sum == t.heap_size
    }
    pub fn inv(t: &VmGreenThread) -> bool {
        if !state_ok(t) {
            return false;
        }
        let mut p = 0;
        while p < t.heap_list.len() {
            if !obj_ok(t, p) {
                return false;
            }
            p += 1;
        }
        roots_ok(t) && size_ok(t)
    }

    // ------------------------------------------------------------------ construction
    pub fn mk_shared_with(statics: Vec<String>) -> Arc<VmSharedReadonly> {
        let mut sh = VmSharedReadonly {
            program: vec![],
            int_constants: vec![],
            float_constants: vec![],
            static_strings: Vec::with_capacity(2),
            filename_table: vec![],
            lineno_table: vec![],
            function_name_table: vec![],
            filename_arena: vec![],
            function_name_arena: vec![],
            heap_size: 0,
        };
        for s in statics {
            // same two lines as Runtime::new
            let s_obj = StringObject::new_static(s, &mut sh);
            sh.static_strings.push(s_obj);
        }
        Arc::new(sh)
    }
    pub fn mk_thread(statics: Vec<String>) -> VmGreenThread {
        let (tx, _rx) = mpsc::channel();
        VmGreenThread::new(mk_shared_with(statics), tx)
    }

    /// The concrete scenario of DESIGN E11, on the real code, usable natively and under Kani:
    /// array holding one enum value on the stack; start_mark_phase; ArrayPop moves the element
    /// onto the stack; marking finishes; sweep runs to completion.
    /// Returns (popped element still in heap_list, its payload as read afterwards if still there).
    pub fn scenario_pop_during_mark(t: &mut VmGreenThread) -> (bool, Option<AbraInt>) {
        // let e = Some(41)      -- PushInt; ConstructVariant
        t.push(41 as AbraInt);
        t.construct_variant(1);
        // let arr = [e]         -- ConstructArray(1)
        t.construct_array(1);
        let arr_v = t.top();
        // a collection cycle starts here (maybe_gc from Idle when heap_size > threshold)
        t.start_mark_phase();
        // arr.pop()             -- the real lifted arm; array is a local at stack_base+0
        t.arm_ArrayPop(0x8000, 0);
        let e_v = t.top();
        let e_ptr = e_v.0 as *mut ObjectHeader;
        // collector increments, budget large enough to finish each phase (the real pacing:
        // GC_STEP_FACTOR * gc_debt, and gc_debt is never reset)
        let mut b = usize::MAX;
        t.process_gray(&mut b);
        if t.gc_state == GcState::Marking {
            b = usize::MAX;
            t.process_gray(&mut b);
        }
        if t.gc_state == GcState::Marking {
            b = usize::MAX;
            t.process_gray(&mut b);
        }
        t.sweep(usize::MAX);
        t.sweep(usize::MAX);
        let _ = arr_v;
        let still = pos(t, e_ptr) < t.heap_list.len();
        let payload = if still { Some(e_v.get_variant(t).val.get_int(t)) } else { None };
        (still, payload)
    }

    /// Channel scenario (one thread): a live enum value sits in a grey, not yet scanned array;
    /// the channel has already been scanned (black); the program pops the value off the array
    /// and writes it into the channel, whose queue now holds the ONLY reference.  The write
    /// barrier of the ChannelWrite arm must shade it; the final root re-scan cannot help because
    /// the queue is not a root.  Returns (queued object still in heap_list, payload read back
    /// through ChannelRead if it is).
    pub fn scenario_channel_write_during_mark(t: &mut VmGreenThread) -> (bool, Option<AbraInt>) {
        t.pc = ProgramCounter(5);
        // let arr = [Some(41)]
        t.push(41 as AbraInt);
        t.construct_variant(1);
        t.construct_array(1);
        // let c = channel()        -- stack: [arr, c, c]
        t.arm_ConstructChannel();
        t.arm_Duplicate();
        let chan_v = t.top();
        // a cycle starts; grey stack = [arr, c] so the first increment pops the channel
        t.start_mark_phase();
        let mut b = 1; // budget 1: exactly one object (the channel) is scanned
        t.process_gray(&mut b);
        let chan_black = marked(t, chan_v.0 as *mut ObjectHeader) && !on_gray(t, chan_v.0 as *mut ObjectHeader);
        // let e = arr.pop()        -- stack: [arr, c, c, e]
        t.arm_ArrayPop(0x8000, 0);
        let e_v = t.top();
        let e_ptr = e_v.0 as *mut ObjectHeader;
        // c.write(e)               -- stack: [arr, c]; the queue holds the only reference to e
        t.arm_ChannelWrite();
        // the collector finishes the cycle
        let mut k = 0;
        while k < 3 {
            if t.gc_state == GcState::Marking {
                b = usize::MAX;
                t.process_gray(&mut b);
            }
            k += 1;
        }
        t.sweep(usize::MAX);
        t.sweep(usize::MAX);
        let still = chan_black && pos(t, e_ptr) < t.heap_list.len();
        let payload = if still {
            // c.read(): deep-copies the queued value
            t.arm_ChannelRead();
            Some(t.top().get_variant(t).val.get_int(t))
        } else {
            None
        };
        (still, payload)
    }

    /// Aliased-queue scenario (one thread): `c2` is a second channel object sharing the queue of
    /// `c` (what ChannelRead / deep_copy of a channel value creates).  c2 has been scanned
    /// (black); c and the value e are white and reachable only through a grey, unscanned array.
    /// The program pops both and writes e through c: the barrier looks at the colour of the
    /// channel OBJECT written through (c, white) and does nothing, but the queue is also reachable
    /// from the black c2.  Returns (e still in heap_list, payload read back through c2).
    pub fn scenario_channel_alias_write_during_mark(t: &mut VmGreenThread) -> (bool, Option<AbraInt>) {
        t.pc = ProgramCounter(5);
        // let c = channel(); let d = channel(); d.write(c); let c2 = d.read()
        t.arm_ConstructChannel(); // [c]
        let c_v = t.top();
        t.arm_ConstructChannel(); // [c, d]
        t.arm_Duplicate(); // [c, d, d]
        t.push(c_v); // [c, d, d, c]
        t.arm_ChannelWrite(); // [c, d]      d's queue: [c]
        t.arm_ChannelRead(); // [c, c2]      c2 = copy of c: same queue
        let c2_v = t.top();
        let shares = unsafe {
            Arc::ptr_eq(&(&*(c_v.0 as *const ChannelObject)).data, &(&*(c2_v.0 as *const ChannelObject)).data)
        };
        // let arr = [Some(41), c]   -- then keep only arr and c2 on the stack: [arr, c2]
        t.value_stack.clear();
        t.push(41 as AbraInt);
        t.construct_variant(1);
        t.push(c_v);
        t.construct_array(2);
        t.push(c2_v);
        t.stack_base = 0;
        // a cycle starts; grey stack = [arr, c2]; the first increment scans exactly c2
        t.start_mark_phase();
        let mut b = 1;
        t.process_gray(&mut b);
        let c2_black = marked(t, c2_v.0 as *mut ObjectHeader) && !on_gray(t, c2_v.0 as *mut ObjectHeader);
        // let c = arr.pop(); let e = arr.pop(); c.write(e)
        t.arm_ArrayPop(0x8000, 0); // [arr, c2, c]
        t.arm_ArrayPop(0x8000, 0); // [arr, c2, c, e]
        let e_ptr = t.top().0 as *mut ObjectHeader;
        t.arm_ChannelWrite(); // [arr, c2]   shared queue: [e]
        let mut k = 0;
        while k < 3 {
            if t.gc_state == GcState::Marking {
                b = usize::MAX;
                t.process_gray(&mut b);
            }
            k += 1;
        }
        t.sweep(usize::MAX);
        t.sweep(usize::MAX);
        let still = shares && c2_black && pos(t, e_ptr) < t.heap_list.len();
        let payload = if still {
            t.arm_ChannelRead(); // c2.read()
            Some(t.top().get_variant(t).val.get_int(t))
        } else {
            None
        };
        (still, payload)
    }

    #[cfg(test)]
    mod native {
        use super::*;
        /// native replay of C06.gc.ChannelWrite.preserves_inv / scenario.channel_write_during_mark
        #[test]
        fn chan_write_during_mark_native() {
            let mut t = mk_thread(vec![]);
            let (still, payload) = scenario_channel_write_during_mark(&mut t);
            println!("U6-NATIVE-CHAN still_in_heap_list={} payload={:?} stack_len={} heap_len={} state={:?}",
                     still, payload, t.value_stack.len(), t.heap_list.len(), t.gc_state);
            std::mem::forget(t);
            assert!(still, "object referenced only from a channel queue was deallocated by sweep");
        }
        /// native replay of C06.gc.ChannelWrite.preserves_inv.chanalias
        #[test]
        fn chan_alias_write_during_mark_native() {
            let mut t = mk_thread(vec![]);
            let (still, payload) = scenario_channel_alias_write_during_mark(&mut t);
            println!("U6-NATIVE-ALIAS still_in_heap_list={} payload={:?} stack_len={} heap_len={} state={:?}",
                     still, payload, t.value_stack.len(), t.heap_list.len(), t.gc_state);
            std::mem::forget(t);
            assert!(still, "object referenced only from a shared channel queue was deallocated by sweep");
        }
        /// native replay of C06.gc.scenario.pop_during_mark on the real collector
        #[test]
        fn pop_during_mark_native() {
            let mut t = mk_thread(vec![]);
            let (still, payload) = scenario_pop_during_mark(&mut t);
            println!("U6-NATIVE still_in_heap_list={} payload={:?} stack_len={} heap_len={} state={:?}",
                     still, payload, t.value_stack.len(), t.heap_list.len(), t.gc_state);
            // the element is referenced by value_stack[1]
            assert!(t.value_stack.len() == 2);
            if !still {
                // make the use-after-free observable to valgrind/ASan as well
                let v = t.value_stack[1];
                let x = v.get_variant(&t).val.get_int(&t);
                println!("U6-NATIVE read-after-free payload={}", x);
            }
            std::mem::forget(t);
            assert!(still, "object referenced from value_stack was deallocated by sweep");
        }
    }

    // ================================================================== Kani only
    // Arbitrary-but-invariant worlds for CBMC.  Measured limits (see __init__.py): an arbitrary
    // heap with symbolic object kinds / symbolic Vec lengths does not terminate in CBMC's
    // budget, so here every object has a CONCRETE kind and every Vec a CONCRETE length when
    // the operation starts.  Symbolic: the content of every field / stack slot / string register
    // (Int with arbitrary bits, or a pointer to any object of the world, or the static string),
    // every colour bit, the collector state, the pacing counters.  The full shape bound
    // (<= 3 objects of any kind, any grey order, any stack length) is covered by the native
    // exhaustive enumerator (exhaustive.rs) running the same `inv`.
    #[cfg(kani)]
    pub struct World {
        pub t: VmGreenThread,
        pub objs: [*mut ObjectHeader; NMAX],
        pub n: usize,
        pub stat: *mut ObjectHeader,
    }
    #[cfg(kani)]
    pub const NMAX: usize = 4;
    #[cfg(kani)]
    pub const RESERVE: usize = 12;
    pub const ANY_STATE: u8 = 255;

    /// Stand-in for Vec::push in harnesses whose vectors have pre-reserved capacity: appends
    /// exactly like push but never reallocates; exceeding the reserve is a reported FAILURE
    /// ("U6-STUB"), not an assumption.  (Vec::push on a vector of symbolic length makes CBMC
    /// explore a reallocation at every push.)
    #[cfg(kani)]
    pub fn push_nogrow<T, A: std::alloc::Allocator>(v: &mut Vec<T, A>, value: T) {
        let len = v.len();
        assert!(len < v.capacity(), "U6-STUB: pre-reserved capacity exceeded");
        unsafe {
            std::ptr::write(v.as_mut_ptr().add(len), value);
            v.set_len(len + 1);
        }
    }

    #[cfg(kani)]
    pub fn any_val(objs: &[*mut ObjectHeader; NMAX], n: usize, stat: *mut ObjectHeader) -> Value {
        let c: u8 = kani::any();
        if (c as usize) < n {
            ptr_val(objs[c as usize])
        } else if c == 0xfe && !stat.is_null() {
            Value::from(stat as *mut StringObject)
        } else {
            Value::from(kani::any::<AbraInt>())
        }
    }

    /// template 1: [Array(2), Struct(2), Enum]   template 2: [Enum, Array(1), String, Struct(1)]
    /// template 3: [Array(1), Enum] (the shape of the pop-during-mark scenario)
    /// state: 0 Idle, 1 Marking, 2 Sweeping, ANY_STATE symbolic.
    /// gray: bitmask of objects on the grey stack (in index order), or 255 = symbolic subset.
    #[cfg(kani)]
    pub fn any_world(template: u8, with_static: bool, state: u8, gray: u8) -> World {
        let mut t = mk_thread(if with_static { vec![String::from("s")] } else { vec![] });
        t.heap_list = Vec::with_capacity(RESERVE);
        t.value_stack = Vec::with_capacity(RESERVE);
        t.gray_stack = Vec::with_capacity(RESERVE);
        t.pc = ProgramCounter(5);
        let stat: *mut ObjectHeader =
            if with_static { t.shared.static_strings[0] as *mut ObjectHeader } else { std::ptr::null_mut() };
        let z = Value::from(0 as AbraInt);
        let mut objs: [*mut ObjectHeader; NMAX] = [std::ptr::null_mut(); NMAX];
        let n;
        // real constructors, thread Idle: objects are born white and registered in heap_list
        match template {
            1 => {
                objs[0] = ArrayObject::new(vec![z, z], &mut t) as *mut ObjectHeader;
                objs[1] = StructObject::new(vec![z, z], &mut t) as *mut ObjectHeader;
                objs[2] = EnumObject::new(kani::any(), z, &mut t) as *mut ObjectHeader;
                n = 3;
            }
            2 => {
                objs[0] = EnumObject::new(kani::any(), z, &mut t) as *mut ObjectHeader;
                objs[1] = ArrayObject::new(vec![z], &mut t) as *mut ObjectHeader;
                objs[2] = StringObject::new(String::from("a"), &mut t) as *mut ObjectHeader;
                objs[3] = StructObject::new(vec![z], &mut t) as *mut ObjectHeader;
                n = 4;
            }
            _ => {
                objs[0] = ArrayObject::new(vec![z], &mut t) as *mut ObjectHeader;
                objs[1] = EnumObject::new(kani::any(), z, &mut t) as *mut ObjectHeader;
                n = 2;
            }
        }
        let mut i = 0;
        while i < n {
            let k = fields(objs[i]).len();
            let mut f = 0;
            while f < k {
                set_field(objs[i], f, any_val(&objs, n, stat));
                f += 1;
            }
            i += 1;
        }
        t.value_stack.push(any_val(&objs, n, stat));
        t.value_stack.push(any_val(&objs, n, stat));
        t.value_stack.push(any_val(&objs, n, stat));
        t.string_operand1 = any_val(&objs, n, stat);
        t.string_operand2 = any_val(&objs, n, stat);
        i = 0;
        while i < n {
            unsafe { (*objs[i]).visited = kani::any() };
            i += 1;
        }
        let st = if state == ANY_STATE { kani::any::<u8>() } else { state };
        match st {
            0 => t.gc_state = GcState::Idle,
            1 => {
                t.gc_state = GcState::Marking;
                i = 0;
                while i < n {
                    let on = if gray == 255 { kani::any() } else { (gray >> i) & 1 == 1 };
                    if on {
                        t.gray_stack.push(objs[i]);
                    }
                    i += 1;
                }
                if with_static && gray == 255 && kani::any() {
                    unsafe { (*stat).visited = true };
                    t.gray_stack.push(stat);
                }
            }
            _ => {
                let index: usize = kani::any();
                kani::assume(index <= n);
                t.gc_state = GcState::Sweeping { index };
            }
        }
        t.gc_debt = kani::any();
        t.last_gc_heap_size = kani::any();
        // ASSUMPTION (pacing counters): gc_debt is never reset by the real code and is added to
        // with `+=` on every allocation, maybe_gc multiplies both counters by 2; an overflow
        // needs 2^62 bytes of cumulative allocation.  Out of scope here (a pacing matter, C07.1).
        kani::assume(t.gc_debt <= usize::MAX / 8);
        kani::assume(t.last_gc_heap_size <= usize::MAX / 8);
        World { t, objs, n, stat }
    }

    // ------------------------------------------------------------------ C06 scenario (concrete, multi-step)
    #[cfg(kani)]
    #[kani::proof]
    #[kani::unwind(5)]
    fn scenario_pop_during_mark_h() {
        let mut t = mk_thread(vec![]);
        let (still, payload) = scenario_pop_during_mark(&mut t);
        kani::cover!(true, "reachable");
        assert!(still, "U6: object referenced from value_stack must not be deallocated by sweep");
        assert!(payload == Some(41), "U6: popped element keeps its payload");
        std::mem::forget(t);
    }

    #[cfg(kani)]
    #[kani::proof]
    #[kani::unwind(5)]
    fn scenario_channel_write_during_mark_h() {
        let mut t = mk_thread(vec![]);
        let (still, payload) = scenario_channel_write_during_mark(&mut t);
        kani::cover!(true, "reachable");
        assert!(still, "U6: object referenced only from a channel queue must not be deallocated by sweep");
        assert!(payload == Some(41), "U6: value read back from the channel keeps its payload");
        std::mem::forget(t);
    }

    // ------------------------------------------------------------------ C06 collector steps (symbolic contents)
    /// one marking increment that scans exactly one grey object (budget 1: every object is
    /// larger), grey stack = [objs[g]]; contents / colours / roots symbolic
    #[cfg(kani)]
    fn process_gray_one(template: u8, g: u8) {
        let mut w = any_world(template, false, 1, 1 << g);
        kani::assume(inv(&w.t));
        let mut batch: usize = 1;
        w.t.process_gray(&mut batch);
        kani::cover!(matches!(w.t.gc_state, GcState::Sweeping { .. }), "reachable: switched to Sweeping");
        kani::cover!(w.t.gc_state == GcState::Marking, "reachable: still Marking");
        assert!(inv(&w.t), "U6: Inv preserved by process_gray");
        std::mem::forget(w);
    }
    #[cfg(kani)]
    #[kani::proof]
    #[kani::unwind(5)]
    #[kani::stub(std::vec::Vec::push, push_nogrow)]
    fn process_gray_one_array() {
        process_gray_one(3, 0)
    }
    #[cfg(kani)]
    #[kani::proof]
    #[kani::unwind(5)]
    #[kani::stub(std::vec::Vec::push, push_nogrow)]
    fn process_gray_one_enum() {
        process_gray_one(3, 1)
    }
    #[cfg(kani)]
    #[kani::proof]
    #[kani::unwind(5)]
    #[kani::stub(std::vec::Vec::push, push_nogrow)]
    fn process_gray_one_struct_t1() {
        process_gray_one(1, 1)
    }

    #[cfg(kani)]
    #[kani::proof]
    #[kani::unwind(5)]
    #[kani::stub(std::vec::Vec::push, push_nogrow)]
    fn start_mark_phase_preserves_inv() {
        let mut w = any_world(3, false, 0, 0);
        kani::assume(inv(&w.t));
        w.t.start_mark_phase();
        kani::cover!(!w.t.gray_stack.is_empty(), "reachable: some root shaded");
        assert!(w.t.gc_state == GcState::Marking);
        assert!(inv(&w.t), "U6: Inv preserved by start_mark_phase");
        std::mem::forget(w);
    }

    /// one sweep increment at a concrete index with budget 1 (exactly one object examined):
    /// Inv preserved, only an unmarked object at position >= index may go, progress.
    #[cfg(kani)]
    fn sweep_one(template: u8, index: usize) {
        let mut w = any_world(template, false, 0, 0);
        w.t.gc_state = GcState::Sweeping { index };
        kani::assume(inv(&w.t));
        let victim = w.t.heap_list[index];
        let was_marked = marked(&w.t, victim);
        let len0 = w.t.heap_list.len();
        w.t.sweep(1);
        kani::cover!(w.t.heap_list.len() < len0, "reachable: freed one");
        kani::cover!(w.t.heap_list.len() == len0, "reachable: kept one");
        assert!(inv(&w.t), "U6: Inv preserved by sweep");
        // frees only unmarked
        let gone = pos(&w.t, victim) >= w.t.heap_list.len();
        assert!(!(gone && was_marked), "U6: sweep freed a marked object");
        assert!(w.t.heap_list.len() + 1 >= len0, "U6: sweep(1) examines one object");
        // progress
        match w.t.gc_state {
            GcState::Idle => assert!(w.t.last_gc_heap_size == w.t.heap_size),
            GcState::Sweeping { index: i2 } => assert!(w.t.heap_list.len() - i2 < len0 - index, "U6: sweep made no progress"),
            GcState::Marking => assert!(false, "U6: sweep went back to Marking"),
        }
        std::mem::forget(w);
    }
    #[cfg(kani)]
    #[kani::proof]
    #[kani::unwind(5)]
    fn sweep_one_at0() {
        sweep_one(3, 0)
    }
    #[cfg(kani)]
    #[kani::proof]
    #[kani::unwind(5)]
    fn sweep_one_at1() {
        sweep_one(3, 1)
    }

    #[cfg(kani)]
    #[kani::proof]
    #[kani::unwind(5)]
    #[kani::stub(std::vec::Vec::push, push_nogrow)]
    fn write_barrier_post() {
        let mut w = any_world(3, true, ANY_STATE, 255);
        kani::assume(inv(&w.t));
        let child = any_val(&w.objs, w.n, w.stat);
        kani::assume(val_ok(&w.t, &child, false));
        let parent = w.objs[0];
        let marking = w.t.gc_state == GcState::Marking;
        let parent_marked = marked(&w.t, parent);
        let child_h = child.0 as *mut ObjectHeader;
        let child_is_obj = child.1.is_pointer() && pos(&w.t, child_h) < w.t.heap_list.len();
        let child_white = child_is_obj && !marked(&w.t, child_h);
        let glen = w.t.gray_stack.len();
        w.t.write_barrier(parent, child);
        kani::cover!(marking && parent_marked && child_white, "reachable: barrier fires");
        if marking && parent_marked && child_white {
            assert!(marked(&w.t, child_h) && on_gray(&w.t, child_h), "U6: barrier must shade the white child of a marked parent");
        } else if !child.1.is_pointer() || child_is_obj {
            assert!(w.t.gray_stack.len() == glen, "U6: barrier must not touch anything else");
        }
        assert!(inv(&w.t), "U6: Inv preserved by write_barrier");
        std::mem::forget(w);
    }

    // ------------------------------------------------------------------ C06 mutator arms (symbolic contents, fixed registers)
    #[cfg(kani)]
    #[kani::proof]
    #[kani::unwind(5)]
    #[kani::stub(std::vec::Vec::push, push_nogrow)]
    fn arm_ArrayPop_preserves_inv() {
        let mut w = any_world(3, false, ANY_STATE, 255);
        kani::assume(inv(&w.t));
        // array in local slot 0 (as in `array_pop 2 1` of real bytecode), result pushed
        w.t.stack_base = 0;
        let v = w.t.value_stack[0];
        kani::assume(v.1 == ValueTag::Array && !fields(v.0 as *mut ObjectHeader).is_empty());
        w.t.arm_ArrayPop(TOPREG, 0);
        kani::cover!(true, "reachable");
        assert!(inv(&w.t), "U6: Inv preserved by ArrayPop");
        std::mem::forget(w);
    }
    #[cfg(kani)]
    pub const TOPREG: u16 = 0x8000;
    #[cfg(kani)]
    #[kani::proof]
    #[kani::unwind(5)]
    #[kani::stub(std::vec::Vec::push, push_nogrow)]
    fn arm_SetIndex_preserves_inv() {
        let mut w = any_world(3, false, ANY_STATE, 255);
        // stack: [array, index, rvalue]; SetIndex(Top, Top)
        let idx: AbraInt = kani::any();
        w.t.value_stack[1] = Value::from(idx);
        kani::assume(inv(&w.t));
        kani::assume(w.t.value_stack[0].1 == ValueTag::Array);
        let ok = w.t.arm_SetIndex(TOPREG, TOPREG);
        kani::cover!(ok, "reachable: stored");
        assert!(inv(&w.t), "U6: Inv preserved by SetIndex");
        std::mem::forget(w);
    }
    #[cfg(kani)]
    #[kani::proof]
    #[kani::unwind(5)]
    #[kani::stub(std::vec::Vec::push, push_nogrow)]
    fn arm_ConstructVariant_preserves_inv() {
        let mut w = any_world(3, false, ANY_STATE, 255);
        kani::assume(inv(&w.t));
        w.t.arm_ConstructVariant(kani::any());
        kani::cover!(true, "reachable");
        assert!(inv(&w.t), "U6: Inv preserved by ConstructVariant (allocation in any collector state)");
        std::mem::forget(w);
    }

    // ------------------------------------------------------------------ C07
    /// Dropping a thread releases every object of heap_list exactly once with its own layout
    /// (CBMC: double-free / layout-size / leak checks) and heap_size returns to 0.  One object of
    /// each kind, the array grown by the real ArrayPush (capacity accounting), colours arbitrary.
    #[cfg(kani)]
    #[kani::proof]
    #[kani::unwind(6)]
    fn drop_thread_frees_all() {
        let mut t = mk_thread(vec![]);
        let z = Value::from(0 as AbraInt);
        let e = EnumObject::new(1, z, &mut t);
        let a = ArrayObject::new(vec![Value::from(e)], &mut t);
        let s = StringObject::new(String::from("a"), &mut t);
        let st = StructObject::new(vec![Value::from(a), Value::from(s)], &mut t);
        t.value_stack.push(Value::from(a));
        t.value_stack.push(Value::from(st));
        t.stack_base = 0;
        t.arm_ArrayPush(0, TOPREG); // array = local 0, rvalue = Top: the array grows
        unsafe {
            (*(e as *mut ObjectHeader)).visited = kani::any();
            (*(a as *mut ObjectHeader)).visited = kani::any();
            (*(s as *mut ObjectHeader)).visited = kani::any();
            (*(st as *mut ObjectHeader)).visited = kani::any();
        }
        assert!(size_ok(&t), "U6: heap_size == sum of nbytes before drop");
        kani::cover!(t.heap_list.len() == 4, "reachable");
        let mut t = std::mem::ManuallyDrop::new(t);
        unsafe { std::mem::ManuallyDrop::drop(&mut t) };
        assert!(t.heap_size == 0, "U6: heap_size returns to 0 after drop");
    }
    /// The owner of static_strings must release what StringObject::new_static leaked: shared
    /// state built with the two statements Runtime::new uses, one thread, everything dropped;
    /// nothing may stay allocated (CBMC --memory-leak-check).
    #[cfg(kani)]
    #[kani::proof]
    #[kani::unwind(4)]
    fn drop_shared_frees_static_strings() {
        let t = mk_thread(vec![String::from("s")]);
        kani::cover!(t.shared.static_strings.len() == 1, "reachable");
        drop(t);
    }
    /// control for the leak check: the same without string constants leaks nothing
    #[cfg(kani)]
    #[kani::proof]
    #[kani::unwind(4)]
    fn drop_shared_no_strings_control() {
        let t = mk_thread(vec![]);
        kani::cover!(t.shared.static_strings.len() == 0, "reachable");
        drop(t);
    }
}
