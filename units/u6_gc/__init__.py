"""U6: the incremental mark-and-sweep collector of vm.rs (C06, C07).

Method.  An executable invariant `inv(t: &VmGreenThread)` over the REAL thread fields
(harness.rs, module `vm::u6`; conjuncts state_ok / obj_ok / roots_ok / size_ok) and the
inductive step `{inv} op {inv}` for every collector step, every allocating constructor and
every mutator arm that reads or writes heap references.  Because the pre-state is arbitrary
but invariant, histories of any length and any interleaving of collector increments with
program steps are covered; only the heap SHAPE is bounded.

Two back ends run the same `inv` on the same real code (vm.rs compiled verbatim by
units/vmk, arms lifted from step()):

* native exhaustive enumeration (exhaustive.rs, module `vm::u6x`): every world of the bounded
  shape is built with the real constructors and one real operation is executed natively.
  This is the workhorse: CBMC cannot do an arbitrary symbolic heap on this code
  (measured: 3 objects x 2 fields with symbolic kinds: >13 min, killed; 2 arrays fully
  symbolic: 2.5M variables / 11M clauses, 380 s; root causes: every pointer travels through
  a u64, Vec::push on a symbolic length explores a realloc per push, a symbolic object
  pointer makes all five ObjectKind branches live).
  Channels are heap objects like the others within ONE thread (shapes `chan`, `chanalias`): a
  channel's children are the values in its queue.  Queues shared across threads are C09's subject.
* Kani/CBMC on concrete-shape worlds with symbolic contents (scalars with arbitrary bits,
  colours, collector state) -- CBMC's own dereference / double-free / layout / leak checks are
  the second oracle -- plus the concrete multi-step defect scenario and the C07 drop harnesses.
"""
import os
import re
import shutil
import subprocess
import threading
import time

import slicer as S
import engine as E
from units import vmk
import abra_cli

HERE = os.path.dirname(os.path.abspath(__file__))
UNIT = "U6-gc"
V = 'abra_core/src/vm.rs'

ARMS = ['GetField', 'SetField', 'GetIndex', 'SetIndex', 'ArrayPush', 'ArrayPop', 'ConstructStruct',
        'ConstructArray', 'ConstructVariant', 'DeconstructStruct', 'DeconstructArray',
        'DeconstructVariant', 'Duplicate', 'Pop', 'LoadOffset', 'StoreOffset', 'MakeClosure',
        'ConcatStrings', 'ConstructChannel', 'ChannelWrite', 'ChannelRead']
GC_FUNCS = ['maybe_gc', 'start_mark_phase', 'mark', 'process_gray', 'write_barrier', 'sweep']

RSS_LIMIT_KB = 12 * 1024 * 1024   # per CBMC process (2 jobs); was 6 GB while several units were developed in parallel
KANI_JOBS = 2

INV_TEXT = (
    "inv(t) = state_ok && (forall p. obj_ok(p)) && roots_ok && size_ok   [harness.rs, mod vm::u6]\n"
    "colours: MARKED <=> header.visited == gc_visited (gc_visited is constantly true); GREY = on gray_stack; "
    "BLACK = marked, not grey; WHITE = not marked.  SAFE(p) = true in Idle/Marking; in Sweeping{index}: p < index || marked.\n"
    "state_ok : gc_visited; Sweeping index <= len; gray_stack empty unless Marking; heap_list duplicate-free, no no_gc object; "
    "gray_stack subset of marked subset of heap_list (static strings tolerated); Idle => all white; Sweeping => positions < index white.\n"
    "children(p) = struct fields / array elements / enum payload / for a ChannelObject the Values in its queue (one thread: queued pointers point into this heap).\n"
    "obj_ok(p): if SAFE(p), every child is a scalar, a static string, or a well-typed pointer to a live SAFE object of heap_list, "
    "a MARKED one if p is black (tri-colour: no black->white edge).\n"
    "roots_ok : every value_stack slot and string_operand1/2 is a scalar, a static string or a well-typed pointer to a live SAFE object "
    "(a root may be white while Marking: stack writes have no barrier, so mark termination must look at the roots again).\n"
    "size_ok  : heap_size == sum of nbytes over heap_list.")

# native op -> (obligation id, props, categories that refute it, function, text)
GC_OPS = ['start_mark_phase', 'process_gray', 'sweep', 'maybe_gc', 'write_barrier']
NATIVE_ARMS = ARMS + ['push_str']


def _has_shared_drop():
    return bool(re.search(r'impl\s+Drop\s+for\s+VmSharedReadonly', S.read(V)))


def _deepcopy_array_ok():
    """Value::deep_copy's Array branch must go through get_array (C08 defect: it uses get_struct)."""
    dc = S.method(V, r'impl Value \{', 'deep_copy')
    m = re.search(r'ValueTag::Array\s*=>\s*\{(.*?)ValueTag::Variant', dc, re.S)
    return bool(m) and 'get_struct' not in m.group(1)


def build_crate(dirpath):
    with open(os.path.join(HERE, 'harness.rs')) as f:
        h = f.read()
    with open(os.path.join(HERE, 'exhaustive.rs')) as f:
        x = f.read().replace('__SHARED_HAS_DROP__', 'true' if _has_shared_drop() else 'false')
        x = x.replace('__DEEPCOPY_ARRAY_OK__', 'true' if _deepcopy_array_ok() else 'false')
    info = vmk.build(dirpath, arms=ARMS, harness_src=h + "\n" + x)
    lib = os.path.join(dirpath, "src", "lib.rs")
    with open(lib) as f:
        t = f.read()
    with open(lib, "w") as f:
        f.write("#![cfg_attr(kani, feature(allocator_api))]\n" + t)  # for the Vec::push stand-in's signature
    sha = dict(info['arm_sha'])
    for fn in GC_FUNCS:
        sha[fn] = S.sha(S.method(V, r'impl VmGreenThread \{', fn))
    sha['drop'] = S.sha(S.item(V, r'impl Drop for VmGreenThread \{'))
    sha['new_static'] = S.sha(S.method(V, r'impl StringObject \{', 'new_static'))
    info['sha'] = sha
    return info


# ------------------------------------------------------------------ native back end

def run_native(crate, env_cfg, tests=("u6x",), threads=3, timeout=900, tag="native"):
    """cargo test --release (rustc, no Kani) on the scratch crate; returns (ops, cex, raw, secs).
    ops[op] = dict(worlds, ran, fails{cat:n}, shape)."""
    env = dict(os.environ)
    env["CARGO_NET_OFFLINE"] = "true"
    env["CARGO_TARGET_DIR"] = os.path.join(crate, "target-native")
    env.update({k: str(v) for k, v in env_cfg.items()})
    t0 = time.time()
    cmd = ["timeout", str(timeout), "cargo", "test", "--release", "--offline", "--lib", "--"] + list(tests) + [
        "--nocapture", "--test-threads=%d" % threads]
    p = subprocess.run(cmd, cwd=crate, env=env, capture_output=True, text=True)
    raw = p.stdout + "\n" + p.stderr
    ops, cex = {}, {}
    for m in re.finditer(r'U6X op=(\S+) n<=(\d+) s<=(\d+) kinds=(\S+) static=(\d) worlds=(\d+) ran=(\d+) secs=([\d.]+) fails\[(.*?)\]$',
                         raw, re.M):
        fails = dict((kv.split('=')[0], int(kv.split('=')[1])) for kv in m.group(9).split() if '=' in kv)
        ops[m.group(1)] = dict(worlds=int(m.group(6)), ran=int(m.group(7)), fails=fails, secs=float(m.group(8)),
                               shape="n<=%s s<=%s kinds=%s static=%s" % m.group(2, 3, 4, 5))
    for m in re.finditer(r'U6X-CEX op=(\S+) cat=(\S+) (.*)$', raw, re.M):
        cex[(m.group(1), m.group(2))] = m.group(3)[:1800]
    return dict(ops=ops, cex=cex, raw=raw[-4000:], secs=time.time() - t0, rc=p.returncode,
                cmd="U6X_*=%s cargo test --release --offline --lib -- %s --test-threads=%d (scratch crate = vm.rs verbatim via units/vmk + harness.rs + exhaustive.rs)"
                    % (",".join("%s" % v for v in env_cfg.values()), " ".join(tests)[:80], threads))


SCENARIOS = {  # native test -> (line tag, obligation id, function, text)
    'pop_during_mark_native': ("U6-NATIVE", "C06.gc.scenario.pop_during_mark.native",
                               "start_mark_phase/process_gray/sweep + arm ArrayPop",
                               "test vm::u6::native::pop_during_mark_native: the Kani scenario compiled natively; "
                               "sweep must not deallocate the object value_stack[1] points to"),
    'chan_write_during_mark_native': ("U6-NATIVE-CHAN", "C06.gc.scenario.channel_write_during_mark.native",
                                      "start_mark_phase/process_gray/sweep + arms ConstructChannel ArrayPop ChannelWrite ChannelRead",
                                      "test vm::u6::native::chan_write_during_mark_native: array [Some(41)] and a channel on the stack; start_mark_phase; "
                                      "process_gray(1) scans exactly the channel (black); ArrayPop; ChannelWrite (queue holds the only reference); "
                                      "marking finished, sweep to Idle; the queued object must still be in heap_list and ChannelRead returns 41"),
    'chan_alias_write_during_mark_native': ("U6-NATIVE-ALIAS", "C06.gc.scenario.channel_alias_write_during_mark.native",
                                            "arm ChannelWrite (barrier keyed on the channel object, queue shared with a black copy)",
                                            "test vm::u6::native::chan_alias_write_during_mark_native: c2 = copy of channel c made by the real "
                                            "ChannelWrite+ChannelRead (same queue); c2 scanned (black); c and Some(41) popped off a grey array; "
                                            "c.write(Some(41)); marking finished, sweep; the queued object must still be in heap_list"),
}


def run_native_scenario(crate):
    """All native scenario tests; returns {test: dict(still, line)}."""
    env = dict(os.environ)
    env["CARGO_NET_OFFLINE"] = "true"
    env["CARGO_TARGET_DIR"] = os.path.join(crate, "target-native")
    p = subprocess.run(["timeout", "600", "cargo", "test", "--release", "--offline", "--lib", "--", "u6::native",
                        "--nocapture", "--test-threads=1"], cwd=crate, env=env, capture_output=True, text=True)
    raw = p.stdout + p.stderr
    out = {}
    for test, (tag, _, _, _) in SCENARIOS.items():
        m = re.search(re.escape(tag) + r' still_in_heap_list=(\w+) payload=(\S+)', raw)
        out[test] = dict(still=(m.group(1) == 'true') if m else None, line=m.group(0) if m else "", raw=raw[-1200:])
    return out


# ------------------------------------------------------------------ Kani back end (one compile, many harnesses)

def _descendant_cbmc(root_pid):
    out = subprocess.run(["ps", "-eo", "pid,ppid,rss,comm"], capture_output=True, text=True).stdout
    rows = [l.split(None, 3) for l in out.strip().split("\n")[1:]]
    kids = {}
    for r in rows:
        if len(r) == 4:
            kids.setdefault(r[1], []).append(r)
    res, stack = [], [str(root_pid)]
    while stack:
        x = stack.pop()
        for r in kids.get(x, []):
            stack.append(r[0])
            if r[3].strip() == "cbmc":
                res.append((int(r[0]), int(r[2])))
    return res


def run_kani_group(crate, harnesses, cbmc_args=(), harness_timeout=420, wall=2400, tag="a"):
    """One `cargo kani` invocation, `-j 2`, per-harness timeout, RSS watchdog (kill by pid)."""
    env = E.kani_env()
    env["CARGO_TARGET_DIR"] = os.path.join(crate, "target-kani-" + tag)
    cmd = ["timeout", str(wall), "cargo", "kani", "-Z", "function-contracts", "-Z", "stubbing", "-Z", "unstable-options"]
    for h in harnesses:
        cmd += ["--harness", h]
    cmd += ["--exact", "-j", str(KANI_JOBS), "--harness-timeout", "%ds" % harness_timeout, "--output-format", "terse"]
    if cbmc_args:
        cmd += ["--cbmc-args"] + list(cbmc_args)
    t0 = time.time()
    p = subprocess.Popen(cmd, cwd=crate, env=env, stdout=subprocess.PIPE, stderr=subprocess.STDOUT, text=True)
    killed = []
    stop = threading.Event()

    def watch():
        while not stop.wait(5):
            for pid, rss in _descendant_cbmc(p.pid):
                if rss > RSS_LIMIT_KB:
                    try:
                        os.kill(pid, 9)
                        killed.append((pid, rss))
                    except OSError:
                        pass

    th = threading.Thread(target=watch, daemon=True)
    th.start()
    raw = p.communicate()[0]
    stop.set()
    res = {h: dict(status=E.UNDECIDED, failed=[], cover=None, time_s=0.0, block="not reported by kani") for h in harnesses}
    cur = {}
    blocks = re.split(r'(?m)^(?=Thread \d+: )', raw)
    for b in blocks:
        m = re.match(r'Thread (\d+): Checking harness (\S+?)\.\.\.', b)
        if m:
            cur[m.group(1)] = m.group(2)
            continue
        m = re.match(r'Thread (\d+): *\n', b)
        if not m or m.group(1) not in cur:
            continue
        h = cur[m.group(1)]
        if h not in res:
            continue
        failed = re.findall(r'Failed Checks: ([^\n]+)', b)
        cov = re.search(r'\*\* (\d+) of (\d+) cover properties satisfied', b)
        tm = re.search(r'Verification Time: ([\d.]+)s', b)
        if "VERIFICATION:- SUCCESSFUL" in b:
            st = E.DISCHARGED
        elif "VERIFICATION:- FAILED" in b and failed:
            st = E.FAILED
        else:
            st = E.UNDECIDED
        # never an alarm for tool reasons
        if st == E.FAILED and any(("U6-STUB" in f) or ("unwinding assertion" in f) or ("not currently supported" in f) for f in failed):
            st = E.UNDECIDED
        if cov and cov.group(1) != cov.group(2):
            st = E.UNDECIDED
            failed = failed + ["vacuity: %s of %s cover properties satisfied" % cov.group(1, 2)]
        res[h] = dict(status=st, failed=failed, cover=cov.group(0) if cov else None,
                      time_s=float(tm.group(1)) if tm else 0.0, block=b[-1500:])
    if "error: could not compile" in raw or "error[E" in raw:
        raise E.Undecided("u6: kani crate does not compile\n" + raw[-3000:])
    return res, dict(wall=time.time() - t0, killed=killed, cmd=" ".join(cmd[2:]).replace(crate, "$SCRATCH"))


KANI_A_QUICK = ['scenario_pop_during_mark_h', 'scenario_channel_write_during_mark_h']
KANI_A_SLOW = ['arm_SetIndex_preserves_inv', 'sweep_one_at1', 'process_gray_one_array', 'process_gray_one_enum',
               'start_mark_phase_preserves_inv', 'sweep_one_at0', 'write_barrier_post',
               'arm_ArrayPop_preserves_inv', 'arm_ConstructVariant_preserves_inv']
# process_gray_one_struct_t1 (3-object template) exists in harness.rs but is not run: CBMC needs > 6 GB on the repaired tree
KANI_B = ['drop_thread_frees_all', 'drop_shared_frees_static_strings', 'drop_shared_no_strings_control']

KANI_OBS = {
    'scenario_pop_during_mark_h': ("C06.gc.scenario.pop_during_mark", ["C06"], "maybe_gc/start_mark_phase/process_gray/sweep + arm ArrayPop",
        "concrete multi-step scenario on a fresh thread: [Some(41)] built with construct_variant/construct_array; start_mark_phase; "
        "lifted arm ArrayPop(Top, local 0); process_gray(usize::MAX) until not Marking; sweep(usize::MAX) twice. "
        "assert: the popped element (referenced by value_stack[1]) is still in heap_list and still carries 41.", None),
    'scenario_channel_write_during_mark_h': ("C06.gc.scenario.channel_write_during_mark", ["C06"],
        "start_mark_phase/process_gray/sweep + arms ConstructChannel ArrayPop ChannelWrite ChannelRead",
        "concrete multi-step scenario, one thread: array [Some(41)] and a channel on the stack; start_mark_phase; process_gray(1) scans exactly the "
        "channel (black); lifted arms ArrayPop then ChannelWrite: the queue holds the only reference; process_gray(usize::MAX) until not Marking; "
        "sweep(usize::MAX) twice. assert: the queued object is still in heap_list and ChannelRead (deep copy) returns 41. "
        "Arc/Mutex/VecDeque are the vmk shim.", None),
    'sweep_one_at1': ("C06.gc.sweep.step_at1.kani", ["C06", "C07"], "VmGreenThread::sweep",
        "world [Array(1), Enum], contents/colours/roots symbolic, Sweeping{index:1}; assume inv; sweep(1); assert inv, "
        "only an unmarked object may be freed, len - index strictly decreases or Idle with last_gc_heap_size == heap_size",
        "heap shape fixed: [Array(len 1), Enum], stack 3 slots, budget 1"),
    'sweep_one_at0': ("C06.gc.sweep.step_at0.kani", ["C06", "C07"], "VmGreenThread::sweep",
        "as step_at1 with index 0 (swap_remove moves the last object into the hole)", "heap shape fixed: [Array(len 1), Enum], stack 3 slots, budget 1"),
    'arm_SetIndex_preserves_inv': ("C06.gc.SetIndex.preserves_inv.kani", ["C06"], "VmGreenThread::step arm Instr::SetIndex",
        "world [Array(1), Enum], any collector state / grey subset; stack [array, idx:any i64, rvalue:any]; assume inv; SetIndex(Top,Top); assert inv",
        "heap shape fixed: [Array(len 1), Enum], stack 3 slots, registers Top/Top"),
    'arm_ArrayPop_preserves_inv': ("C06.gc.ArrayPop.preserves_inv.kani", ["C06"], "VmGreenThread::step arm Instr::ArrayPop",
        "world [Array(1), Enum], any collector state; array in local 0, non-empty; ArrayPop(Top, local 0); assert inv",
        "heap shape fixed: [Array(len 1), Enum], stack 3 slots, registers Top/local0"),
    'arm_ConstructVariant_preserves_inv': ("C06.gc.ConstructVariant.preserves_inv.kani", ["C06"], "VmGreenThread::step arm Instr::ConstructVariant",
        "world [Array(1), Enum], any collector state; ConstructVariant(any tag); assert inv (objects born while Marking/Sweeping are born marked)",
        "heap shape fixed: [Array(len 1), Enum], stack 3 slots"),
    'start_mark_phase_preserves_inv': ("C06.gc.start_mark_phase.preserves_inv.kani", ["C06"], "VmGreenThread::start_mark_phase",
        "world [Array(1), Enum], Idle; assume inv; start_mark_phase; assert Marking && inv", "heap shape fixed: [Array(len 1), Enum], stack 3 slots"),
    'write_barrier_post': ("C06.gc.write_barrier.post.kani", ["C06"], "VmGreenThread::write_barrier",
        "world [Array(1), Enum] + one static string, any state; parent = the array, child any value; "
        "Marking && parent marked && child white => child marked and on gray_stack afterwards; otherwise gray_stack untouched; inv preserved",
        "heap shape fixed: [Array(len 1), Enum] + static string, stack 3 slots"),
    'process_gray_one_array': ("C06.gc.process_gray.one_array.kani", ["C06"], "VmGreenThread::process_gray",
        "world [Array(1), Enum], Marking, gray_stack = [array], budget 1 (scan exactly one object); assume inv; assert inv",
        "heap shape fixed: [Array(len 1), Enum], grey stack [array], budget 1"),
    'process_gray_one_enum': ("C06.gc.process_gray.one_enum.kani", ["C06"], "VmGreenThread::process_gray",
        "as one_array with gray_stack = [enum]", "heap shape fixed: [Array(len 1), Enum], grey stack [enum], budget 1"),
    'process_gray_one_struct_t1': ("C06.gc.process_gray.one_struct.kani", ["C06"], "VmGreenThread::process_gray",
        "world [Array(2), Struct(2), Enum], Marking, gray_stack = [struct], budget 1; assume inv; assert inv",
        "heap shape fixed: [Array(len 2), Struct(2), Enum], grey stack [struct], budget 1"),
    'drop_thread_frees_all': ("C07.drop.thread.frees_all", ["C07"], "impl Drop for VmGreenThread / ObjectHeader::dealloc",
        "thread owning one object of each kind (enum, array grown by the real ArrayPush, string, struct), colours arbitrary; "
        "heap_size == sum nbytes; drop; heap_size == 0; CBMC: no double free, dealloc layout size == allocation size, --memory-leak-check clean",
        "4 objects, one per kind except Channel"),
    'drop_shared_frees_static_strings': ("C07.drop.shared.frees_static_strings", ["C07"], "VmSharedReadonly (owner of static_strings) / StringObject::new_static",
        "shared state built with the two statements of Runtime::new (new_static + push) holding one string constant, one thread; "
        "everything dropped; CBMC --memory-leak-check: nothing may stay allocated", "one string constant, one thread"),
}


# ------------------------------------------------------------------ run

CHAN_ARMS = ['ConstructChannel', 'ChannelWrite', 'ChannelRead']
ALL_X = ["x_start_mark_phase", "x_process_gray", "x_sweep", "x_write_barrier", "x_api_push_str"] + [
    "x_arm_" + a for a in ARMS if a not in CHAN_ARMS]
CHAN_X = ("x_arm_ChannelWrite", "x_arm_ChannelRead", "x_arm_ConstructChannel", "x_process_gray", "x_sweep", "x_start_mark_phase",
          "x_write_barrier")
# set to False to keep the aliased-queue shape (whose ChannelWrite obligation FAILS on the tree with the
# object-keyed barrier: genuine defect, see proposed_fix_channel_write_shade.patch) out of the quick tier
ALIAS_SHAPE_IN_QUICK = True
N2 = ("n2", dict(U6X_N=2, U6X_S=2, U6X_KINDS=5, U6X_STATIC=0, U6X_EXACT_N=0), 600,
      "every heap of <= 2 objects over kinds {Struct(2), Array(1), Enum, Array(2), String}, <= 2 fields each, stack <= 2", ("u6x",))
CHAN = ("chan", dict(U6X_N=2, U6X_S=2, U6X_KINDSET="chan", U6X_STATIC=0, U6X_EXACT_N=0), 600,
        "every heap of <= 2 objects over kinds {Channel with 0..2 queued values, Array(1), Enum, String, Struct(1)}, stack <= 2; one thread: "
        "every queued pointer points into this thread's heap, every channel object has its own queue", ("u6x",))
ALIAS = ("chanalias", dict(U6X_N=2, U6X_S=2, U6X_KINDSET="chanalias", U6X_STATIC=0, U6X_EXACT_N=0), 600,
         "every heap of <= 2 objects over kinds {Channel with 0..2 queued values, second channel object sharing the queue of the first "
         "(as made by ChannelObject::copy), Array(1), Enum}, stack <= 2; one thread", CHAN_X)


def _native_cfgs(tier):
    """(name, env, timeout, description of the shape, test filters).  Measured (3 threads): n2 25 s; chan 14 s;
    chanalias 3 s; n3 ~25 min; n3gc ~5 min; n2all ~10 min; chanalias3 ~2 min."""
    quick = [N2, CHAN] + ([ALIAS] if ALIAS_SHAPE_IN_QUICK else [])
    if tier == "thorough":
        return quick + ([] if ALIAS_SHAPE_IN_QUICK else [ALIAS]) + [
                ("n3", dict(U6X_N=3, U6X_S=2, U6X_KINDS=3, U6X_STATIC=0, U6X_EXACT_N=1), 7200,
                 "every heap of exactly 3 objects over kinds {Struct(2), Array(1), Enum}, stack <= 2", tuple(ALL_X)),
                ("n3gc", dict(U6X_N=3, U6X_S=1, U6X_KINDS=3, U6X_STATIC=0, U6X_EXACT_N=1), 3600,
                 "every heap of exactly 3 objects over kinds {Struct(2), Array(1), Enum}, stack <= 1", ("x_maybe_gc",)),
                ("n2all", dict(U6X_N=2, U6X_S=2, U6X_KINDS=8, U6X_STATIC=1, U6X_EXACT_N=0), 3600,
                 "every heap of <= 2 objects over all 8 kinds (Struct 0/1/2 fields, Array len 0/1/2, Enum, String) + one static string, stack <= 2",
                 ("u6x",)),
                ("chanalias3", dict(U6X_N=3, U6X_S=2, U6X_KINDSET="chanalias", U6X_STATIC=0, U6X_EXACT_N=0), 3600,
                 "every heap of <= 3 objects over kinds {Channel(0..2 queued), aliasing channel, Array(1), Enum}, stack <= 2; one thread",
                 ("x_arm_ChannelWrite", "x_arm_ChannelRead", "x_arm_ConstructChannel", "x_sweep", "x_start_mark_phase"))]
    return quick


def run(tier="quick"):
    sc = E.Scratch("u6")
    obs = []
    try:
        info = build_crate(sc.path)
        sha = info['sha']
        # ---- native back end (light on memory: runs while Kani works)
        natives = {}

        def nat():
            for name, cfg, tmo, what, tests in _native_cfgs(tier):
                natives[name] = (run_native(sc.path, cfg, tests=tests, threads=3, timeout=tmo), what)
            natives['_scenario'] = (run_native_scenario(sc.path), "")

        nth = threading.Thread(target=nat)
        nth.start()
        # ---- Kani
        ka = KANI_A_QUICK + (KANI_A_SLOW if tier == "thorough" else [])
        q = lambda n: "vm::u6::" + n
        try:
            resA, metaA = run_kani_group(sc.path, [q(h) for h in ka], tag="a",
                                         harness_timeout=600 if tier == "thorough" else 420)
            resB, metaB = run_kani_group(sc.path, [q(h) for h in KANI_B], cbmc_args=["--memory-leak-check"], tag="b")
        finally:
            nth.join()
        control = resB[q('drop_shared_no_strings_control')]
        not_explored = []
        for h in ka + KANI_B:
            if h not in KANI_OBS:
                continue
            oid, props, fn, text, bounded = KANI_OBS[h]
            r = (resA if h in ka else resB)[q(h)]
            if h in KANI_A_SLOW and r['status'] == E.UNDECIDED and re.search(r'out of memory|timed out|TIMEOUT|not reported by kani', r['block'] or ""):
                # extra-depth harness of the thorough tier that hit the memory watchdog / time limit: not explored, not counted
                not_explored.append(dict(harness=h, obligation=oid, reason=(r['block'] or "").strip().split("\n")[-1][:200]))
                continue
            st, detail = r['status'], "\n".join(r['failed'][:6])
            if h in KANI_B and control['status'] != E.DISCHARGED:
                st, detail = E.UNDECIDED, "leak-check control harness (no string constants) did not pass: " + "; ".join(control['failed'])[:300]
            if st == E.UNDECIDED and not detail:
                detail = r['block'][-600:]
            obs.append(E.Obligation(oid, props, UNIT, fn, "kani/cbmc", st, detail, r['time_s'], V,
                                    sha.get(h.replace('arm_', '').split('_')[0], sha.get('sweep', '')), bounded,
                                    "harness vm::u6::%s: %s" % (h, text)))
        # ---- native obligations
        scen_all = natives['_scenario'][0]
        for test, (tag, oid, fn, text) in SCENARIOS.items():
            scen = scen_all[test]
            obs.append(E.Obligation(oid, ["C06"], UNIT, fn, "native (rustc) run of the real code",
                                    E.UNDECIDED if scen['still'] is None else (E.DISCHARGED if scen['still'] else E.FAILED),
                                    scen['line'] or scen['raw'][-400:], 0.0, V,
                                    sha['process_gray'] if 'chan' not in test else sha['ChannelWrite'], None, text))
        for name, (nr, what) in natives.items():
            if name == '_scenario':
                continue
            bound = "explicit-state, bounded heap shape: %s; every field/slot in {scalar 7, pointer to any object%s}, every colouring, " \
                    "every collector state (every ordered grey subset, every sweep index), every stack_base, every valid register, " \
                    "budgets at every threshold of the object sizes; histories unbounded (inductive step)" % (
                        what, ", static string" if nr['ops'] and 'static=1' in list(nr['ops'].values())[0]['shape'] else "")
            suffix0 = "" if name in ("n2",) else "." + name

            def mk(oid, props, fn, ops_, cats, text, shakey):
                suffix = suffix0
                is_chan_arm = any(o in CHAN_ARMS for o in ops_)
                if is_chan_arm:
                    if not name.startswith("chan"):
                        return  # channel instructions are checked on the channel shapes only
                    if name == "chan":
                        suffix = ""  # primary shape for the channel instructions
                asked = dict((c[0], c[4]) for c in _native_cfgs(tier))[name]
                if asked != ("u6x",):
                    ops_ = [o for o in ops_ if ("x_" + o) in asked or ("x_arm_" + o) in asked or ("x_api_" + o) in asked]
                    if not ops_:
                        return
                ran = sum(nr['ops'].get(o, {}).get('ran', 0) for o in ops_)
                missing = [o for o in ops_ if o not in nr['ops']]
                bad = [(o, c, nr['ops'][o]['fails'][c]) for o in ops_ if o in nr['ops'] for c in cats if nr['ops'][o]['fails'].get(c)]
                if ran == 0 and not missing and (name not in ("n2",) and not (is_chan_arm and name == "chan")):
                    return  # this secondary shape has no object kind the operation applies to
                if missing or ran == 0:
                    st, detail = E.UNDECIDED, "native enumeration produced no result for %s (rc=%s)\n%s" % (missing or ops_, nr['rc'], nr['raw'][-600:])
                elif bad:
                    st = E.FAILED
                    o, c, k = bad[0]
                    detail = "%d of %d invariant pre-states refute it (%s/%s). first: %s" % (
                        sum(b[2] for b in bad), ran, o, c, nr['cex'].get((o, c), "")[:1500])
                else:
                    st, detail = E.DISCHARGED, ""
                t = sum(nr['ops'].get(o, {}).get('secs', 0) for o in ops_)
                obs.append(E.Obligation(oid + suffix, props, UNIT, fn, "native exhaustive enumeration (rustc, real code)", st, detail, t, V,
                                        sha.get(shakey, ""), bound,
                                        "%s\n[%d pre-state x parameter combinations executed]\n%s" % (text, ran, INV_TEXT)))

            for op in ['start_mark_phase', 'process_gray', 'sweep', 'maybe_gc']:
                mk("C06.gc.%s.preserves_inv" % op, ["C06", "C07"], "VmGreenThread::" + op, [op], ['inv', 'panic', 'post'],
                   "assume inv(t) [%s]; t.%s(..); assert inv(t) and no panic" % (
                       {'start_mark_phase': 'Idle', 'process_gray': 'Marking, any budget', 'sweep': 'Sweeping, any budget',
                        'maybe_gc': 'any state, any gc_debt / last_gc_heap_size threshold case'}[op], op), op)
            mk("C06.gc.write_barrier.post", ["C06"], "VmGreenThread::write_barrier", ['write_barrier'], ['post', 'inv', 'panic'],
               "any parent object, any child value taken from a root: Marking && parent marked && child white => child marked and on gray_stack; "
               "otherwise gray_stack unchanged; inv preserved", 'write_barrier')
            mk("C06.gc.sweep.frees_only_unmarked", ["C06"], "VmGreenThread::sweep", ['sweep'], ['freed_marked'],
               "an object that was marked, or sat below index, before sweep(batch) is still in heap_list afterwards", 'sweep')
            mk("C07.gc.sweep.progress", ["C07"], "VmGreenThread::sweep", ['sweep'], ['no_progress'],
               "batch > 0 => afterwards Idle with last_gc_heap_size == heap_size, or Sweeping with len - index strictly smaller "
               "(ranking function: len - index; every object passed is either released or kept)", 'sweep')
            mk("C06.gc.no_reachable_freed", ["C06"], "maybe_gc / start_mark_phase / process_gray / sweep / write_barrier", GC_OPS, ['freed_reachable'],
               "inv(t) => after the collector step every object reachable from value_stack/string_operand1/2 (computed before the step) is still in heap_list",
               'sweep')
            mk("C06.gc.collector_steps.program_view_unchanged", ["C06"], "maybe_gc / start_mark_phase / process_gray / sweep / write_barrier", GC_OPS,
               ['view_changed'],
               "a collector step changes no stack slot, no string register and no field of any reachable object "
               "(the program behaves as with collection disabled)", 'maybe_gc')
            for a in NATIVE_ARMS:
                fn = "VmGreenThread::push_str" if a == 'push_str' else "VmGreenThread::step arm Instr::" + a
                mk("C06.gc.%s.preserves_inv" % a, ["C06", "C07"], fn, [a], ['inv', 'panic', 'post'],
                   "assume inv(t) in ANY collector state and the typing precondition of the instruction; run the lifted arm once; "
                   "assert inv(t), no panic, nothing removed from heap_list", a)
        info_out = dict(
            assumptions=vmk.ASSUMED + [
                "U6: channels are in scope within ONE thread only: every pointer in a queue points into the heap of the thread under test; "
                "a queue shared with another thread (it then holds pointers into the writer's heap, which process_gray of the reader marks and "
                "pushes on its own gray_stack) is property C09's known problem and is excluded",
                "U6: both back ends use the vmk shim for Arc/Mutex/VecDeque (Rc / RefCell / Vec FIFO, single-threaded), not std's",
                "U6: ChannelRead is run only on queue heads whose deep_copy terminates and stays inside this unit: acyclic below the value, and no array "
                "while Value::deep_copy reads arrays through get_struct (C08 defect; detected from the source text: deepcopy_array_ok=%s)" % _deepcopy_array_ok(),
                "U6: mutator arms run under their typing precondition (operand tags as the type checker guarantees; ArrayPop on a non-empty array)",
                "U6/kani: kani::assume(inv(&t)) in every inductive harness; kani::assume(gc_debt, last_gc_heap_size <= usize::MAX/8) (pacing counters are never reset; overflow needs 2^61 bytes of allocation)",
                "U6/kani: Vec::push replaced by push_nogrow (append without reallocation, capacity pre-reserved, exceeding it is reported as UNDECIDED) in the harnesses marked #[kani::stub]",
                "U6/kani: scalars are ValueTag::Int with arbitrary bits (other scalar tags behave identically for is_pointer)",
                "U6/native: scalars are the single value Int(7); budgets range over 0, 1, usize::MAX and s, s+1 for every subset sum s of the object sizes",
                "U6/native: maybe_gc run with gc_debt such that GC_STEP_FACTOR*gc_debt does not overflow",
                "U6: the step() dispatch and maybe_gc's call sites (run / run_n_steps: one maybe_gc per instruction) are read, not verified",
            ],
            trusted_base=vmk.TRUSTED + ["rustc (native enumeration; release build of the scratch crate)", "tools/slicer.py (arm lifting)",
                                        "std Vec/Box/alloc semantics"],
            checker_cmds=[metaA['cmd'], metaB['cmd']] + [v[0]['cmd'] for k, v in natives.items() if k != '_scenario'],
            notes=dict(rewrites=info['rewrites'], kani_wall_s=round(metaA['wall'] + metaB['wall'], 1),
                       kani_killed_for_rss=metaA['killed'] + metaB['killed'], thorough_not_explored=not_explored,
                       native={k: dict(secs=round(v[0]['secs'], 1),
                                       worlds=sum(o['worlds'] for o in v[0]['ops'].values()),
                                       ran=sum(o['ran'] for o in v[0]['ops'].values())) for k, v in natives.items() if k != '_scenario'},
                       leak_check_control=control['status'], shared_has_drop=_has_shared_drop(),
                       covers={h: (resA if h in ka else resB)[q(h)]['cover'] for h in ka + KANI_B}),
        )
        return obs, info_out
    finally:
        sc.cleanup()


# ------------------------------------------------------------------ replay on the real CLI

PROG_POP = """type Box = {
    v: int
}

// NLIVE boxes, all reachable from `arr` for the whole run
let arr = []
var i = 0
while i < NLIVE {
    arr.push(Box(i))
    i = i + 1
}
var j = 0
var bad = 0
while j < 20000 {
    // irregular garbage so that collection cycles start at varying instructions
    if j % 3 == 0 {
        let q = Box(j)
    }
    if j % 5 == 0 {
        let r = (j, j, j)
    }
    // an allocation immediately followed by array_pop: when that allocation starts a cycle
    // the pop runs between start_mark_phase and the end of marking
    let (g, z) = (Box(100000 + j), array_pop(arr))
    let h = Box(200000 + j)
    if z.v != NLIVE - 1 {
        bad = bad + 1
        if bad < 3 {
            println('iteration ' .. j .. ': live element popped from arr has v=' .. z.v .. ', expected ' .. (NLIVE - 1))
        }
    }
    arr.push(Box(NLIVE - 1))
    j = j + 1
}
println('bad=' .. bad)
"""


def replay_gc_cli():
    """Abra program on the real CLI: a live array element is popped while a cycle is marking and
    is later found overwritten (freed and reused) or the VM aborts."""
    tried = []
    for n in (20, 50, 200, 53, 64, 100):
        prog = PROG_POP.replace("NLIVE", str(n))
        out, err, rc = abra_cli.run_program(prog, timeout=180)
        txt = re.sub(r'\x1b\[[0-9;]*m', '', out + err)
        m = re.search(r'bad=(\d+)', txt)
        wrong = (m and int(m.group(1)) > 0)
        crashed = (rc != 0) and ("unsafe precondition" in txt or "panicked" in txt or rc < 0 or rc >= 128)
        tried.append(dict(nlive=n, rc=rc, bad=m.group(1) if m else None, head=txt[:400]))
        if wrong or crashed:
            return True, dict(program=prog, nlive=n, real_output=txt[:1200], exit_code=rc, tried=tried,
                              expected="bad=0 (every popped element was pushed with v == NLIVE-1 and is reachable from `arr`)")
    # canned programs: not reproducing says nothing about the verifier's counterexample
    return None, dict(tried=tried, program=PROG_POP)


def replay_leak_cli():
    b = abra_cli.build()
    import tempfile
    with tempfile.TemporaryDirectory(prefix="abra-replay.") as d:
        f = os.path.join(d, "main.abra")
        with open(f, "w") as fh:
            fh.write("println('hello' .. ' world')\n")
        p = subprocess.run(["timeout", "300", "valgrind", "--leak-check=full", b, "--standard-modules",
                            os.path.join(abra_cli.REPO, "modules"), f], capture_output=True, text=True)
    txt = p.stdout + p.stderr
    m = re.search(r'definitely lost: ([\d,]+) bytes in ([\d,]+) blocks', txt)
    from_static = "new_static" in txt
    lost = int(m.group(1).replace(',', '')) if m else None
    return (lost is not None and lost > 0 and from_static), dict(
        program="println('hello' .. ' world')", tool="valgrind --leak-check=full on the real CLI",
        definitely_lost=m.group(0) if m else None, allocation_site="abra_core::vm::StringObject::new_static <- Runtime::new" if from_static else None,
        tail=txt[-600:])


def replay(ob):
    if ob.id.startswith("C07.drop.shared"):
        ok, extra = replay_leak_cli()
        return (True if ok else None), extra
    if "C06" in ob.props and ("Channel" in ob.id or "channel" in ob.id):
        # the multi-step scenario on the real code, compiled natively from the current tree
        sc = E.Scratch("u6r")
        try:
            build_crate(sc.path)
            r = run_native_scenario(sc.path)
            alias = "alias" in ob.id
            s = r['chan_alias_write_during_mark_native' if alias else 'chan_write_during_mark_native']
            extra = dict(
                native_scenario=s['line'], test="vm::u6::native::" + ('chan_alias_write_during_mark_native' if alias else 'chan_write_during_mark_native'),
                steps=("c = channel(); d = channel(); d.write(c); c2 = d.read()  [c2 shares c's queue]; arr = [Some(41), c]; stack [arr, c2]; "
                       "start_mark_phase; process_gray(1) scans c2 only; arr.pop() twice; c.write(Some(41)); finish marking; sweep"
                       if alias else
                       "arr = [Some(41)]; c = channel(); stack [arr, c, c]; start_mark_phase; process_gray(1) scans the channel only; "
                       "e = arr.pop(); c.write(e); process_gray(MAX) until Sweeping; sweep(MAX); is e still in heap_list?"),
                why_not_cli=("the built-in pacing cannot produce this interleaving from an Abra program: gc_debt is never reset, so maybe_gc hands "
                             "process_gray a budget larger than the heap and marking completes in the first increment; exactly one instruction runs "
                             "between start_mark_phase and the end of marking, and the scenario needs at least two (array_pop, channel_write) after a "
                             "partial increment.  An embedder or a future pacing change can produce it; the collector code itself allows any budget."))
            if s['still'] is False:
                return True, extra
            return None, extra   # a fixed scenario: it can confirm, it cannot contradict the verifier's counterexample
        finally:
            sc.cleanup()
    if "C06" in ob.props and ("process_gray" in ob.id or "maybe_gc" in ob.id or "scenario" in ob.id or "no_reachable" in ob.id):
        ok, extra = replay_gc_cli()
        if ok:
            return True, extra
        # fall back: the scenario compiled natively from the current tree
        sc = E.Scratch("u6r")
        try:
            build_crate(sc.path)
            s = run_native_scenario(sc.path)
            extra['native_scenario'] = s['line']
            if s['still'] is False:
                return True, extra
            return None, extra   # a fixed scenario: it can confirm, it cannot contradict the verifier's counterexample
        finally:
            sc.cleanup()
    return None, dict(note="no replay recipe for this obligation")
