// Observation (NOT an obligation of this unit; cross-thread sharing of a channel queue is C09's
// subject).  Append this module to the scratch crate built by units/u6_gc (after harness.rs) and run
// `cargo test --release --lib -- u6obs --nocapture`.  On c7b185e it prints
//   OBS after B's cycle: A state=Idle e marked=true inner marked=true
//   OBS after A's cycle: e in heap_list=true its payload n in heap_list=false
// i.e. the READER thread's process_gray walks the shared queue, marks objects of the WRITER thread's
// heap (and scans them, pushing foreign pointers on its own gray_stack); the writer is Idle, so its
// "whole heap is white" invariant is broken; in the writer's next cycle the object counts as already
// marked, is never scanned, and its (new) payload is freed while reachable from the writer's stack.
#[cfg(test)]
mod u6obs {
    use super::*;
    use super::u6::*;
    #[test]
    fn cross_thread_marking() {
        // thread A owns channel c and the value e = Some(inner) with inner = Some(7)
        let mut a = mk_thread(vec![]);
        let mut b = mk_thread(vec![]);
        a.pc = ProgramCounter(5); b.pc = ProgramCounter(5);
        a.arm_ConstructChannel();                 // A: [c]
        let c_a = a.top();
        // B gets its copy of the channel, as SpawnTask does (deep_copy into the new thread)
        let c_b = c_a.deep_copy(&mut b);
        b.push(c_b);                              // B: [c_b]  (same queue)
        // A: e = Some(Some(7)); keeps e on its own stack and also writes it into the channel
        a.push(7 as AbraInt); a.construct_variant(1); a.construct_variant(1);   // A: [c, e]
        let e = a.top();
        let e_ptr = e.0 as *mut ObjectHeader;
        let inner_ptr = e.get_variant(&a).val.0 as *mut ObjectHeader;
        a.arm_Duplicate();                        // A: [c, e, e]
        let e2 = a.pop(); let e1 = a.pop(); let c = a.pop();
        a.push(e1); a.push(c); a.push(e2);        // A: [e, c, e]
        a.arm_ChannelWrite();                     // A: [e]   queue: [e] (pointer into A's heap)
        println!("OBS before: A idle, e marked={} inner marked={}", marked(&a, e_ptr), marked(&a, inner_ptr));
        // B runs a full collection cycle while the value is still queued
        b.start_mark_phase();
        let mut budget = usize::MAX; b.process_gray(&mut budget);
        let mut budget = usize::MAX; if b.gc_state == GcState::Marking { b.process_gray(&mut budget); }
        b.sweep(usize::MAX); b.sweep(usize::MAX);
        println!("OBS after B's cycle: A state={:?} e marked={} inner marked={} (A is Idle: its whole heap should be white)", a.gc_state, marked(&a, e_ptr), marked(&a, inner_ptr));
        // B reads the value (deep copy into B), so the queue is empty again
        b.arm_ChannelRead();
        // A replaces e's payload by a fresh object, then runs its own cycle: e counts as already marked, is never scanned
        a.push(9 as AbraInt); a.construct_variant(1);            // A: [e, n]
        let n = a.pop();
        let n_ptr = n.0 as *mut ObjectHeader;
        unsafe { (&mut *(e_ptr as *mut EnumObject)).val = n; }   // what SetField does for a struct; A is Idle so no barrier needed
        a.start_mark_phase();
        let mut budget = usize::MAX; a.process_gray(&mut budget);
        let mut budget = usize::MAX; if a.gc_state == GcState::Marking { a.process_gray(&mut budget); }
        a.sweep(usize::MAX); a.sweep(usize::MAX);
        println!("OBS after A's cycle: e in heap_list={} its payload n in heap_list={}  (e is on A's stack, n is e's payload)",
                 pos(&a, e_ptr) < a.heap_list.len(), pos(&a, n_ptr) < a.heap_list.len());
        std::mem::forget(a); std::mem::forget(b);
    }
}
