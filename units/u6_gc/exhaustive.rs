// ===== U6 native exhaustive enumerator (hand-written; appended inside module `vm`).
// Explicit-state check of the inductive step `{Inv} op {Inv}` on the REAL collector and the REAL
// lifted arms, compiled natively: every world of the bounded shape (<= U6X_N objects of the
// configured kinds, every field / stack slot / string register ranging over {scalar, pointer to
// any object, static string}, every colouring, every collector state incl. every ordered grey
// subset and every sweep index, every stack_base) that satisfies Inv is built with the real
// constructors, ONE real operation runs (with every relevant parameter value: registers,
// budgets at every threshold), and Inv / the frame conditions are checked on the real result.
// Same `inv` code as the Kani harnesses (module u6).  `__SHARED_HAS_DROP__` is substituted.
#[cfg(test)]
pub(crate) mod u6x {
    use super::u6::*;
    use super::*;
    use std::collections::BTreeMap;
    use std::panic::{AssertUnwindSafe, catch_unwind};

    const SHARED_HAS_DROP: bool = __SHARED_HAS_DROP__;
    /// false while Value::deep_copy reads arrays through get_struct (C08 defect): ChannelRead of a
    /// value that contains an array is then outside this unit
    const DEEPCOPY_ARRAY_OK: bool = __DEEPCOPY_ARRAY_OK__;

    // ------------------------------------------------------------------ odometer
    pub struct Odo {
        d: Vec<(u32, u32)>,
        pos: usize,
    }
    impl Odo {
        pub fn new() -> Self {
            Odo { d: vec![], pos: 0 }
        }
        pub fn pick(&mut self, k: usize) -> usize {
            assert!(k > 0);
            if self.pos < self.d.len() {
                let v = self.d[self.pos].0;
                self.pos += 1;
                v as usize
            } else {
                self.d.push((0, k as u32));
                self.pos += 1;
                0
            }
        }
        pub fn next(&mut self) -> bool {
            self.d.truncate(self.pos);
            while let Some((v, k)) = self.d.pop() {
                if v + 1 < k {
                    self.d.push((v + 1, k));
                    self.pos = 0;
                    return true;
                }
            }
            false
        }
    }

    // ------------------------------------------------------------------ configuration
    #[derive(Clone, Copy, PartialEq, Debug)]
    pub enum K {
        Struct2,
        Array2,
        Array1,
        Enum,
        Str,
        Struct1,
        Array0,
        Struct0,
        /// channel with its own queue of 0..=2 values
        Chan,
        /// channel object sharing the queue of an earlier channel of the world (what
        /// ChannelObject::copy / deep_copy of a channel value creates)
        ChanAlias,
    }
    pub struct Cfg {
        pub n: usize,
        pub s: usize,
        pub kinds: Vec<K>,
        pub with_static: bool,
        pub exact_n: bool,
        pub kindset: String,
    }
    fn env_usize(k: &str, d: usize) -> usize {
        std::env::var(k).ok().and_then(|v| v.parse().ok()).unwrap_or(d)
    }
    pub fn cfg() -> Cfg {
        let all = [K::Struct2, K::Array1, K::Enum, K::Array2, K::Str, K::Struct1, K::Array0, K::Struct0];
        let nk = env_usize("U6X_KINDS", 5).min(all.len());
        let kindset = std::env::var("U6X_KINDSET").unwrap_or_default();
        let kinds: Vec<K> = match kindset.as_str() {
            // dedicated channel shapes (one thread; every queued pointer points into this heap)
            "chan" => vec![K::Chan, K::Array1, K::Enum, K::Str, K::Struct1],
            "chanalias" => vec![K::Chan, K::ChanAlias, K::Array1, K::Enum],
            _ => all[..nk].to_vec(),
        };
        Cfg {
            n: env_usize("U6X_N", 2),
            s: env_usize("U6X_S", 2),
            kinds,
            with_static: env_usize("U6X_STATIC", 0) != 0,
            exact_n: env_usize("U6X_EXACT_N", 0) != 0,
            kindset,
        }
    }

    pub struct W {
        pub t: Option<VmGreenThread>,
        pub objs: Vec<*mut ObjectHeader>,
        pub stat: *mut ObjectHeader,
    }
    impl W {
        pub fn t(&mut self) -> &mut VmGreenThread {
            self.t.as_mut().unwrap()
        }
        pub fn tr(&self) -> &VmGreenThread {
            self.t.as_ref().unwrap()
        }
    }
    impl Drop for W {
        fn drop(&mut self) {
            // real Drop for VmGreenThread releases heap_list
            self.t = None;
            if !self.stat.is_null() && !SHARED_HAS_DROP {
                // the unchanged tree leaks static strings (C07 finding); release by hand so that
                // millions of worlds do not accumulate
                unsafe { drop(Box::from_raw(self.stat as *mut StringObject)) };
            }
        }
    }

    fn mk_obj(k: K, t: &mut VmGreenThread) -> *mut ObjectHeader {
        let z = Value::from(0 as AbraInt);
        match k {
            K::Struct2 => StructObject::new(vec![z, z], t) as *mut ObjectHeader,
            K::Struct1 => StructObject::new(vec![z], t) as *mut ObjectHeader,
            K::Struct0 => StructObject::new(vec![], t) as *mut ObjectHeader,
            K::Array2 => ArrayObject::new(vec![z, z], t) as *mut ObjectHeader,
            K::Array1 => ArrayObject::new(vec![z], t) as *mut ObjectHeader,
            K::Array0 => ArrayObject::new(vec![], t) as *mut ObjectHeader,
            K::Enum => EnumObject::new(3, z, t) as *mut ObjectHeader,
            K::Str => StringObject::new(String::from("a"), t) as *mut ObjectHeader,
            K::Chan | K::ChanAlias => ChannelObject::new(t) as *mut ObjectHeader,
        }
    }
    pub const SCALAR: AbraInt = 7;
    /// value choice c: 0..n -> pointer to object c; n -> scalar; n+1 -> static string
    fn val_choice(w: &W, c: usize) -> Value {
        if c < w.objs.len() {
            ptr_val(w.objs[c])
        } else if c == w.objs.len() {
            Value::from(SCALAR)
        } else {
            Value::from(w.stat as *mut StringObject)
        }
    }
    fn nchoices(w: &W) -> usize {
        w.objs.len() + 1 + if w.stat.is_null() { 0 } else { 1 }
    }
    fn nth_perm(items: &[*mut ObjectHeader], mut k: usize) -> Vec<*mut ObjectHeader> {
        let mut pool = items.to_vec();
        let mut out = vec![];
        let mut f: usize = (1..=pool.len()).product();
        while !pool.is_empty() {
            f /= pool.len();
            let i = k / f;
            k %= f;
            out.push(pool.remove(i));
        }
        out
    }

    /// Build one world from the odometer, pruning with the conjuncts of Inv as soon as they are
    /// decided.  `states`: admissible collector states (0 Idle, 1 Marking, 2 Sweeping).
    pub fn build(o: &mut Odo, c: &Cfg, states: &[u8]) -> Option<W> {
        let n = if c.exact_n { c.n } else { o.pick(c.n + 1) };
        let mut kinds = vec![];
        for _ in 0..n {
            kinds.push(c.kinds[o.pick(c.kinds.len())]);
        }
        let mut t = mk_thread(if c.with_static { vec![String::from("s")] } else { vec![] });
        t.pc = ProgramCounter(5);
        let stat: *mut ObjectHeader =
            if c.with_static { t.shared.static_strings[0] as *mut ObjectHeader } else { std::ptr::null_mut() };
        let mut w = W { t: None, objs: vec![], stat };
        for (i, k) in kinds.iter().enumerate() {
            let h = if *k == K::ChanAlias {
                // share the queue of an earlier channel (real ChannelObject::new_with_data, as copy() does)
                let owners: Vec<usize> = (0..i).filter(|j| kinds[*j] == K::Chan).collect();
                if owners.is_empty() {
                    return None;
                }
                let j = owners[o.pick(owners.len())];
                let data = unsafe { (&*(w.objs[j] as *const ChannelObject)).data.clone() };
                ChannelObject::new_with_data(&mut t, data) as *mut ObjectHeader
            } else {
                mk_obj(*k, &mut t)
            };
            w.objs.push(h);
        }
        w.t = Some(t);
        // collector state, colours, grey stack
        let st = states[o.pick(states.len())];
        for i in 0..n {
            let m = o.pick(2) == 1;
            unsafe { (*w.objs[i]).visited = m };
        }
        match st {
            0 => w.t().gc_state = GcState::Idle,
            1 => {
                w.t().gc_state = GcState::Marking;
                let mut sub = vec![];
                for i in 0..n {
                    if o.pick(2) == 1 {
                        sub.push(w.objs[i]);
                    }
                }
                let nperm: usize = (1..=sub.len()).product();
                let order = if nperm > 1 { o.pick(nperm) } else { 0 };
                let mut g = nth_perm(&sub, order);
                if c.with_static && o.pick(2) == 1 {
                    unsafe { (*stat).visited = true };
                    let at = o.pick(g.len() + 1);
                    g.insert(at, stat);
                }
                w.t().gray_stack = g;
            }
            _ => {
                let index = o.pick(n + 1);
                w.t().gc_state = GcState::Sweeping { index };
            }
        }
        if !state_ok(w.tr()) {
            return None;
        }
        // fields, object by object
        let nc = nchoices(&w);
        for i in 0..n {
            if kinds[i] == K::Chan {
                let q = o.pick(3);
                for _ in 0..q {
                    let v = val_choice(&w, o.pick(nc));
                    unsafe { (&*(w.objs[i] as *const ChannelObject)).write_value(v) };
                }
            } else if kinds[i] != K::ChanAlias {
                let k = fields(w.objs[i]).len();
                for f in 0..k {
                    let v = val_choice(&w, o.pick(nc));
                    set_field(w.objs[i], f, v);
                }
            }
            if !obj_ok(w.tr(), i) {
                return None;
            }
        }
        // an alias was checked against a queue that may have been filled after it: check again
        for i in 0..n {
            if !obj_ok(w.tr(), i) {
                return None;
            }
        }
        // operand stack / locals
        let sl = o.pick(c.s + 1);
        for _ in 0..sl {
            let v = val_choice(&w, o.pick(nc));
            if !val_ok(w.tr(), &v, false) {
                return None;
            }
            w.t().value_stack.push(v);
        }
        let base = o.pick(sl + 1);
        w.t().stack_base = base;
        // string-operation registers: scalar (initial value) or any string
        let mut sc: Vec<Value> = vec![Value::from(0 as AbraInt)];
        for i in 0..n {
            if kinds[i] == K::Str {
                sc.push(ptr_val(w.objs[i]));
            }
        }
        if c.with_static {
            sc.push(Value::from(stat as *mut StringObject));
        }
        let v1 = sc[o.pick(sc.len())];
        let v2 = sc[o.pick(sc.len())];
        if !val_ok(w.tr(), &v1, false) || !val_ok(w.tr(), &v2, false) {
            return None;
        }
        w.t().string_operand1 = v1;
        w.t().string_operand2 = v2;
        if !inv(w.tr()) {
            // cannot happen: all conjuncts were checked; counted by the caller as a builder bug
            panic!("U6X builder produced a non-invariant world");
        }
        Some(w)
    }

    // ------------------------------------------------------------------ description (counterexamples)
    fn vname(w: &W, v: &Value) -> String {
        if !v.1.is_pointer() {
            return format!("{}", v.0 as i64);
        }
        let h = v.0 as *mut ObjectHeader;
        if h == w.stat {
            return "S".into();
        }
        match w.objs.iter().position(|&x| x == h) {
            Some(i) => format!("o{}", i),
            None => "?".into(),
        }
    }
    pub fn describe(w: &W) -> String {
        let t = w.tr();
        let mut s = format!("state={:?} heap_list=[", t.gc_state);
        for &h in &t.heap_list {
            let i = w.objs.iter().position(|&x| x == h);
            let name = i.map(|i| format!("o{}", i)).unwrap_or("new".into());
            let kind = match unsafe { (*h).kind } {
                ObjectKind::Struct => "struct",
                ObjectKind::Array => "array",
                ObjectKind::Enum => "enum",
                ObjectKind::String => "string",
                ObjectKind::Channel => "channel",
            };
            let col = if !marked(t, h) {
                "white"
            } else if on_gray(t, h) {
                "grey"
            } else {
                "marked"
            };
            let fs: Vec<String> = children(h).iter().map(|v| vname(w, v)).collect();
            s += &format!("{}:{}:{}({}) ", name, kind, col, fs.join(","));
        }
        let freed: Vec<String> = w
            .objs
            .iter()
            .enumerate()
            .filter(|(_, h)| pos(t, **h) >= t.heap_list.len())
            .map(|(i, _)| format!("o{}", i))
            .collect();
        let gs: Vec<String> = t.gray_stack.iter().map(|&h| vname(w, &Value(h as u64, ValueTag::String))).collect();
        let st: Vec<String> = t.value_stack.iter().map(|v| vname(w, v)).collect();
        s += &format!(
            "] freed=[{}] gray=[{}] stack=[{}] base={} strop=({},{}) heap_size={}",
            freed.join(","),
            gs.join(","),
            st.join(","),
            t.stack_base,
            vname(w, &t.string_operand1),
            vname(w, &t.string_operand2),
            t.heap_size
        );
        s
    }

    // ------------------------------------------------------------------ statistics / driver
    #[derive(Default)]
    pub struct Stats {
        pub worlds: u64,
        pub ran: u64,
        pub fails: BTreeMap<&'static str, u64>,
        pub cex: BTreeMap<&'static str, Vec<(u32, u32)>>,
    }
    pub fn enumerate(name: &str, states: &[u8], op: &dyn Fn(&mut W, &mut Odo) -> Option<Vec<&'static str>>) -> Stats {
        std::panic::set_hook(Box::new(|_| {}));
        let c = cfg();
        let mut st = Stats::default();
        let mut o = Odo::new();
        let t0 = std::time::Instant::now();
        loop {
            o.pos = 0;
            if let Some(mut w) = build(&mut o, &c, states) {
                st.worlds += 1;
                if let Some(f) = op(&mut w, &mut o) {
                    st.ran += 1;
                    for cat in f {
                        *st.fails.entry(cat).or_insert(0) += 1;
                        st.cex.entry(cat).or_insert_with(|| o.d[..o.pos].to_vec());
                    }
                }
            }
            if !o.next() {
                break;
            }
        }
        let _ = std::panic::take_hook();
        let fl: Vec<String> = st.fails.iter().map(|(k, v)| format!("{}={}", k, v)).collect();
        println!(
            "U6X op={} n<={} s<={} kinds={} static={} worlds={} ran={} secs={:.1} fails[{}]",
            name,
            c.n,
            c.s,
            if c.kindset.is_empty() { c.kinds.len().to_string() } else { c.kindset.clone() },
            c.with_static as u8,
            st.worlds,
            st.ran,
            t0.elapsed().as_secs_f64(),
            fl.join(" ")
        );
        // replay the first counterexample of each category with a description of pre and post
        for (cat, digits) in &st.cex {
            let mut o2 = Odo { d: digits.clone(), pos: 0 };
            if let Some(mut w) = build(&mut o2, &c, states) {
                let pre = describe(&w);
                std::panic::set_hook(Box::new(|_| {}));
                let r = op(&mut w, &mut o2);
                let _ = std::panic::take_hook();
                let params: Vec<String> = digits[..].iter().map(|d| d.0.to_string()).collect();
                println!(
                    "U6X-CEX op={} cat={} PRE {} || POST {} || result={:?} picks={}",
                    name,
                    cat,
                    pre,
                    describe(&w),
                    r,
                    params.join(".")
                );
            }
        }
        st
    }

    // ------------------------------------------------------------------ frame snapshots for collector steps
    pub struct Snap {
        reach: Vec<bool>,
        flds: Vec<Vec<Value>>,
        stack: Vec<Value>,
        ops: (Value, Value),
        premarked: Vec<bool>,
        prepos: Vec<usize>,
        idx: Option<usize>,
        len: usize,
    }
    fn obj_index(w: &W, v: &Value) -> Option<usize> {
        if !v.1.is_pointer() {
            return None;
        }
        let h = v.0 as *mut ObjectHeader;
        w.objs.iter().position(|&x| x == h)
    }
    pub fn snap(w: &W) -> Snap {
        let t = w.tr();
        let n = w.objs.len();
        let mut reach = vec![false; n];
        let mut work: Vec<usize> = vec![];
        let mut roots: Vec<Value> = t.value_stack.clone();
        roots.push(t.string_operand1);
        roots.push(t.string_operand2);
        for v in &roots {
            if let Some(i) = obj_index(w, v) {
                if !reach[i] {
                    reach[i] = true;
                    work.push(i);
                }
            }
        }
        while let Some(i) = work.pop() {
            for v in &children(w.objs[i]) {
                if let Some(j) = obj_index(w, v) {
                    if !reach[j] {
                        reach[j] = true;
                        work.push(j);
                    }
                }
            }
        }
        Snap {
            reach,
            flds: w.objs.iter().map(|&h| children(h)).collect(),
            stack: t.value_stack.clone(),
            ops: (t.string_operand1, t.string_operand2),
            premarked: w.objs.iter().map(|&h| marked(t, h)).collect(),
            prepos: w.objs.iter().map(|&h| pos(t, h)).collect(),
            idx: if let GcState::Sweeping { index } = t.gc_state { Some(index) } else { None },
            len: t.heap_list.len(),
        }
    }
    /// collector steps must be invisible to the program: nothing reachable is freed, no field of a
    /// reachable object and no stack slot / string register changes
    pub fn post_gc(w: &W, s: &Snap, fails: &mut Vec<&'static str>) {
        let t = w.tr();
        for i in 0..w.objs.len() {
            if s.reach[i] {
                if pos(t, w.objs[i]) >= t.heap_list.len() {
                    fails.push("freed_reachable");
                } else if children(w.objs[i]) != s.flds[i] {
                    fails.push("view_changed");
                }
            }
        }
        if t.value_stack != s.stack || t.string_operand1 != s.ops.0 || t.string_operand2 != s.ops.1 {
            fails.push("view_changed");
        }
    }
    fn budgets(w: &W) -> Vec<usize> {
        let t = w.tr();
        let sizes: Vec<usize> = t.heap_list.iter().map(|&h| unsafe { (*h).nbytes() }).collect();
        let mut out = vec![0usize, 1, usize::MAX];
        for m in 0..(1usize << sizes.len()) {
            let mut s = 0;
            for (i, z) in sizes.iter().enumerate() {
                if m >> i & 1 == 1 {
                    s += z;
                }
            }
            out.push(s);
            out.push(s + 1);
        }
        out.sort();
        out.dedup();
        out
    }
    fn guarded(f: impl FnOnce()) -> bool {
        catch_unwind(AssertUnwindSafe(f)).is_ok()
    }
    fn finish(w: &W, ok: bool, mut fails: Vec<&'static str>) -> Option<Vec<&'static str>> {
        if !ok {
            fails.push("panic");
        } else if !inv(w.tr()) {
            fails.push("inv");
        }
        Some(fails)
    }

    // ------------------------------------------------------------------ collector steps
    #[test]
    fn x_start_mark_phase() {
        enumerate("start_mark_phase", &[0], &|w, _o| {
            let s = snap(w);
            let ok = guarded(|| w.t().start_mark_phase());
            let mut f = vec![];
            post_gc(w, &s, &mut f);
            if w.tr().gc_state != GcState::Marking {
                f.push("post");
            }
            finish(w, ok, f)
        });
    }
    #[test]
    fn x_process_gray() {
        enumerate("process_gray", &[1], &|w, o| {
            let bs = budgets(w);
            let mut batch = bs[o.pick(bs.len())];
            let s = snap(w);
            let ok = guarded(|| w.t().process_gray(&mut batch));
            let mut f = vec![];
            post_gc(w, &s, &mut f);
            if w.tr().heap_list.len() != s.len {
                f.push("post");
            }
            finish(w, ok, f)
        });
    }
    #[test]
    fn x_sweep() {
        enumerate("sweep", &[2], &|w, o| {
            let bs = budgets(w);
            let batch = bs[o.pick(bs.len())];
            let s = snap(w);
            let ok = guarded(|| w.t().sweep(batch));
            let mut f = vec![];
            post_gc(w, &s, &mut f);
            let t = w.tr();
            let idx = s.idx.unwrap();
            // frees only unmarked objects at positions >= index
            for i in 0..w.objs.len() {
                let gone = pos(t, w.objs[i]) >= t.heap_list.len();
                if gone && (s.prepos[i] < idx || s.premarked[i]) {
                    f.push("freed_marked");
                }
            }
            // progress: Idle reached, or the distance len - index strictly decreased
            if batch > 0 {
                match t.gc_state {
                    GcState::Idle => {
                        if t.last_gc_heap_size != t.heap_size {
                            f.push("no_progress");
                        }
                    }
                    GcState::Sweeping { index } => {
                        if !(t.heap_list.len() - index < s.len - idx) {
                            f.push("no_progress");
                        }
                    }
                    GcState::Marking => f.push("no_progress"),
                }
            }
            finish(w, ok, f)
        });
    }
    #[test]
    fn x_maybe_gc() {
        enumerate("maybe_gc", &[0, 1, 2], &|w, o| {
            let bs = budgets(w);
            let b = bs[o.pick(bs.len())];
            // maybe_gc hands GC_STEP_FACTOR * gc_debt to the step; debt such that the product is
            // just below / at / above each threshold.  ASSUMPTION: no usize overflow of the product.
            let debt = match o.pick(2) {
                0 => b / GC_STEP_FACTOR,
                _ => (b / GC_STEP_FACTOR).saturating_add(1).min(usize::MAX / GC_STEP_FACTOR),
            };
            w.t().gc_debt = debt;
            let hs = w.tr().heap_size;
            w.t().last_gc_heap_size = match o.pick(3) {
                0 => 0,
                1 => hs / GC_PAUSE_FACTOR,
                _ => hs,
            };
            let s = snap(w);
            let ok = guarded(|| w.t().maybe_gc());
            let mut f = vec![];
            post_gc(w, &s, &mut f);
            finish(w, ok, f)
        });
    }
    #[test]
    fn x_write_barrier() {
        enumerate("write_barrier", &[0, 1, 2], &|w, o| {
            if w.objs.is_empty() {
                return None;
            }
            let pi = o.pick(w.objs.len());
            let child = val_choice(w, o.pick(nchoices(w)));
            if !val_ok(w.tr(), &child, false) {
                return None; // the arms only pass values taken from the stack
            }
            let parent = w.objs[pi];
            let s = snap(w);
            let pre_gray = w.tr().gray_stack.clone();
            let marking = w.tr().gc_state == GcState::Marking;
            let ok = guarded(|| w.t().write_barrier(parent, child));
            let mut f = vec![];
            post_gc(w, &s, &mut f);
            let t = w.tr();
            let must_shade = marking
                && s.premarked[pi]
                && child.1.is_pointer()
                && obj_index(w, &child).map(|c| !s.premarked[c]).unwrap_or(false);
            if must_shade {
                let c = w.objs[obj_index(w, &child).unwrap()];
                if !(marked(t, c) && on_gray(t, c)) {
                    f.push("post");
                }
            } else if obj_index(w, &child).is_some() || !child.1.is_pointer() {
                if t.gray_stack != pre_gray {
                    f.push("post");
                }
            }
            finish(w, ok, f)
        });
    }

    // ------------------------------------------------------------------ mutator arms
    const TOP: u16 = 0x8000;
    fn enc(off: isize) -> u16 {
        (off as i16 as u16) & 0x7fff
    }
    /// every register that denotes an existing slot: Top, or base-relative offset of any slot
    fn regs(len: usize, base: usize) -> Vec<u16> {
        let mut r = vec![];
        if len > 0 {
            r.push(TOP);
        }
        for i in 0..len {
            r.push(enc(i as isize - base as isize));
        }
        r
    }
    /// mirror of load_offset_or_top on a copy of the stack (used only to decide whether the
    /// typing precondition of an arm holds; the arm itself runs on the real thread)
    fn sim_load(st: &mut Vec<Value>, base: usize, arg: u16) -> Option<(Value, usize)> {
        if arg & TOP != 0 {
            let i = st.len().checked_sub(1)?;
            let v = st.pop()?;
            Some((v, i))
        } else {
            let off = ((arg << 1) as i16 >> 1) as isize;
            let i = base.wrapping_add_signed(off);
            st.get(i).map(|v| (*v, i))
        }
    }
    fn sim_store_ok(len: usize, base: usize, arg: u16) -> bool {
        if arg & TOP != 0 {
            true
        } else {
            let off = ((arg << 1) as i16 >> 1) as isize;
            base.wrapping_add_signed(off) < len
        }
    }
    fn pick_reg(o: &mut Odo, len: usize, base: usize) -> Option<u16> {
        let r = regs(len, base);
        if r.is_empty() {
            return None;
        }
        Some(r[o.pick(r.len())])
    }
    fn pick_dest(o: &mut Odo, len: usize, base: usize) -> u16 {
        let mut r = vec![TOP];
        for i in 0..len {
            r.push(enc(i as isize - base as isize));
        }
        r[o.pick(r.len())]
    }
    fn arm(name: &'static str, states: &[u8], f: &dyn Fn(&mut W, &mut Odo) -> Option<Box<dyn FnOnce(&mut VmGreenThread) -> bool>>) {
        enumerate(name, states, &|w, o| {
            let run = f(w, o)?;
            let pre_len = w.tr().heap_list.len();
            let pre: Vec<*mut ObjectHeader> = w.tr().heap_list.clone();
            let ok = guarded(|| {
                run(w.t());
            });
            let mut fails = vec![];
            // a program step never frees anything
            let t = w.tr();
            if t.heap_list.len() < pre_len || pre.iter().any(|&h| pos(t, h) >= t.heap_list.len()) {
                fails.push("post");
            }
            finish(w, ok, fails)
        });
    }
    const ALL: [u8; 3] = [0, 1, 2];

    #[test]
    fn x_arm_GetField() {
        arm("GetField", &ALL, &|w, o| {
            let (len, base) = (w.tr().value_stack.len(), w.tr().stack_base);
            let off = pick_reg(o, len, base)?;
            let mut st = w.tr().value_stack.clone();
            let (v, _) = sim_load(&mut st, base, off)?;
            if v.1 != ValueTag::Struct {
                return None;
            }
            let k = fields(v.0 as *mut ObjectHeader).len();
            if k == 0 {
                return None;
            }
            let index = o.pick(k) as u16;
            Some(Box::new(move |t| t.arm_GetField(index, off)))
        });
    }
    #[test]
    fn x_arm_SetField() {
        arm("SetField", &ALL, &|w, o| {
            let (len, base) = (w.tr().value_stack.len(), w.tr().stack_base);
            let off = pick_reg(o, len, base)?;
            let mut st = w.tr().value_stack.clone();
            let (v, _) = sim_load(&mut st, base, off)?;
            if v.1 != ValueTag::Struct || st.is_empty() {
                return None;
            }
            let k = fields(v.0 as *mut ObjectHeader).len();
            if k == 0 {
                return None;
            }
            let index = o.pick(k) as u16;
            Some(Box::new(move |t| t.arm_SetField(index, off)))
        });
    }
    #[test]
    fn x_arm_GetIndex() {
        arm("GetIndex", &ALL, &|w, o| {
            let (len, base) = (w.tr().value_stack.len(), w.tr().stack_base);
            let reg2 = pick_reg(o, len, base)?;
            let mut st = w.tr().value_stack.clone();
            let (iv, islot) = sim_load(&mut st, base, reg2)?;
            if iv.1 != ValueTag::Int {
                return None;
            }
            let reg1 = pick_reg(o, st.len(), base)?;
            let (v, _) = sim_load(&mut st, base, reg1)?;
            if v.1 != ValueTag::Array {
                return None;
            }
            // index value: every in-range index, one past the end, and a negative one
            let k = fields(v.0 as *mut ObjectHeader).len();
            let c = o.pick(k + 2);
            let idx: AbraInt = if c <= k { c as AbraInt } else { -1 };
            w.t().value_stack[islot] = Value::from(idx);
            Some(Box::new(move |t| t.arm_GetIndex(reg1, reg2)))
        });
    }
    #[test]
    fn x_arm_SetIndex() {
        arm("SetIndex", &ALL, &|w, o| {
            let (len, base) = (w.tr().value_stack.len(), w.tr().stack_base);
            let reg2 = pick_reg(o, len, base)?;
            let mut st = w.tr().value_stack.clone();
            let (_rv, _) = sim_load(&mut st, base, reg2)?;
            let reg1 = pick_reg(o, st.len(), base)?;
            let (iv, islot) = sim_load(&mut st, base, reg1)?;
            if iv.1 != ValueTag::Int {
                return None;
            }
            let v = st.pop()?;
            if v.1 != ValueTag::Array {
                return None;
            }
            let k = fields(v.0 as *mut ObjectHeader).len();
            let c = o.pick(k + 2);
            let idx: AbraInt = if c <= k { c as AbraInt } else { -1 };
            // the rvalue may be the very slot we patch (reg2 offset == islot): then rvalue becomes a scalar, still fine
            w.t().value_stack[islot] = Value::from(idx);
            Some(Box::new(move |t| t.arm_SetIndex(reg1, reg2)))
        });
    }
    #[test]
    fn x_arm_ArrayPush() {
        arm("ArrayPush", &ALL, &|w, o| {
            let (len, base) = (w.tr().value_stack.len(), w.tr().stack_base);
            let reg2 = pick_reg(o, len, base)?;
            let mut st = w.tr().value_stack.clone();
            sim_load(&mut st, base, reg2)?;
            let reg1 = pick_reg(o, st.len(), base)?;
            let (v, _) = sim_load(&mut st, base, reg1)?;
            if v.1 != ValueTag::Array {
                return None;
            }
            Some(Box::new(move |t| t.arm_ArrayPush(reg1, reg2)))
        });
    }
    #[test]
    fn x_arm_ArrayPop() {
        arm("ArrayPop", &ALL, &|w, o| {
            let (len, base) = (w.tr().value_stack.len(), w.tr().stack_base);
            let reg = pick_reg(o, len, base)?;
            let mut st = w.tr().value_stack.clone();
            let (v, _) = sim_load(&mut st, base, reg)?;
            if v.1 != ValueTag::Array || fields(v.0 as *mut ObjectHeader).is_empty() {
                return None; // empty array: known separate defect (C01/C26), not a GC matter
            }
            let dest = pick_dest(o, st.len(), base);
            if !sim_store_ok(st.len(), base, dest) {
                return None;
            }
            Some(Box::new(move |t| t.arm_ArrayPop(dest, reg)))
        });
    }
    #[test]
    fn x_arm_ConstructStruct() {
        arm("ConstructStruct", &ALL, &|w, o| {
            let len = w.tr().value_stack.len();
            let n = o.pick(len + 1) as u16;
            Some(Box::new(move |t| t.arm_ConstructStruct(n)))
        });
    }
    #[test]
    fn x_arm_MakeClosure() {
        arm("MakeClosure", &ALL, &|w, o| {
            let len = w.tr().value_stack.len();
            if len == 0 {
                return None;
            }
            let n = o.pick(len) as u16;
            Some(Box::new(move |t| t.arm_MakeClosure(n)))
        });
    }
    #[test]
    fn x_arm_ConstructArray() {
        arm("ConstructArray", &ALL, &|w, o| {
            let len = w.tr().value_stack.len();
            let n = o.pick(len + 1) as u16;
            Some(Box::new(move |t| t.arm_ConstructArray(n)))
        });
    }
    #[test]
    fn x_arm_ConstructVariant() {
        arm("ConstructVariant", &ALL, &|w, _o| {
            if w.tr().value_stack.is_empty() {
                return None;
            }
            Some(Box::new(move |t| t.arm_ConstructVariant(2)))
        });
    }
    fn top_tag(w: &W) -> Option<ValueTag> {
        w.tr().value_stack.last().map(|v| v.1)
    }
    #[test]
    fn x_arm_DeconstructStruct() {
        arm("DeconstructStruct", &ALL, &|w, _o| {
            if top_tag(w)? != ValueTag::Struct {
                return None;
            }
            Some(Box::new(move |t| t.arm_DeconstructStruct()))
        });
    }
    #[test]
    fn x_arm_DeconstructArray() {
        arm("DeconstructArray", &ALL, &|w, _o| {
            if top_tag(w)? != ValueTag::Array {
                return None;
            }
            Some(Box::new(move |t| t.arm_DeconstructArray()))
        });
    }
    #[test]
    fn x_arm_DeconstructVariant() {
        arm("DeconstructVariant", &ALL, &|w, _o| {
            if top_tag(w)? != ValueTag::Variant {
                return None;
            }
            Some(Box::new(move |t| t.arm_DeconstructVariant()))
        });
    }
    #[test]
    fn x_arm_Duplicate() {
        arm("Duplicate", &ALL, &|w, _o| {
            top_tag(w)?;
            Some(Box::new(move |t| t.arm_Duplicate()))
        });
    }
    #[test]
    fn x_arm_Pop() {
        arm("Pop", &ALL, &|w, _o| {
            top_tag(w)?;
            Some(Box::new(move |t| t.arm_Pop()))
        });
    }
    #[test]
    fn x_arm_LoadOffset() {
        arm("LoadOffset", &ALL, &|w, o| {
            let (len, base) = (w.tr().value_stack.len(), w.tr().stack_base);
            if len == 0 {
                return None;
            }
            let i = o.pick(len);
            let n = (i as isize - base as isize) as i16;
            Some(Box::new(move |t| t.arm_LoadOffset(n)))
        });
    }
    #[test]
    fn x_arm_StoreOffset() {
        arm("StoreOffset", &ALL, &|w, o| {
            let (len, base) = (w.tr().value_stack.len(), w.tr().stack_base);
            if len < 2 {
                return None;
            }
            let i = o.pick(len - 1);
            let n = (i as isize - base as isize) as i16;
            Some(Box::new(move |t| t.arm_StoreOffset(n)))
        });
    }
    #[test]
    fn x_arm_ConcatStrings() {
        arm("ConcatStrings", &ALL, &|w, o| {
            let (len, base) = (w.tr().value_stack.len(), w.tr().stack_base);
            if o.pick(2) == 0 {
                // first step of a concatenation: operands are fetched from the registers
                let reg2 = pick_reg(o, len, base)?;
                let mut st = w.tr().value_stack.clone();
                let (b, _) = sim_load(&mut st, base, reg2)?;
                let reg1 = pick_reg(o, st.len(), base)?;
                let (a, _) = sim_load(&mut st, base, reg1)?;
                if a.1 != ValueTag::String || b.1 != ValueTag::String {
                    return None;
                }
                let dest = pick_dest(o, st.len(), base);
                w.t().string_op_index1 = 0;
                w.t().string_op_index2 = 0;
                Some(Box::new(move |t| t.arm_ConcatStrings(dest, reg1, reg2)))
            } else {
                // a later step: operands live only in string_operand1/2 (a collection may have
                // run in between), indices anywhere in range
                let (a, b) = (w.tr().string_operand1, w.tr().string_operand2);
                if a.1 != ValueTag::String || b.1 != ValueTag::String {
                    return None;
                }
                let (sa, sb) = (a.view_string(w.tr()).to_string(), b.view_string(w.tr()).to_string());
                let i1 = o.pick(sa.len() + 1);
                let i2 = if i1 == sa.len() { o.pick(sb.len() + 1) } else { 0 };
                if i1 == 0 && i2 == 0 {
                    return None;
                }
                let mut bld = Vec::with_capacity(sa.len() + sb.len());
                bld.extend_from_slice(&sa.as_bytes()[..i1]);
                bld.extend_from_slice(&sb.as_bytes()[..i2]);
                w.t().string_op_index1 = i1;
                w.t().string_op_index2 = i2;
                w.t().concat_string_builder = bld;
                let dest = pick_dest(o, len, base);
                Some(Box::new(move |t| t.arm_ConcatStrings(dest, TOP, TOP)))
            }
        });
    }
    #[test]
    fn x_api_push_str() {
        arm("push_str", &ALL, &|_w, _o| Some(Box::new(move |t| {
            t.push_str(String::from("b"));
            true
        })));
    }

    // ------------------------------------------------------------------ channels (one thread)
    /// Value::deep_copy terminates and stays inside this unit: no cycle below `v`, and no array
    /// while deep_copy still reads arrays through get_struct (C08)
    fn copyable(w: &W, v: &Value, path: &mut Vec<usize>) -> bool {
        let Some(i) = obj_index(w, v) else {
            return true;
        };
        if path.contains(&i) {
            return false;
        }
        match v.1 {
            ValueTag::Channel | ValueTag::String => true,
            ValueTag::Array if !DEEPCOPY_ARRAY_OK => false,
            _ => {
                path.push(i);
                let ok = children(w.objs[i]).iter().all(|c| copyable(w, c, path));
                path.pop();
                ok
            }
        }
    }
    #[test]
    fn x_arm_ConstructChannel() {
        arm("ConstructChannel", &ALL, &|_w, _o| Some(Box::new(move |t| t.arm_ConstructChannel())));
    }
    #[test]
    fn x_arm_ChannelWrite() {
        enumerate("ChannelWrite", &ALL, &|w, _o| {
            let len = w.tr().value_stack.len();
            if len < 2 || w.tr().value_stack[len - 2].1 != ValueTag::Channel {
                return None;
            }
            let val = w.tr().value_stack[len - 1];
            let ch = w.tr().value_stack[len - 2].0 as *mut ObjectHeader;
            let q0 = children(ch);
            let pre: Vec<*mut ObjectHeader> = w.tr().heap_list.clone();
            let ok = guarded(|| {
                w.t().arm_ChannelWrite();
            });
            let mut f = vec![];
            let t = w.tr();
            if ok {
                let q1 = children(ch);
                if q1.len() != q0.len() + 1 || q1[..q0.len()] != q0[..] || q1[q0.len()] != val || t.value_stack.len() != len - 2 {
                    f.push("post");
                }
            }
            if pre.iter().any(|&h| pos(t, h) >= t.heap_list.len()) {
                f.push("post");
            }
            finish(w, ok, f)
        });
    }
    #[test]
    fn x_arm_ChannelRead() {
        enumerate("ChannelRead", &ALL, &|w, _o| {
            let len = w.tr().value_stack.len();
            if len < 1 || w.tr().value_stack[len - 1].1 != ValueTag::Channel {
                return None;
            }
            let ch = w.tr().value_stack[len - 1].0 as *mut ObjectHeader;
            let q0 = children(ch);
            if let Some(head) = q0.first() {
                if !copyable(w, head, &mut vec![]) {
                    return None;
                }
            }
            let pre: Vec<*mut ObjectHeader> = w.tr().heap_list.clone();
            let stack0 = w.tr().value_stack.clone();
            let s = snap(w);
            let state_idle = w.tr().gc_state == GcState::Idle;
            let state_marking = w.tr().gc_state == GcState::Marking;
            let pc0 = w.tr().pc.0;
            let ok = guarded(|| {
                w.t().arm_ChannelRead();
            });
            let mut f = vec![];
            let t = w.tr();
            if ok {
                if q0.is_empty() {
                    // nothing to read: the instruction is retried, nothing else changes
                    if t.value_stack != stack0 || t.heap_list != pre || t.pc.0 + 1 != pc0 {
                        f.push("post");
                    }
                    post_gc(w, &s, &mut f);
                } else {
                    if children(ch) != q0[1..].to_vec() || t.value_stack.len() != len {
                        f.push("post");
                    }
                    // the copy is made of NEW objects, born with the colour of the collector state
                    for &h in &t.heap_list {
                        if !pre.contains(&h) {
                            let m = marked(t, h);
                            if m == state_idle || (state_marking && !on_gray(t, h)) {
                                f.push("born_colour");
                            }
                        }
                    }
                }
            }
            if pre.iter().any(|&h| pos(t, h) >= t.heap_list.len()) {
                f.push("post");
            }
            finish(w, ok, f)
        });
    }
}
