//! Stand-ins for the std synchronisation / queue types vm.rs imports, and for the
//! two items it imports from translate_bytecode.  Single-threaded, FIFO, no
//! atomics: CBMC cannot afford Arc/Mutex/mpsc.  ASSUMPTION (listed in evidence):
//! std's Arc is a shared pointer, Mutex::lock gives exclusive access, VecDeque and
//! mpsc channels are FIFO.
#![allow(dead_code)]
use std::cell::{RefCell, RefMut};
use std::ops::Deref;
use std::rc::Rc;

pub type BytecodeIndex = u32;

#[derive(Debug, Clone)]
pub struct CompiledProgram {
    pub(crate) instructions: Vec<crate::vm::Instr>,
    pub(crate) int_constants: Vec<i64>,
    pub(crate) float_constants: Vec<f64>,
    pub(crate) static_strings: Vec<String>,
    pub(crate) filename_arena: Vec<String>,
    pub(crate) function_name_arena: Vec<String>,
    pub(crate) filename_table: Vec<(BytecodeIndex, u32)>,
    pub(crate) lineno_table: Vec<(BytecodeIndex, u32)>,
    pub(crate) function_name_table: Vec<(BytecodeIndex, u32)>,
}

pub struct Arc<T>(Rc<T>);
impl<T> Arc<T> {
    pub fn new(t: T) -> Self {
        Arc(Rc::new(t))
    }
    pub fn ptr_eq(a: &Self, b: &Self) -> bool {
        Rc::ptr_eq(&a.0, &b.0)
    }
}
impl<T> Clone for Arc<T> {
    fn clone(&self) -> Self {
        Arc(self.0.clone())
    }
}
impl<T> Deref for Arc<T> {
    type Target = T;
    fn deref(&self) -> &T {
        &self.0
    }
}

pub struct Mutex<T>(RefCell<T>);
impl<T> Mutex<T> {
    pub fn new(t: T) -> Self {
        Mutex(RefCell::new(t))
    }
    pub fn lock(&self) -> Result<RefMut<'_, T>, ()> {
        Ok(self.0.borrow_mut())
    }
}

/// FIFO queue with the VecDeque API subset vm.rs uses.
#[derive(Debug)]
pub struct VecDeque<T>(pub Vec<T>);
impl<T> VecDeque<T> {
    pub fn new() -> Self {
        VecDeque(Vec::new())
    }
    pub fn from<const N: usize>(a: [T; N]) -> Self {
        VecDeque(Vec::from(a))
    }
    pub fn push_back(&mut self, t: T) {
        self.0.push(t)
    }
    pub fn pop_front(&mut self) -> Option<T> {
        if self.0.is_empty() { None } else { Some(self.0.remove(0)) }
    }
    pub fn len(&self) -> usize {
        self.0.len()
    }
    pub fn iter(&self) -> std::slice::Iter<'_, T> {
        self.0.iter()
    }
    pub fn iter_mut(&mut self) -> std::slice::IterMut<'_, T> {
        self.0.iter_mut()
    }
}

pub mod mpsc {
    use std::cell::RefCell;
    use std::rc::Rc;
    pub struct Sender<T>(pub Rc<RefCell<Vec<T>>>);
    pub struct Receiver<T>(pub Rc<RefCell<Vec<T>>>);
    impl<T> Clone for Sender<T> {
        fn clone(&self) -> Self {
            Sender(self.0.clone())
        }
    }
    impl<T> Sender<T> {
        pub fn send(&self, t: T) -> Result<(), ()> {
            self.0.borrow_mut().push(t);
            Ok(())
        }
    }
    impl<T> Receiver<T> {
        pub fn try_recv(&self) -> Result<T, ()> {
            let mut q = self.0.borrow_mut();
            if q.is_empty() { Err(()) } else { Ok(q.remove(0)) }
        }
    }
    pub fn channel<T>() -> (Sender<T>, Receiver<T>) {
        let q = Rc::new(RefCell::new(Vec::new()));
        (Sender(q.clone()), Receiver(q))
    }
}
pub use mpsc::{Receiver, Sender};
