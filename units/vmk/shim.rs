//! Stand-ins for the std synchronisation / queue types vm.rs imports, and for the
//! two items it imports from translate_bytecode.  Single-threaded, FIFO, no
//! atomics: CBMC cannot afford Arc/Mutex/mpsc.  ASSUMPTION (listed in evidence):
//! std's Arc is a shared pointer, Mutex::lock gives exclusive access, VecDeque and
//! mpsc channels are FIFO.
#![allow(dead_code)]
use std::cell::{RefCell, RefMut};
use std::ops::Deref;
use std::rc::Rc;

pub type BytecodeIndex = u32;

#[derive(Debug, Clone)]
pub struct CompiledProgram {
    pub(crate) instructions: Vec<crate::vm::Instr>,
    pub(crate) int_constants: Vec<i64>,
    pub(crate) float_constants: Vec<f64>,
    pub(crate) static_strings: Vec<String>,
    pub(crate) filename_arena: Vec<String>,
    pub(crate) function_name_arena: Vec<String>,
    pub(crate) filename_table: Vec<(BytecodeIndex, u32)>,
    pub(crate) lineno_table: Vec<(BytecodeIndex, u32)>,
    pub(crate) function_name_table: Vec<(BytecodeIndex, u32)>,
}

pub struct Arc<T>(Rc<T>);
impl<T> Arc<T> {
    pub fn new(t: T) -> Self {
        Arc(Rc::new(t))
    }
    pub fn ptr_eq(a: &Self, b: &Self) -> bool {
        Rc::ptr_eq(&a.0, &b.0)
    }
    // further std::sync::Arc API an edit of vm.rs may plausibly use (same meaning as std's, single-threaded)
    pub fn strong_count(a: &Self) -> usize {
        Rc::strong_count(&a.0)
    }
    pub fn weak_count(a: &Self) -> usize {
        Rc::weak_count(&a.0)
    }
    pub fn as_ptr(a: &Self) -> *const T {
        Rc::as_ptr(&a.0)
    }
    pub fn get_mut(a: &mut Self) -> Option<&mut T> {
        Rc::get_mut(&mut a.0)
    }
    pub fn try_unwrap(a: Self) -> Result<T, Self> {
        Rc::try_unwrap(a.0).map_err(Arc)
    }
}
impl<T> AsRef<T> for Arc<T> {
    fn as_ref(&self) -> &T {
        &self.0
    }
}
impl<T> Clone for Arc<T> {
    fn clone(&self) -> Self {
        Arc(self.0.clone())
    }
}
impl<T> Deref for Arc<T> {
    type Target = T;
    fn deref(&self) -> &T {
        &self.0
    }
}

pub struct Mutex<T>(RefCell<T>);
impl<T> Mutex<T> {
    pub fn new(t: T) -> Self {
        Mutex(RefCell::new(t))
    }
    pub fn lock(&self) -> Result<RefMut<'_, T>, ()> {
        Ok(self.0.borrow_mut())
    }
    pub fn try_lock(&self) -> Result<RefMut<'_, T>, ()> {
        self.0.try_borrow_mut().map_err(|_| ())
    }
    pub fn get_mut(&mut self) -> Result<&mut T, ()> {
        Ok(self.0.get_mut())
    }
    pub fn into_inner(self) -> Result<T, ()> {
        Ok(self.0.into_inner())
    }
}

/// FIFO queue with the VecDeque API subset vm.rs uses.
#[derive(Debug)]
pub struct VecDeque<T>(pub Vec<T>);
impl<T> VecDeque<T> {
    pub fn new() -> Self {
        VecDeque(Vec::new())
    }
    pub fn from<const N: usize>(a: [T; N]) -> Self {
        VecDeque(Vec::from(a))
    }
    pub fn push_back(&mut self, t: T) {
        self.0.push(t)
    }
    pub fn pop_front(&mut self) -> Option<T> {
        if self.0.is_empty() { None } else { Some(self.0.remove(0)) }
    }
    pub fn len(&self) -> usize {
        self.0.len()
    }
    pub fn is_empty(&self) -> bool {
        self.0.is_empty()
    }
    pub fn with_capacity(n: usize) -> Self {
        VecDeque(Vec::with_capacity(n))
    }
    pub fn push_front(&mut self, t: T) {
        self.0.insert(0, t)
    }
    pub fn pop_back(&mut self) -> Option<T> {
        self.0.pop()
    }
    pub fn front(&self) -> Option<&T> {
        self.0.first()
    }
    pub fn back(&self) -> Option<&T> {
        self.0.last()
    }
    pub fn front_mut(&mut self) -> Option<&mut T> {
        self.0.first_mut()
    }
    pub fn get(&self, i: usize) -> Option<&T> {
        self.0.get(i)
    }
    pub fn clear(&mut self) {
        self.0.clear()
    }
    pub fn iter(&self) -> std::slice::Iter<'_, T> {
        self.0.iter()
    }
    pub fn iter_mut(&mut self) -> std::slice::IterMut<'_, T> {
        self.0.iter_mut()
    }
}

pub mod mpsc {
    use std::cell::RefCell;
    use std::rc::Rc;
    pub struct Sender<T>(pub Rc<RefCell<Vec<T>>>);
    pub struct Receiver<T>(pub Rc<RefCell<Vec<T>>>);
    impl<T> Clone for Sender<T> {
        fn clone(&self) -> Self {
            Sender(self.0.clone())
        }
    }
    impl<T> Sender<T> {
        pub fn send(&self, t: T) -> Result<(), ()> {
            self.0.borrow_mut().push(t);
            Ok(())
        }
    }
    impl<T> Receiver<T> {
        pub fn try_recv(&self) -> Result<T, ()> {
            let mut q = self.0.borrow_mut();
            if q.is_empty() { Err(()) } else { Ok(q.remove(0)) }
        }
        pub fn try_iter(&self) -> std::vec::IntoIter<T> {
            let mut q = self.0.borrow_mut();
            std::mem::take(&mut *q).into_iter()
        }
    }
    pub fn channel<T>() -> (Sender<T>, Receiver<T>) {
        let q = Rc::new(RefCell::new(Vec::new()));
        (Sender(q.clone()), Receiver(q))
    }
}
pub use mpsc::{Receiver, Sender};
