"""Kani VM crate: /repo/abra_core/src/vm.rs compiled *verbatim* as module `vm` of a
standalone crate, with an enumerated list of textual replacements, plus the lifted
step() arms and hand-written harnesses appended to the same module.

Replacements (each anchored, counted, reported in evidence):
  K1  `use crate::translate_bytecode::{BytecodeIndex, CompiledProgram};` -> shim
  K2  `use std::collections::VecDeque;`, `use std::sync::mpsc::{Receiver, Sender};`,
      `use std::sync::{Arc, Mutex, mpsc};` -> single-threaded FIFO shims (shim.rs)
  K3  body of VmGreenThread::fail -> `panic!("vm.fail: internal fault")`
      (drops Display formatting of the error; still a panic, i.e. still a fault)
  K4  (optional) body of pc_to_error_location -> empty location (drops the three
      table lookups; used by every unit except U10 which verifies the lookups)
cfg(feature = "ffi") items vanish because the feature is off (as in the default build).
step() itself stays in the file but no harness reaches it (Kani ICE, DESIGN E5);
arms are reached through their lifted copies `arm_<Name>`.
"""
import os
import re
import shutil
import slicer as S

HERE = os.path.dirname(os.path.abspath(__file__))
V = 'abra_core/src/vm.rs'

CARGO = """[package]
name = "vmk"
version = "0.1.0"
edition = "2024"
[dependencies]
[lints.rust]
unexpected_cfgs = { level = "allow" }
[workspace]
"""

LIB = """#![allow(dead_code, unused_imports, unused_variables, non_snake_case, unused_mut, clippy::all)]
pub mod shim;
pub mod vm;
"""

STUB_FAIL = """    fn fail(&self, kind: VmErrorKind) -> ! {
        let _ = kind;
        panic!("vm.fail: internal fault")
    }"""

STUB_LOC = """    fn pc_to_error_location(&self, pc: ProgramCounter) -> VmErrorLocation {
        let _ = pc;
        VmErrorLocation {
            filename: String::new(),
            lineno: 0,
            function_name: String::new(),
        }
    }"""

SUPPORT = open(os.path.join(HERE, 'support.rs')).read() if os.path.exists(os.path.join(HERE, 'support.rs')) else ""


def _replace_once(text, old, new, what, counts):
    k = text.count(old)
    if k != 1:
        raise S.SliceError("vmk: anchor for %s found %d times" % (what, k))
    counts[what] = 1
    return text.replace(old, new)


def build(dirpath, arms=(), harness_src="", stub_loc=True, replace_methods=None):
    """Write the crate into dirpath.  Returns dict(rewrites=..., arm_sha={...}).
    replace_methods: {method name of `impl VmGreenThread`: replacement text} — each is one
    more enumerated replacement (e.g. `step` by a contract-only nondeterministic stub in U8;
    must be listed in the unit's assumptions)."""
    src = S.read(V)
    counts = {}
    src = _replace_once(src, "use crate::translate_bytecode::{BytecodeIndex, CompiledProgram};",
                        "use crate::shim::{BytecodeIndex, CompiledProgram};", "K1", counts)
    src = _replace_once(src, "use std::collections::VecDeque;", "use crate::shim::VecDeque;", "K2a", counts)
    src = _replace_once(src, "use std::sync::mpsc::{Receiver, Sender};", "use crate::shim::{Receiver, Sender};", "K2b", counts)
    src = _replace_once(src, "use std::sync::{Arc, Mutex, mpsc};", "use crate::shim::{Arc, Mutex, mpsc};", "K2c", counts)
    fail = S.method(V, r'impl VmGreenThread \{', 'fail', with_attrs=False)
    src = _replace_once(src, fail, STUB_FAIL, "K3", counts)
    if stub_loc:
        loc = S.method(V, r'impl VmGreenThread \{', 'pc_to_error_location', with_attrs=False)
        src = _replace_once(src, loc, STUB_LOC, "K4", counts)
    for mname, mtext in (replace_methods or {}).items():
        old = S.method(V, r'impl VmGreenThread \{', mname, with_attrs=False)
        src = _replace_once(src, old, mtext, "K5:" + mname, counts)
    sha = {}
    lifted = "\n// ===== lifted step() arms (text cut from `fn step` above) =====\nimpl VmGreenThread {\n"
    for a in arms:
        arm = S.step_arm(a)
        lifted += arm['text']
        sha[a] = S.sha(arm['raw'])
    lifted += "}\n"
    support = open(os.path.join(HERE, 'support.rs')).read()
    src = src + lifted + "\n// ===== harness support (hand-written) =====\n" + support + "\n" + harness_src
    os.makedirs(os.path.join(dirpath, "src"), exist_ok=True)
    with open(os.path.join(dirpath, "Cargo.toml"), "w") as f:
        f.write(CARGO)
    with open(os.path.join(dirpath, "src", "lib.rs"), "w") as f:
        f.write(LIB)
    shutil.copy(os.path.join(HERE, "shim.rs"), os.path.join(dirpath, "src", "shim.rs"))
    with open(os.path.join(dirpath, "src", "vm.rs"), "w") as f:
        f.write(src)
    return dict(rewrites=counts, arm_sha=sha)


ASSUMED = [
    "kani/vmk: shim.rs stands for std Arc/Mutex/VecDeque/mpsc (single-threaded FIFO semantics assumed)",
    "kani/vmk: VmGreenThread::fail replaced by a bare panic (same divergence, no Display formatting)",
    "kani/vmk: pc_to_error_location stubbed to an empty location except in unit U10",
    "kani/vmk: the dispatch `match instr` of step(), the pc increment and the constant-table fetch are not verified (arms are entered directly)",
]
TRUSTED = ["kani 0.68 + cbmc 6.11 (bit-precise; machine integers are machine integers)", "rustc (Kani toolchain)"]


def run_table(unit, tag, arms, harness_path, table, timeout=600, jobs=8, stub_loc=True, extra_info=None, kani_extra=()):
    """Generic Kani unit: build the crate, run every harness of `table`, map to obligations.
    table rows: dict(h=<fq harness>, id=<obligation id>, props=[..], fn=<function under contract>,
                     bounded=<None|str>, text=<contract text>, should_panic=<bool>)."""
    import engine as E
    want = os.environ.get("ABRA_VERIF_PROP")
    if want:
        table = [r for r in table if want in r['props']]
        if not table:
            return [], dict(assumptions=[], trusted_base=[], checker_cmds=[], notes={})
    sc = E.Scratch(tag)
    try:
        with open(harness_path) as f:
            hsrc = f.read()
        info = build(sc.path, arms=arms, harness_src=hsrc, stub_loc=stub_loc)
        allh = []
        for r in table:
            allh += r['h'] if isinstance(r['h'], list) else [r['h']]
        res = E.run_kani(sc.path, allh, timeout=timeout, jobs=jobs, extra=kani_extra)
        obs = []
        for r in table:
            if isinstance(r['h'], list):
                # one obligation split over several harnesses (e.g. one per concrete shape): worst status wins
                parts = [res[h] for h in r['h']]
                order = {E.FAILED: 0, E.UNDECIDED: 1, E.DISCHARGED: 2}
                worst = min(parts, key=lambda x: order[x['status']])
                k = dict(status=worst['status'], failed=[f for x in parts for f in x['failed']],
                         time_s=sum(x['time_s'] for x in parts), raw=worst['raw'],
                         cover=[c for x in parts for c in x['cover']])
                res[str(r['h'])] = k
            else:
                k = res[r['h']]
            st = k['status']
            detail = "\n".join(k['failed'][:6])
            # vacuity: a harness with covers must have at least one SATISFIED cover
            if st == E.DISCHARGED and k['cover'] and not any(s == "SATISFIED" for _, s in k['cover']):
                st, detail = E.UNDECIDED, "vacuity guard: no cover statement reachable"
            if st != E.DISCHARGED and not detail:
                detail = k['raw'][-1200:]
            obs.append(E.Obligation(r['id'], r['props'], unit, r['fn'], "kani/cbmc", st, detail, k['time_s'],
                                    "abra_core/src/vm.rs", "", r.get('bounded'), r.get("text") or ("harness " + str(r["h"]))))
        out = dict(assumptions=list(ASSUMED), trusted_base=list(TRUSTED),
                   checker_cmds=["cargo kani -Z function-contracts -Z stubbing --harness <h> --exact --output-format regular  (crate = vm.rs verbatim + units/vmk replacements)"],
                   notes=dict(rewrites=info['rewrites'], arm_sha=info['arm_sha'],
                              covers={str(r['h']): res[str(r['h'])]['cover'] for r in table if res[str(r['h'])]['cover']}))
        if extra_info:
            out['assumptions'] += extra_info.get('assumptions', [])
        return obs, out
    finally:
        sc.cleanup()
