#[cfg(kani)]
pub(crate) mod hs {
    //! Hand-written harness support: constructors and executable mirrors of the
    //! Verus spec functions of units/vmenv/spec.rs (same definitions, machine types).
    use super::*;

    pub const TOP: u16 = 0x8000;

    /// stand-in for std::fmt::format on error paths (`#[kani::stub(std::fmt::format, stub_format)]`):
    /// formatting dominates CBMC cost and its text is irrelevant to every obligation
    pub fn stub_format(_args: std::fmt::Arguments<'_>) -> String {
        String::new()
    }

    pub fn mk_shared(ints: Vec<AbraInt>, floats: Vec<f64>) -> Arc<VmSharedReadonly> {
        Arc::new(VmSharedReadonly {
            program: vec![],
            int_constants: ints,
            float_constants: floats,
            static_strings: vec![],
            filename_table: vec![],
            lineno_table: vec![],
            function_name_table: vec![],
            filename_arena: vec![],
            function_name_arena: vec![],
            heap_size: 0,
        })
    }

    pub fn mk_thread(shared: Arc<VmSharedReadonly>) -> VmGreenThread {
        let (tx, _rx) = mpsc::channel();
        VmGreenThread::new(shared, tx)
    }

    pub fn mk_thread_with(stack: Vec<Value>, base: usize, ints: Vec<AbraInt>, floats: Vec<f64>) -> VmGreenThread {
        let mut t = mk_thread(mk_shared(ints, floats));
        t.value_stack = stack;
        t.stack_base = base;
        t
    }

    /// mirror of spec fn reg_top
    pub fn reg_top(arg: u16) -> bool {
        arg >= 0x8000
    }
    /// mirror of spec fn reg_off
    pub fn reg_off(arg: u16) -> i64 {
        let low = (arg % 0x8000) as i64;
        if low >= 0x4000 { low - 0x8000 } else { low }
    }
    /// mirror of spec fn reg_ok
    pub fn reg_ok(len: usize, base: usize, arg: u16) -> bool {
        if reg_top(arg) {
            len > 0
        } else {
            let i = base as i128 + reg_off(arg) as i128;
            0 <= i && i < len as i128
        }
    }
    /// mirror of spec fn reg_store_ok
    pub fn reg_store_ok(len: usize, base: usize, arg: u16) -> bool {
        reg_top(arg) || {
            let i = base as i128 + reg_off(arg) as i128;
            0 <= i && i < len as i128
        }
    }
    pub fn reg_index(base: usize, arg: u16) -> usize {
        (base as i128 + reg_off(arg) as i128) as usize
    }

    pub fn any_tag() -> ValueTag {
        match kani::any::<u8>() % 9 {
            0 => ValueTag::Int,
            1 => ValueTag::Float,
            2 => ValueTag::Bool,
            3 => ValueTag::Struct,
            4 => ValueTag::Array,
            5 => ValueTag::Variant,
            6 => ValueTag::String,
            7 => ValueTag::Channel,
            _ => ValueTag::Addr,
        }
    }
    /// any scalar (non-pointer) value
    pub fn any_scalar() -> Value {
        let bits: u64 = kani::any();
        match kani::any::<u8>() % 4 {
            0 => Value(bits, ValueTag::Int),
            1 => Value(bits, ValueTag::Float),
            2 => Value(bits & 1, ValueTag::Bool),
            _ => Value(bits & 0xffff_ffff, ValueTag::Addr),
        }
    }
    pub fn err_kind(t: &VmGreenThread) -> u8 {
        match &t.error {
            None => 0,
            Some(e) => match e.kind {
                VmErrorKind::ArrayOutOfBounds => 1,
                VmErrorKind::Panic(_) => 2,
                VmErrorKind::IntegerOverflowUnderflow => 3,
                VmErrorKind::DivisionByZero => 4,
                _ => 9,
            },
        }
    }
}
