"""U4v: the real stack/register helpers of VmGreenThread (load_offset_or_top,
store_offset_or_top, load_offset, store_offset, pop, top, set_top, push), cut verbatim
from vm.rs and verified by Verus for value stacks of ANY length against exactly the
contracts the arm units assume (units/vmenv/stubs.rs).  Bit tricks are discharged with
`by (bit_vector)` hints spliced after two anchor statements."""
import os
import re
import slicer as S
import engine as E
from units import vmenv

UNIT = "U4v-stack"
V = 'abra_core/src/vm.rs'
IMPL = r'impl VmGreenThread \{'
PROPS = ["C01", "C15", "C24", "C05", "C17", "C26", "C10"]

BV1 = ('proof {\n'
       '            assert((arg >> 15) == (if arg >= 0x8000 { 1u16 } else { 0u16 })) by (bit_vector);\n'
       '            assert(arg < 0x8000 ==> (((arg << 1) as i16 >> 1) as int) == (if (arg % 0x8000) >= 0x4000 { (arg % 0x8000) as int - 0x8000 } else { (arg % 0x8000) as int })) by (bit_vector);\n'
       '        }\n')
BV2 = ('proof {\n'
       '            assert(mask == 0usize ==> (top_idx & mask) | (local_idx & !mask) == local_idx) by (bit_vector);\n'
       '            assert(mask == 0xffff_ffff_ffff_ffffusize ==> (top_idx & mask) | (local_idx & !mask) == top_idx) by (bit_vector);\n'
       '        }\n')
A1 = "let offset = ((arg << 1) as i16 >> 1) as isize;\n"
A2 = "let final_index = (top_idx & mask) | (local_idx & !mask);\n"
LEN = "        requires old(self).value_stack@.len() < usize::MAX,   // Rust: a Vec never exceeds isize::MAX bytes\n"

# real method -> (stub whose contract it must meet, signature rewrite, body rewrites, extra requires)
FNS = {
    'load_offset_or_top': dict(stub='load_offset_or_top', ret='r', splices=[(A1, BV1), (A2, BV2)]),
    'store_offset_or_top': dict(stub='store_offset_or_top_val', into='val', splices=[(A1, BV1), (A2, BV2)], extra=LEN),
    'load_offset': dict(stub='load_offset', ret='r'),
    'store_offset': dict(stub='store_offset_val', into='v', fail=True),
    'pop': dict(stub='pop', ret='r', fail=True),
    'top': dict(stub='top', ret='r', panic=True),
    'set_top': dict(stub='set_top_val', into='val'),
    'push': dict(stub='push_val', into='x'),
}
FAIL_STUB = """
impl VmGreenThread {
    // real: VmGreenThread::fail (panics with the formatted internal error).  `requires false`:
    // Verus must prove every call site unreachable, i.e. no internal fault under the contract.
    #[verifier::external_body]
    fn fail_internal(&self) -> ! requires false { panic!() }
}
"""


def build():
    text = vmenv.prelude(stubs=False) + FAIL_STUB + "\nimpl VmGreenThread {\n"
    meta, rewrites = {}, {'into_param': 0, 'fail_call': 0, 'bv_splices': 0}
    for name, o in FNS.items():
        ftxt = S.method(V, IMPL, name, with_attrs=False)
        sig, body = S.fn_parts(ftxt)
        if 'into' in o:
            p = o['into']
            sig, k1 = re.subn(r'\b%s: impl Into<Value>' % p, '%s: Value' % p, sig)
            body, k2 = re.subn(r'\n\s*let %s = %s\.into\(\);\n' % (p, p), '\n', body)
            body, k3 = re.subn(r'\b%s\.into\(\)' % p, p, body)
            if k1 != 1 or (k2 + k3) != 1:
                raise S.SliceError("%s: Into<Value> rewrite did not apply exactly once" % name)
            rewrites['into_param'] += 1
        if o.get('fail'):
            k = 0
            while 'self.fail(' in body:
                i = body.index('self.fail(')
                j = S.match_brace(body, i + len('self.fail'))
                body = body[:i] + 'self.fail_internal()' + body[j + 1:]
                k += 1
            if k != 1:
                raise S.SliceError("%s: fail(InternalError(..)) found %d times" % (name, k))
            rewrites['fail_call'] += 1
        if o.get('panic'):
            body, k = re.subn(r'panic!\("stack is empty"\)', 'self.fail_internal()', body)
            if k != 1:
                raise S.SliceError("%s: panic! found %d times" % (name, k))
            rewrites['fail_call'] += 1
        for anchor, proof in o.get('splices', []):
            if body.count(anchor) != 1:
                raise S.SliceError("%s: anchor %r found %d times" % (name, anchor.strip(), body.count(anchor)))
            body = body.replace(anchor, anchor + "        " + proof)
            rewrites['bv_splices'] += 1
        if 'ret' in o:
            sig = re.sub(r'-> Value$', '-> (%s: Value)' % o['ret'], sig)
        contract = vmenv.stub_contract(o['stub'])
        if o.get('extra'):
            contract = o['extra'] + contract
            # merge the two requires clauses
            contract = contract.replace(",   // Rust: a Vec never exceeds isize::MAX bytes\n        requires ", ",   // Rust: a Vec never exceeds isize::MAX bytes\n                 ", 1)
        text += "// ---- real fn VmGreenThread::%s (vm.rs) ----\n    %s\n%s    {%s}\n" % (name, sig.strip(), contract, body)
        meta[name] = dict(contract=contract, sha=S.sha(ftxt), stub=o['stub'])
    text += "}\n" + vmenv.EPILOGUE
    text, k = vmenv.strip_vis(text)
    rewrites['R0'] = k
    return text, meta, rewrites


def run(tier="quick"):
    sc = E.Scratch("u4v")
    try:
        text, meta, rewrites = build()
        res = E.run_verus(sc.file("u4v.rs", text))
        lines = E.fn_line_ranges(text)
        errs = {}
        for e in res['errors']:
            fn = lines[e['line'] - 1] if e['line'] and e['line'] <= len(lines) else None
            errs.setdefault(fn, []).append(e['block'])
        canary = re.sub(r'(        ensures\n?)(.*?)(\n    \{)', lambda m: "        ensures false," + m.group(3), text, flags=re.S)
        cres = E.run_verus(sc.file("u4v_canary.rs", canary))
        obs = []
        for name in FNS:
            f = [v for k, v in res['functions'].items() if k.endswith("VmGreenThread::" + name)]
            c = [v for k, v in cres['functions'].items() if k.endswith("VmGreenThread::" + name)]
            if not f:
                st, detail, t, rl = E.UNDECIDED, "function not reported by verus", 0, None
            else:
                t, rl = f[0]['time_s'], f[0]['rlimit']
                detail = "\n".join(errs.get(name, []))
                st = E.DISCHARGED if f[0]['success'] else (E.UNDECIDED if "rlimit" in detail.lower() and "postcondition" not in detail else E.FAILED)
            if st == E.DISCHARGED and (not c or c[0]['success']):
                st, detail = E.UNDECIDED, "vacuity canary: verifies `ensures false`"
            obs.append(E.Obligation("C01.stack.%s.contract" % name, PROPS, UNIT, "VmGreenThread::" + name, "verus/z3", st, detail, t, V,
                                    meta[name]['sha'], None, "contract of stand-in `%s`:\n%s" % (meta[name]['stub'], meta[name]['contract']), rlimit=rl))
        info = dict(
            assumptions=["verus/vmenv: `global size_of usize == 8`",
                         "verus/U4v: value_stack.len() < usize::MAX on stores (Rust allocation-size guarantee, not modelled by vstd)",
                         "verus/U4v: `impl Into<Value>` parameter replaced by `Value` (the From impls are proved by Kani U4 enc.*)",
                         "verus/U4v: VmGreenThread::fail / panic! replaced by fail_internal() with `requires false` (call sites proved unreachable)",
                         "verus: `as` casts inside by(bit_vector) hints are two's-complement truncation (Verus bit-vector semantics)"],
            trusted_base=["verus 0.2026.09.13 + z3 (incl. bit_vector mode)", "vstd specs of Vec::{len,index,truncate,resize,pop,last,push}, usize::wrapping_sub, wrapping_add_signed", "tools/slicer.py"] + vmenv.DROPPED,
            checker_cmds=[res['cmd'].replace(sc.path, "$SCRATCH")],
            notes=dict(rewrites=rewrites, verus_wall_s=round(res['wall_s'], 2)))
        return obs, info
    finally:
        sc.cleanup()
