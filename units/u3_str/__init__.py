"""U3: string arms of VmGreenThread::step (EqualString, LessThan*/GreaterThan*String,
ConcatStrings, StringNthByte, StringCountBytes), lifted verbatim and verified by Verus as
resumable state machines: per-step contract + invariant + strictly decreasing measure,
for strings of any length and any slicing of the steps (C17, C10a, C24 for strings)."""
import os
import re
import slicer as S
import engine as E
from units import vmenv

HERE = os.path.dirname(os.path.abspath(__file__))
UNIT = "U3-str"
V = 'abra_core/src/vm.rs'
U1SPEC = os.path.join(os.path.dirname(HERE), 'u1_int', 'spec.rs')

PROPS_CMP = ["C17", "C10", "C24", "C01"]
CMP = {
    'EqualString': 'a == b',
    'LessThanString': 'lex_lt(a, b)',
    'LessThanOrEqualString': 'lex_le(a, b)',
    'GreaterThanString': 'lex_gt(a, b)',
    'GreaterThanOrEqualString': 'lex_ge(a, b)',
}
LETS = ("let fresh = s_fresh(*old(self)); let a = str_bytes(s_op1(*old(self), reg1, reg2, fresh)); "
        "let b = str_bytes(s_op2(*old(self), reg2, fresh));")
START_PROOF = ("\n                proof { let fresh = s_fresh(*self); let a = str_bytes(s_op1(*self, reg1, reg2, fresh)); "
               "let b = str_bytes(s_op2(*self, reg2, fresh)); lemma_lex_decide(a, b, self.string_op_index1 as int); }")


def apply_R4(body):
    body, k1 = re.subn(r'\.view_string\(self\)', '.view_bytes(self)', body)
    body, k2 = re.subn(r'\.as_bytes\(\)', '', body)
    return body, k1 + k2


def cmp_contract(name):
    return ("        requires cmp_step_pre(*old(self), dest, reg1, reg2),\n"
            "        ensures ({ %s cmp_step_post(*old(self), *final(self), cont, dest, reg1, reg2, %s) }),\n" % (LETS, CMP[name]))


R7 = re.compile(r'let s = String::from_utf8\((\w+)\)\.unwrap\(\);\s*let s = StringObject::new\(s, self\);')  # any name for the byte buffer

OTHER = {
    'StringCountBytes': dict(
        store='int', props=["C17", "C01"],
        contract=("        requires un_pre(*old(self), dest, reg, ValueTag::String), str_bytes(reg_val(old(self).value_stack@, old(self).stack_base as int, reg)).len() <= i64::MAX,\n"
                  "        ensures cont && final(self).value_stack@ == reg_after_store(reg_after_load(old(self).value_stack@, reg), old(self).stack_base as int, dest, "
                  "val_int(str_bytes(reg_val(old(self).value_stack@, old(self).stack_base as int, reg)).len() as i64)) && frame_stack(*old(self), *final(self)),\n")),
    'StringNthByte': dict(
        store='int', props=["C01", "C17", "C26"],
        contract=("        requires nth_pre(*old(self), dest, reg1, reg2),\n"
                  "        ensures nth_post(*old(self), *final(self), cont, dest, reg1, reg2),\n")),
    'ConcatStrings': dict(
        store='strptr', props=["C17", "C10", "C01"],
        contract=("        requires concat_step_pre(*old(self), dest, reg1, reg2),\n"
                  "        ensures concat_step_post(*old(self), *final(self), cont, dest, reg1, reg2),\n")),
}


def build(exclude=()):
    text = vmenv.prelude([U1SPEC, os.path.join(HERE, 'spec.rs')])
    text += "\nimpl VmGreenThread {\n"
    meta = {}
    rewrites = {'R2': 0, 'R3': 0, 'R4': 0, 'R7': 0, 'proof_splices': 0}
    for name, o in OTHER.items():
        if name in exclude:
            continue
        arm = S.step_arm(name)
        body = arm['body']
        body, k = vmenv.apply_R2(body)
        rewrites['R2'] += k
        body, k = vmenv.apply_R3(body, o['store'])
        rewrites['R3'] += k
        body, k = apply_R4(body)
        rewrites['R4'] += k
        if name == 'ConcatStrings':
            body, k = R7.subn(r'let s = self.new_string_from_utf8(\1);', body)
            rewrites['R7'] += k
            if k != 1:
                raise S.SliceError("ConcatStrings: from_utf8/StringObject::new sequence found %d times" % k)
        a2 = dict(arm)
        a2['body'] = body
        text += "// ---- real arm Instr::%s (vm.rs step), lifted ----\n" % name
        text += vmenv.lift(a2, o['contract'])
        meta[name] = dict(contract=o['contract'], sha=S.sha(arm['raw']))
    for name in CMP:
        if name in exclude:
            continue
        arm = S.step_arm(name)
        body = arm['body']
        body, k = vmenv.apply_R3(body, 'bool')
        rewrites['R3'] += k
        body, k = apply_R4(body)
        rewrites['R4'] += k
        body = START_PROOF + body
        rewrites['proof_splices'] += 1
        a2 = dict(arm)
        a2['body'] = body
        c = cmp_contract(name)
        text += "// ---- real arm Instr::%s (vm.rs step), lifted ----\n" % name
        text += vmenv.lift(a2, c)
        meta[name] = dict(contract=c, sha=S.sha(arm['raw']))
    text += "}\n" + vmenv.EPILOGUE
    text, k = vmenv.strip_vis(text)
    rewrites['R0'] = k
    return text, meta, rewrites


def canary(text):
    text = re.sub(r'ensures \(\{[^\n]*\}\),\n', 'ensures false,\n', text)
    return re.sub(r'(    fn arm_\w+\([^\n]*\n        requires [^\n]*\n)        ensures [^\n]*\n', r'\1        ensures false,\n', text)


def run(tier="quick"):
    sc = E.Scratch("u3")
    obs = []
    try:
        state = {}

        def _b(exclude):
            t, m, r = build(exclude)
            state['meta'], state['rewrites'] = m, r
            return t
        allnames = set(CMP) | set(OTHER)
        text, res, excluded = vmenv.verify_isolating(_b, allnames, sc, "u3_str.rs")
        meta, rewrites = state['meta'], state['rewrites']
        lines = E.fn_line_ranges(text)
        errs_by_fn = {}
        for e in res['errors']:
            fn = lines[e['line'] - 1] if e['line'] and e['line'] <= len(lines) else None
            errs_by_fn.setdefault(fn, []).append(e['block'])
        cres = E.run_verus(sc.file("u3_canary.rs", canary(text)))
        vac = []
        for name in meta:
            f = [v for k, v in cres['functions'].items() if k.endswith("::arm_" + name)]
            if not f or f[0]['success']:
                vac.append(name)
        for name in excluded:
            props = PROPS_CMP if name in CMP else OTHER[name]['props']
            oid = "%s.vm.%s.%s" % (props[0], name, "step" if (name in CMP or name == 'ConcatStrings') else "post")
            obs.append(E.Obligation(oid, props, UNIT, "VmGreenThread::step arm Instr::" + name, "verus/z3", E.UNDECIDED, excluded[name], 0, V, "", None, ""))
        for name in meta:
            f = [v for k, v in res['functions'].items() if k.endswith("::arm_" + name)]
            props = PROPS_CMP if name in CMP else OTHER[name]['props']
            oid = "%s.vm.%s.%s" % (props[0], name, "step" if (name in CMP or name == 'ConcatStrings') else "post")
            if not f:
                st, detail, t, rl = E.UNDECIDED, "function not reported by verus", 0, None
            else:
                t, rl = f[0]['time_s'], f[0]['rlimit']
                if f[0]['success']:
                    st, detail = E.DISCHARGED, ""
                else:
                    detail = "\n".join(errs_by_fn.get("arm_" + name, []))
                    st = E.UNDECIDED if ("rlimit" in detail.lower() and "postcondition" not in detail) else E.FAILED
            if name in vac and st == E.DISCHARGED:
                st, detail = E.UNDECIDED, "vacuity canary: arm verifies `ensures false`"
            obs.append(E.Obligation(oid, props, UNIT, "VmGreenThread::step arm Instr::" + name, "verus/z3", st, detail, t,
                                    V, meta[name]['sha'], None, meta[name]['contract'], rlimit=rl))
        for k, v in res['functions'].items():
            short = k.split("::")[-1]
            if short in ("lemma_lex_decide", "lemma_lex_total", "lemma_first_diff"):
                obs.append(E.Obligation("C17.lemma.%s" % short, ["C17", "C24"], UNIT, short, "verus/z3",
                                        E.DISCHARGED if v['success'] else E.FAILED, "\n".join(errs_by_fn.get(short, [])),
                                        v['time_s'], "verif/units/u3_str/spec.rs", "", None,
                                        "lexicographic byte order: decision by first differing byte; total order laws", rlimit=v['rlimit']))
        if any(o.status == E.UNDECIDED for o in obs):
            # an arm is outside the verifier's reach on this tree: bounded stand-in on the real CLI
            bad, note = cli_differential()
            obs.append(E.Obligation("C17.cli.string_ops.sampled", ["C17", "C10", "C24", "C01"], UNIT, "string operators on the real CLI", "bounded: differential run",
                                    E.FAILED if bad else E.DISCHARGED, ("real CLI disagrees with byte order / concatenation: %r" % (bad,)) if bad else "",
                                    0, V, "", "fixed sample of %d string pairs (empty, prefix-related, multi-byte at every offset around 16/32-byte boundaries)" % note,
                                    "every comparison operator and `..` on all sample pairs against Python's byte order; runs only when a string arm could not be verified"))
        info = dict(
            assumptions=vmenv.ASSUMED + [
                "verus/U3: str_bytes(v) — the content of a string object is a function of the pointer value (string objects are immutable and stay alive while referenced: liveness is C06's obligation)",
                "verus/U3: Value::view_string stands as view_bytes (R4): &str seen as its UTF-8 bytes; every string arm only uses len() and byte indexing",
            ],
            trusted_base=["verus 0.2026.09.13 + z3", "tools/slicer.py (arm lifting)", "rewrite rules R0, R3 (typed store), R4 (byte view)"] + vmenv.DROPPED,
            checker_cmds=[res['cmd'].replace(sc.path, "$SCRATCH")],
            notes=dict(rewrites=rewrites, canary_all_failed=(not vac), canary_verified=vac, verus_wall_s=round(res['wall_s'], 2)),
        )
        return obs, info
    finally:
        sc.cleanup()


# ------------------------------------------------------------------ replay
import abra_cli

SHORT = ["", "a", "b", "ab", "abc", "abd", "aa", "a\u00e9", "\u00e9", "\u00e9a", "z", "\U0001F600", "a\U0001F600", "ab ", "A", "aB"]


def _long_samples():
    out = []
    for L in (14, 15, 16, 17, 31, 32, 33, 47, 48, 49):
        out.append("x" * L)
        out.append("x" * (L - 1) + "\u00e9" + "!")      # 2-byte char straddling / next to offset L
        out.append("x" * (L - 2) + "\u4e16" + "y")      # 3-byte char
        out.append("x" * (L - 1) + "\U0001F600")        # 4-byte char
    return out


def _lit(s):
    return '"' + s.replace('\\', '\\\\').replace('"', '\\"') + '"'


def cli_differential():
    """(first mismatch or None, number of pairs).  All six comparisons and `..` on the real CLI."""
    longs = _long_samples()
    pairs = [(x, y) for x in SHORT for y in SHORT] + [(x, y) for x in longs for y in ("", "<<", "\u00e9", longs[0])] + [(y, x) for x in longs for y in ("", "a")]
    lines = ["fn f(a: string, b: string) {",
             "  println((a == b) .. \" \" .. (a != b) .. \" \" .. (a < b) .. \" \" .. (a <= b) .. \" \" .. (a > b) .. \" \" .. (a >= b) .. \" [\" .. (a .. b) .. \"]\")",
             "}"]
    for x, y in pairs:
        lines.append("f(%s, %s)" % (_lit(x), _lit(y)))
    out, err, rc = abra_cli.run_program("\n".join(lines) + "\n", timeout=300)
    got = out.split("\n")
    for i, (x, y) in enumerate(pairs):
        xb, yb = x.encode(), y.encode()
        want = "%s %s %s %s %s %s [%s]" % tuple([str(v).lower() for v in (xb == yb, xb != yb, xb < yb, xb <= yb, xb > yb, xb >= yb)] + [x + y])
        g = got[i] if i < len(got) and got[i] != "" or i < len(got) - 1 else "<no output: %s>" % err.strip().split("\n")[0][:200]
        if g != want:
            return dict(a=x, b=y, real_output=g, expected=want), len(pairs)
    return None, len(pairs)


def replay(ob):
    """Verus gives no counterexample.  Search for a failing input on the real CLI."""
    m = re.search(r'Instr::(\w+)', ob.function)
    name = m.group(1) if m else ""
    if name == 'StringNthByte':
        prog = 'println(string_nth_byte("abc", 2))\nprintln(string_nth_byte("abc", 3))\n'
        out, err, rc = abra_cli.run_program(prog)
        bad = ("panicked" in err) or (rc not in (0, 1)) or ("indexed past the end" not in (out + err))
        return (True if bad else None), dict(program=prog, real_output=(out + err)[:600],
                                             expected="99 then the array-out-of-bounds runtime error")
    bad, n = cli_differential()
    if bad:
        ob.cex = dict(a=bad['a'], b=bad['b'])
        return True, bad
    return None, dict(note="no failing input among %d sample pairs on the real CLI" % n)
