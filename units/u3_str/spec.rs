// ---------------------------------------------------------------------------
// U3: strings.  Top-level specification transcribed from C17 / C10: strings are
// their UTF-8 byte sequences; `..` is sequence concatenation; comparisons are
// lexicographic byte order (first differing byte decides; a proper prefix is smaller).
// ---------------------------------------------------------------------------
uninterp spec fn str_bytes(v: Value) -> Seq<u8>;   // content of the (immutable) string object v points to

spec fn prefix_eq(a: Seq<u8>, b: Seq<u8>, k: int) -> bool {
    0 <= k <= a.len() && k <= b.len() && forall|j: int| 0 <= j < k ==> a[j] == b[j]
}
// a < b  iff  at the first position k where they stop agreeing, a ended or a[k] < b[k]
spec fn lex_lt_at(a: Seq<u8>, b: Seq<u8>, k: int) -> bool {
    prefix_eq(a, b, k) && ((k == a.len() && k < b.len()) || (k < a.len() && k < b.len() && a[k] < b[k]))
}
spec fn lex_lt(a: Seq<u8>, b: Seq<u8>) -> bool { exists|k: int| lex_lt_at(a, b, k) }
spec fn lex_le(a: Seq<u8>, b: Seq<u8>) -> bool { lex_lt(a, b) || a == b }
spec fn lex_gt(a: Seq<u8>, b: Seq<u8>) -> bool { lex_lt(b, a) }
spec fn lex_ge(a: Seq<u8>, b: Seq<u8>) -> bool { lex_le(b, a) }

// decision lemma: with a common prefix of length idx, the byte at idx (or exhaustion) decides
proof fn lemma_lex_decide(a: Seq<u8>, b: Seq<u8>, idx: int)
    requires prefix_eq(a, b, idx),
    ensures
        (idx == a.len() || idx == b.len()) ==> (
            lex_lt(a, b) == (a.len() < b.len()) && lex_le(a, b) == (a.len() <= b.len())
            && lex_gt(a, b) == (a.len() > b.len()) && lex_ge(a, b) == (a.len() >= b.len())
            && (a == b) == (a.len() == b.len())),
        (idx < a.len() && idx < b.len() && a[idx] < b[idx]) ==> (lex_lt(a, b) && lex_le(a, b) && !lex_gt(a, b) && !lex_ge(a, b) && a != b),
        (idx < a.len() && idx < b.len() && a[idx] > b[idx]) ==> (!lex_lt(a, b) && !lex_le(a, b) && lex_gt(a, b) && lex_ge(a, b) && a != b),
{
    // any witness k of lex_lt(a,b) or lex_lt(b,a) cannot lie strictly before idx (bytes agree there)
    assert forall|k: int| lex_lt_at(a, b, k) implies k >= idx by {
        if k < idx { assert(a[k] == b[k]); }
    }
    assert forall|k: int| lex_lt_at(b, a, k) implies k >= idx by {
        if k < idx { assert(a[k] == b[k]); }
    }
    if idx == a.len() || idx == b.len() {
        if a.len() < b.len() { assert(lex_lt_at(a, b, idx)); }
        if b.len() < a.len() { assert(lex_lt_at(b, a, idx)); }
        if a.len() == b.len() { assert(a =~= b); }
        // no witness beyond idx: it would exceed one of the lengths
        assert forall|k: int| lex_lt_at(a, b, k) implies a.len() < b.len() by { }
        assert forall|k: int| lex_lt_at(b, a, k) implies b.len() < a.len() by { }
    } else if a[idx] < b[idx] {
        assert(lex_lt_at(a, b, idx));
        assert forall|k: int| lex_lt_at(b, a, k) implies false by {
            if k > idx { assert(b[idx] == a[idx]); }
        }
    } else if a[idx] > b[idx] {
        assert(lex_lt_at(b, a, idx));
        assert forall|k: int| lex_lt_at(a, b, k) implies false by {
            if k > idx { assert(a[idx] == b[idx]); }
        }
    }
}

// the order is a total order (C24 for strings): irreflexive, total, transitive
proof fn lemma_lex_total(a: Seq<u8>, b: Seq<u8>)
    ensures lex_lt(a, b) || a == b || lex_lt(b, a), !(lex_lt(a, b) && lex_lt(b, a)), !lex_lt(a, a),
            lex_le(a, b) == !lex_lt(b, a), lex_ge(a, b) == lex_le(b, a), lex_gt(a, b) == lex_lt(b, a),
{
    lemma_first_diff(a, b, 0);
    assert forall|k: int| lex_lt_at(a, a, k) implies false by { }
    assert forall|k1: int, k2: int| lex_lt_at(a, b, k1) && lex_lt_at(b, a, k2) implies false by {
        if k1 < k2 { assert(a[k1] == b[k1]); } else if k2 < k1 { assert(a[k2] == b[k2]); }
    }
    if a == b {
        assert forall|k: int| lex_lt_at(b, a, k) implies false by { }
    }
}
// from a common prefix of length i, either a witness exists in one direction or the strings are equal
proof fn lemma_first_diff(a: Seq<u8>, b: Seq<u8>, i: int)
    requires prefix_eq(a, b, i),
    ensures lex_lt(a, b) || a == b || lex_lt(b, a),
    decreases a.len() - i,
{
    if i == a.len() || i == b.len() {
        lemma_lex_decide(a, b, i);
    } else if a[i] != b[i] {
        lemma_lex_decide(a, b, i);
    } else {
        assert(prefix_eq(a, b, i + 1));
        lemma_first_diff(a, b, i + 1);
    }
}

// ---- operand view of a (possibly resumed) string arm ----
// fresh  <=> string_op_index1 == 0 (and index2 == 0 for concat): operands are still in registers
spec fn s_fresh(t: VmGreenThread) -> bool { t.string_op_index1 == 0 }
spec fn s_op1(t: VmGreenThread, reg1: u16, reg2: u16, fresh: bool) -> Value {
    if fresh { reg_val(reg_after_load(t.value_stack@, reg2), t.stack_base as int, reg1) } else { t.string_operand1 }
}
spec fn s_op2(t: VmGreenThread, reg2: u16, fresh: bool) -> Value {
    if fresh { reg_val(t.value_stack@, t.stack_base as int, reg2) } else { t.string_operand2 }
}
spec fn s_rest(t: VmGreenThread, reg1: u16, reg2: u16, fresh: bool) -> Seq<Value> {
    if fresh { reg_after_load(reg_after_load(t.value_stack@, reg2), reg1) } else { t.value_stack@ }
}
// everything except value_stack, pc, string_op_index1/2, string_operand1/2, concat builder
spec fn frame_strop(a: VmGreenThread, b: VmGreenThread) -> bool {
    &&& a.stack_base == b.stack_base
    &&& a.call_stack@ == b.call_stack@
    &&& a.heap_list@ == b.heap_list@
    &&& a.gray_stack@ == b.gray_stack@
    &&& a.gc_state == b.gc_state
    &&& a.gc_visited == b.gc_visited
    &&& a.heap_size == b.heap_size
    &&& a.gc_debt == b.gc_debt
    &&& a.last_gc_heap_size == b.last_gc_heap_size
    &&& a.pending_host_func == b.pending_host_func
    &&& a.error == b.error
    &&& a.pending_ffi_call == b.pending_ffi_call
    &&& a.done == b.done
    &&& a.is_main == b.is_main
    &&& a.id == b.id
    &&& a.shared == b.shared
}
// precondition of one step of a comparison arm
spec fn cmp_step_pre(t: VmGreenThread, dest: u16, reg1: u16, reg2: u16) -> bool {
    let fresh = s_fresh(t);
    let base = t.stack_base as int;
    let a = str_bytes(s_op1(t, reg1, reg2, fresh));
    let b = str_bytes(s_op2(t, reg2, fresh));
    &&& t.pc.0 >= 1
    &&& fresh ==> bin_pre(t, dest, reg1, reg2, ValueTag::String)
    &&& !fresh ==> (tag_of(t.string_operand1) == ValueTag::String && tag_of(t.string_operand2) == ValueTag::String
                    && reg_store_ok(t.value_stack@, base, dest))
    &&& prefix_eq(a, b, t.string_op_index1 as int)
}
// postcondition of one step: finished with the specified result, or advanced by exactly one byte
spec fn cmp_step_post(pre: VmGreenThread, post: VmGreenThread, cont: bool, dest: u16, reg1: u16, reg2: u16, result: bool) -> bool {
    let fresh = s_fresh(pre);
    let base = pre.stack_base as int;
    let op1 = s_op1(pre, reg1, reg2, fresh);
    let op2 = s_op2(pre, reg2, fresh);
    let a = str_bytes(op1);
    let b = str_bytes(op2);
    let rest = s_rest(pre, reg1, reg2, fresh);
    let idx = pre.string_op_index1 as int;
    &&& cont && frame_strop(pre, post)
    &&& post.string_op_index2 == pre.string_op_index2 && post.concat_string_builder@ == pre.concat_string_builder@
    &&& {
        ||| (post.string_op_index1 == 0 && post.pc == pre.pc
             && post.value_stack@ == reg_after_store(rest, base, dest, val_bool(result)))
        ||| (post.string_op_index1 == idx + 1 && post.pc.0 == pre.pc.0 - 1
             && post.string_operand1 == op1 && post.string_operand2 == op2
             && post.value_stack@ == rest
             && prefix_eq(a, b, idx + 1)
             && idx < a.len() && idx < b.len())     // measure min(|a|,|b|) - idx strictly decreases
    }
}

// ---- contract-only stand-in: Value::view_string seen as bytes (rewrite R4) ----
impl Value {
    // real: vm.rs Value::view_string (check_type + deref of the StringObject); R4 views the &str as its bytes
    #[verifier::external_body]
    fn view_bytes<'a>(&self, _vm: &VmGreenThread) -> (r: &'a [u8])
        requires tag_of(*self) == ValueTag::String,
        ensures r@ == str_bytes(*self),
    { unimplemented!() }
}

// ---- one-shot string arms ----
spec fn un_pre(t: VmGreenThread, dest: u16, reg: u16, tg: ValueTag) -> bool {
    let s0 = t.value_stack@; let base = t.stack_base as int;
    &&& reg_ok(s0, base, reg) && tag_of(reg_val(s0, base, reg)) == tg
    &&& reg_store_ok(reg_after_load(s0, reg), base, dest)
}
// StringNthByte(dest, reg1 = string, reg2 = index): reg2 fetched first
spec fn nth_pre(t: VmGreenThread, dest: u16, reg1: u16, reg2: u16) -> bool {
    let s0 = t.value_stack@; let base = t.stack_base as int;
    let s1 = reg_after_load(s0, reg2);
    &&& reg_ok(s0, base, reg2) && tag_of(reg_val(s0, base, reg2)) == ValueTag::Int
    &&& reg_ok(s1, base, reg1) && tag_of(reg_val(s1, base, reg1)) == ValueTag::String
    &&& reg_store_ok(reg_after_load(s1, reg1), base, dest)
}
spec fn nth_post(pre: VmGreenThread, post: VmGreenThread, cont: bool, dest: u16, reg1: u16, reg2: u16) -> bool {
    let base = pre.stack_base as int;
    let n = int_of(bin_b(pre, reg2)) as int;
    let s = str_bytes(bin_a(pre, reg1, reg2));
    let rest = bin_rest(pre, reg1, reg2);
    if 0 <= n < s.len() {
        cont && post.value_stack@ == reg_after_store(rest, base, dest, val_int(s[n] as i64)) && frame_stack(pre, post)
    } else {
        // C01/C26: an out-of-range index must stop with the documented runtime error, never a host panic
        !cont && has_error(post, ErrK::OutOfBounds) && frame_stack_err(pre, post)
    }
}

// ---- ConcatStrings: resumable, one byte per step ----
spec fn val_strptr(p: *mut StringObject) -> Value { val_sptr(p) }
spec fn c_fresh(t: VmGreenThread) -> bool { t.string_op_index1 == 0 && t.string_op_index2 == 0 }
// everything except value_stack, pc, string-op state and the allocation bookkeeping
spec fn frame_concat(a: VmGreenThread, b: VmGreenThread) -> bool {
    &&& a.stack_base == b.stack_base
    &&& a.call_stack@ == b.call_stack@
    &&& a.gc_state == b.gc_state
    &&& a.gc_visited == b.gc_visited
    &&& a.last_gc_heap_size == b.last_gc_heap_size
    &&& a.pending_host_func == b.pending_host_func
    &&& a.error == b.error
    &&& a.pending_ffi_call == b.pending_ffi_call
    &&& a.done == b.done
    &&& a.is_main == b.is_main
    &&& a.id == b.id
    &&& a.shared == b.shared
}
spec fn heap_same(a: VmGreenThread, b: VmGreenThread) -> bool {
    a.heap_list@ == b.heap_list@ && a.gray_stack@ == b.gray_stack@ && a.heap_size == b.heap_size && a.gc_debt == b.gc_debt
}
spec fn concat_inv(t: VmGreenThread, a: Seq<u8>, b: Seq<u8>) -> bool {
    let i1 = t.string_op_index1 as int; let i2 = t.string_op_index2 as int;
    &&& i1 <= a.len() && i2 <= b.len()
    &&& (i2 > 0 ==> i1 == a.len())
    &&& t.concat_string_builder@ =~= (a + b).subrange(0, i1 + i2)
}
spec fn concat_step_pre(t: VmGreenThread, dest: u16, reg1: u16, reg2: u16) -> bool {
    let fresh = c_fresh(t);
    let base = t.stack_base as int;
    let a = str_bytes(s_op1(t, reg1, reg2, fresh));
    let b = str_bytes(s_op2(t, reg2, fresh));
    &&& t.pc.0 >= 1
    &&& a.len() + b.len() <= usize::MAX     // both are live allocations (<= isize::MAX bytes each)
    &&& fresh ==> bin_pre(t, dest, reg1, reg2, ValueTag::String)
    &&& !fresh ==> (tag_of(t.string_operand1) == ValueTag::String && tag_of(t.string_operand2) == ValueTag::String
                    && reg_store_ok(t.value_stack@, base, dest) && concat_inv(t, a, b))
}
spec fn concat_step_post(pre: VmGreenThread, post: VmGreenThread, cont: bool, dest: u16, reg1: u16, reg2: u16) -> bool {
    let fresh = c_fresh(pre);
    let base = pre.stack_base as int;
    let op1 = s_op1(pre, reg1, reg2, fresh);
    let op2 = s_op2(pre, reg2, fresh);
    let a = str_bytes(op1);
    let b = str_bytes(op2);
    let rest = s_rest(pre, reg1, reg2, fresh);
    let done1 = if fresh { 0int } else { pre.string_op_index1 as int };
    let done2 = if fresh { 0int } else { pre.string_op_index2 as int };
    &&& cont && frame_concat(pre, post)
    &&& {
        // finished: a fresh string object holding exactly a ++ b is stored in dest
        ||| (post.string_op_index1 == 0 && post.string_op_index2 == 0 && post.pc == pre.pc
             && exists|p: *mut StringObject| #![trigger val_strptr(p)]
                    post.value_stack@ == reg_after_store(rest, base, dest, val_strptr(p))
                    && str_bytes(val_strptr(p)) =~= a + b && tag_of(val_strptr(p)) == ValueTag::String
                    && post.heap_list@ == pre.heap_list@.push(p as *mut ObjectHeader))
        // advanced by exactly one byte
        ||| (post.string_op_index1 as int + post.string_op_index2 as int == done1 + done2 + 1
             && post.pc.0 == pre.pc.0 - 1
             && post.string_operand1 == op1 && post.string_operand2 == op2
             && post.value_stack@ == rest && heap_same(pre, post)
             && concat_inv(post, a, b)
             && done1 + done2 < a.len() + b.len())   // measure |a|+|b| - (i1+i2) strictly decreases
    }
}

impl VmGreenThread {
    // real: `String::from_utf8(builder).unwrap()` followed by `StringObject::new(s, self)` (rewrite R7).
    // ASSUMED: from_utf8 succeeds (the concatenation of two valid UTF-8 strings is valid UTF-8);
    // the allocation bookkeeping of StringObject::new is unit U6's obligation.
    #[verifier::external_body]
    fn new_string_from_utf8(&mut self, bytes: Vec<u8>) -> (p: *mut StringObject)
        ensures
            str_bytes(val_strptr(p)) == bytes@, tag_of(val_strptr(p)) == ValueTag::String,
            final(self).heap_list@ == old(self).heap_list@.push(p as *mut ObjectHeader),
            frame_concat(*old(self), *final(self)),
            final(self).value_stack@ == old(self).value_stack@, final(self).pc == old(self).pc,
            final(self).string_op_index1 == old(self).string_op_index1, final(self).string_op_index2 == old(self).string_op_index2,
            final(self).string_operand1 == old(self).string_operand1, final(self).string_operand2 == old(self).string_operand2,
            final(self).concat_string_builder@ == old(self).concat_string_builder@,
    { unimplemented!() }

    #[verifier::external_body]
    fn store_offset_or_top_strptr(&mut self, arg: u16, val: *mut StringObject)
        requires reg_store_ok(old(self).value_stack@, old(self).stack_base as int, arg),
        ensures
            final(self).value_stack@ == reg_after_store(old(self).value_stack@, old(self).stack_base as int, arg, val_strptr(val)),
            frame_stack(*old(self), *final(self)),
    { unimplemented!() }
}
