"""U17: operator -> opcode tables (SYNTACTIC obligations, no solver).

The VM arm units prove what each opcode does.  That a source operator reaches THAT
opcode is code generation, which no contract within reach decides in general; for the
handful of fixed tables below the shape of the real text is simple enough to read
mechanically on every run:

  * translate_bytecode.rs  ExprKind::BinOp      + - * / ^ %   ->  AddInt/AddFloat …
  * translate_bytecode.rs  StmtKind::Assign      += -= *= /= %=  ->  same opcodes as the binary operator
  * translate_bytecode.rs  ExprKind::Unop Minus  -x             ->  PushInt(0)/PushFloat("0.0"); x; SubInt/SubFloat
  * assembly.rs            instr_to_vminstr      asm opcode X(d, r1, r2) -> VM opcode X(d.encode(), r1.encode(), r2.encode())

A table whose shape is not recognised is UNDECIDED.  A recognised table that names a
different opcode than the operator's own FAILS, and the replay runs that operator on the
real CLI against exact integer / IEEE arithmetic.  These obligations are labelled
syntactic in evidence and are not counted as proofs."""
import os
import re
import time
import engine as E
import slicer as S
import abra_cli

UNIT = "U17-codegen"
TB = 'abra_core/src/translate_bytecode.rs'
ASM = 'abra_core/src/assembly.rs'
TTT = r'\(Reg::Top,Reg::Top,Reg::Top\)'
BACKEND = "syntactic (regex on comment- and whitespace-free real source; no solver)"


def norm(text):
    text = re.sub(r'//[^\n]*', '', text)
    text = re.sub(r'\s+', '', text)
    return text.replace(',)', ')').replace(',}', '}')


BIN = {'Add': ('AddInt', 'AddFloat', '+'), 'Subtract': ('SubInt', 'SubFloat', '-'), 'Multiply': ('MulInt', 'MulFloat', '*'),
       'Divide': ('DivInt', 'DivFloat', '/'), 'Pow': ('PowInt', 'PowFloat', '^')}
ASSIGN = {'PlusEq': ('AddInt', 'AddFloat', '+='), 'MinusEq': ('SubInt', 'SubFloat', '-='), 'StarEq': ('MulInt', 'MulFloat', '*='),
          'SlashEq': ('DivInt', 'DivFloat', '/=')}
VM_NAME = {'SubInt': 'SubtractInt', 'DivInt': 'DivideInt', 'DivIntImm': 'DivideIntImm', 'PowInt': 'PowerInt',
           'PowIntImm': 'PowerIntImm', 'PowFloat': 'PowerFloat', 'PowFloatImm': 'PowerFloatImm'}


def _emit(cap=True):
    return r'self\.emit\(st,Instr::%s%s\)' % (r'(\w+)' if cap else r'\w+', TTT)


def table_obligations():
    t0 = time.time()
    tb = norm(S.read(TB))
    asm = S.read(ASM)
    sha_tb, sha_asm = S.sha(S.read(TB)), S.sha(asm)
    obs = []

    def ob(oid, props, fn, file, sha, status, detail, text):
        obs.append(E.Obligation(oid, props, UNIT, fn, BACKEND, status, detail, time.time() - t0, file, sha,
                                "syntactic check of code shape (not a proof)", "SYNTACTIC: " + text))

    def judge(oid, props, fn, found, want, text, what):
        if found is None:
            ob(oid, props, fn, TB, sha_tb, E.UNDECIDED, "expected code shape not found exactly once (anchor lost or code restructured)", text)
        elif tuple(found) != tuple(want):
            ob(oid, props, fn, TB, sha_tb, E.FAILED, "%s emits %s, expected %s" % (what, list(found), list(want)), text)
        else:
            ob(oid, props, fn, TB, sha_tb, E.DISCHARGED, "", text)

    def find1(rx):
        ms = re.findall(rx, tb)
        return ms[0] if len(ms) == 1 else None

    for op, (wi, wf, sym) in BIN.items():
        rx = (r'BinaryOperator::%s=>matcharg1_ty\{SolvedType::Int=>\{%s\}SolvedType::Float=>\{%s\}_=>unreachable!\(\)\}' % (op, _emit(), _emit()))
        judge("C15.codegen.binop.%s" % op, ["C15", "C16"], "Translator::translate_expr (ExprKind::BinOp)", find1(rx), (wi, wf),
              "`a %s b` compiles to %s for int and %s for float on (Top, Top, Top)" % (sym, wi, wf), "BinaryOperator::" + op)
    m = find1(r'BinaryOperator::Mod=>\{%s\}' % _emit())
    judge("C15.codegen.binop.Mod", ["C15"], "Translator::translate_expr (ExprKind::BinOp)", None if m is None else (m,), ('Modulo',),
          "`a % b` compiles to Modulo on (Top, Top, Top)", "BinaryOperator::Mod")
    for op, (wi, wf, sym) in ASSIGN.items():
        rx = (r'AssignOperator::%s=>\{matchrvalue_ty\{SolvedType::Int=>\{%s;\}SolvedType::Float=>\{%s;\}_=>unreachable!\(\)\};\}' % (op, _emit(), _emit()))
        judge("C15.codegen.assign.%s" % op, ["C15", "C16"], "Translator::translate_stmt (StmtKind::Assign, perform_op)", find1(rx), (wi, wf),
              "`x %s e` performs the same opcode as the binary operator: %s for int, %s for float" % (sym, wi, wf), "AssignOperator::" + op)
    m = find1(r'AssignOperator::ModEq=>\{%s;\}' % _emit())
    judge("C15.codegen.assign.ModEq", ["C15"], "Translator::translate_stmt (StmtKind::Assign, perform_op)", None if m is None else (m,), ('Modulo',),
          "`x %= e` performs Modulo", "AssignOperator::ModEq")
    # the variable form of compound assignment: load x; rvalue; op; store x  (operand order x OP e)
    m = find1(r'self\.emit\(st,Instr::LoadOffset\(\*idx\)\);self\.translate_expr\(rvalue,offset_table,mono,st\);perform_op\(st\);self\.emit\(st,Instr::(\w+)\(\*idx\)\);')
    judge("C15.codegen.assign.variable_order", ["C15", "C16"], "Translator::translate_stmt (StmtKind::Assign, variable)", None if m is None else (m,), ('StoreOffset',),
          "`x OP= e` on a variable: LoadOffset(x); e; OP; StoreOffset(x) — left operand is the old value of x", "compound assignment to a variable")
    rx = (r'PrefixOp::Minus=>matcharg1_ty\{SolvedType::Int=>\{self\.emit\(st,Instr::PushInt\((\d+)\)\);self\.translate_expr\(right,offset_table,mono,st\);%s\}'
          r'SolvedType::Float=>\{self\.emit\(st,Instr::PushFloat\("([0-9.]+)"\.into\(\)\)\);self\.translate_expr\(right,offset_table,mono,st\);%s\}' % (_emit(), _emit()))
    judge("C15.codegen.unary_minus", ["C15", "C16"], "Translator::translate_expr (ExprKind::Unop)", find1(rx), ('0', 'SubInt', '0.0', 'SubFloat'),
          "`-x` compiles to PushInt(0); x; SubInt (0 - x, overflow for MIN as C15 requires) / PushFloat(\"0.0\"); x; SubFloat", "PrefixOp::Minus")

    # C32: every statement and every expression first records its own source position, and emit() stamps
    # each emitted line with the current position
    for fn_, arg, oid in (("translate_stmt", "stmt", "C32.codegen.translate_stmt.sets_location"), ("translate_expr", "expr", "C32.codegen.translate_expr.sets_location")):
        try:
            ftxt = S.method(TB, r'impl Translator \{', fn_, with_attrs=False)
            _, body = S.fn_parts(ftxt)
            first = norm(body)[:120]
            want = "self.update_current_file_and_lineno(st,%s.node());match&*%s.kind{" % (arg, arg)
            if first.startswith(want):
                ob(oid, ["C32"], "Translator::" + fn_, TB, sha_tb, E.DISCHARGED, "", "the first statement of %s is update_current_file_and_lineno(st, %s.node()), before anything is emitted" % (fn_, arg))
            elif "update_current_file_and_lineno" in norm(body)[:400]:
                ob(oid, ["C32"], "Translator::" + fn_, TB, sha_tb, E.UNDECIDED, "position update present but not in the expected place: " + first[:100], "first statement of %s records the node's position" % fn_)
            else:
                ob(oid, ["C32"], "Translator::" + fn_, TB, sha_tb, E.FAILED, "%s no longer records the node's source position before emitting: body starts `%s`" % (fn_, first[:100]),
                   "the first statement of %s is update_current_file_and_lineno(st, %s.node())" % (fn_, arg))
        except S.SliceError as ex:
            ob(oid, ["C32"], "Translator::" + fn_, TB, sha_tb, E.UNDECIDED, str(ex), "first statement of %s records the node's position" % fn_)
    try:
        utxt = norm(S.method(TB, r'impl Translator \{', 'update_current_file_and_lineno', with_attrs=False))
        good = ("letlocation=node.location();" in utxt and "line_number_for_index(location.lo)" in utxt and "st.curr_file=file_id;" in utxt and "st.curr_lineno=line_no;" in utxt)
        ob("C32.codegen.update_location.post", ["C32"], "Translator::update_current_file_and_lineno", TB, sha_tb, E.DISCHARGED if good else E.UNDECIDED,
           "" if good else "shape changed", "update_current_file_and_lineno sets st.curr_file / st.curr_lineno from the node's own location (line_number_for_index(location.lo))")
    except S.SliceError as ex:
        ob("C32.codegen.update_location.post", ["C32"], "Translator::update_current_file_and_lineno", TB, sha_tb, E.UNDECIDED, str(ex), "")

    # assembly: every three-register / two-register opcode maps to the VM opcode of the same name with operands in order
    i = asm.find('fn instr_to_vminstr')
    body = norm(asm[i:]) if i >= 0 else ""
    pairs3 = re.findall(r'Instr::(\w+)\((\w+),(\w+),(\w+)\)=>\{?VmInstr::(\w+)\((\w+)\.encode\(\),(\w+)\.encode\(\),(\w+)\.encode\(\)\)', body)
    pairs3i = re.findall(r'Instr::(\w+)\((\w+),(\w+),(\w+)\)=>\{?VmInstr::(\w+)\((\w+)\.encode\(\),(\w+)\.encode\(\),constants\.(int|float)_constants\.try_get_id\((\w+)\)\.unwrap\(\)asu16\)', body)
    pairs2 = re.findall(r'Instr::(\w+)\((\w+),(\w+)\)=>\{?VmInstr::(\w+)\((\w+)\.encode\(\),(\w+)\.encode\(\)\)', body)
    bad = []
    for a, p1, p2, p3, v, q1, q2, q3 in pairs3:
        if VM_NAME.get(a, a) != v or (p1, p2, p3) != (q1, q2, q3):
            bad.append("%s(%s,%s,%s) -> %s(%s,%s,%s)" % (a, p1, p2, p3, v, q1, q2, q3))
    for a, p1, p2, p3, v, q1, q2, kind, q3 in pairs3i:
        want_kind = 'float' if 'Float' in a else 'int'
        if VM_NAME.get(a, a) != v or (p1, p2, p3) != (q1, q2, q3) or kind != want_kind:
            bad.append("%s(%s,%s,%s) -> %s(%s,%s,%s_constants[%s])" % (a, p1, p2, p3, v, q1, q2, kind, q3))
    for a, p1, p2, v, q1, q2 in pairs2:
        if VM_NAME.get(a, a) != v or (p1, p2) != (q1, q2):
            bad.append("%s(%s,%s) -> %s(%s,%s)" % (a, p1, p2, v, q1, q2))
    n = len(pairs3) + len(pairs3i) + len(pairs2)
    text = ("instr_to_vminstr maps every register-operand assembly opcode to the VM opcode of the same name "
            "(SubInt->SubtractInt, DivInt->DivideInt, Pow*->Power* being the documented spellings) with operands in the same order, "
            "immediates through the constant table of their own type; %d arms read" % n)
    if n < 75:
        ob("C05.codegen.instr_to_vminstr.same_opcode", ["C05", "C15", "C16"], "assembly::instr_to_vminstr", ASM, sha_asm, E.UNDECIDED,
           "only %d arms recognised (expected >= 75): shape changed" % n, text)
    elif bad:
        ob("C05.codegen.instr_to_vminstr.same_opcode", ["C05", "C15", "C16"], "assembly::instr_to_vminstr", ASM, sha_asm, E.FAILED,
           "mismatched arms: " + "; ".join(bad[:6]), text)
    else:
        ob("C05.codegen.instr_to_vminstr.same_opcode", ["C05", "C15", "C16"], "assembly::instr_to_vminstr", ASM, sha_asm, E.DISCHARGED, "", text)
    return obs


def run(tier="quick"):
    obs = table_obligations()
    want = os.environ.get("ABRA_VERIF_PROP")
    if want:
        obs = [o for o in obs if want in o.props]
    info = dict(
        assumptions=["U17: syntactic obligations tie source operators to opcodes by reading fixed tables of the real text; they prove nothing about values and are not counted as proofs"],
        trusted_base=["U17's regular expressions over the whitespace-free source"],
        checker_cmds=["python3 units/u17_codegen (regex tables over translate_bytecode.rs / assembly.rs)"],
        notes=dict(syntactic=len(obs)))
    return obs, info


# ------------------------------------------------------------------ replay: the operator on the real CLI
def _fits(x):
    return -(1 << 63) <= x < (1 << 63)


def replay_c32(ob):
    """Runtime errors raised by different statement forms must be reported on their own line."""
    progs = [
        ("fn f(n: int) -> int {\n  var acc = 1\n  println(\"a\")\n  acc *= n\n  acc\n}\nf(9223372036854775807)\nvar z = 3\nprintln(\"b\")\nz *= 9223372036854775807\n", ":10 "),
        ("var x = 7\nprintln(\"a\")\nx /= 0\n", ":3 "),
        ("let a = [1]\nprintln(\"a\")\nlet b = a[5]\n", ":3 "),
        ("let a = 1\nprintln(\"a\")\nlet b = a / 0\n", ":3 "),
    ]
    for prog, want in progs:
        out, err, rc = abra_cli.run_program(prog)
        tb = (out + err).split("[traceback]")[-1].strip().split("\n")[0] if "[traceback]" in (out + err) else (out + err)[-200:]
        if want not in tb + " ":
            ob.cex = dict(program=prog)
            return True, dict(program=prog, first_traceback_line=tb, expected_location="main.abra" + want.strip())
    return None, dict(note="all %d error programs report the failing statement's own line" % len(progs))


def replay(ob):
    """Run every arithmetic operator, binary and compound, on int and float operands on the real
    CLI and compare with exact arithmetic; report the first disagreement."""
    if ob.id.startswith("C32."):
        return replay_c32(ob)
    cases = [(7, 3), (-7, 3), (7, -3), (2, 10), (0, 5), (9, 2)]
    lines, want = [], []
    for a, b in cases:
        for sym, f in [('+', lambda x, y: x + y), ('-', lambda x, y: x - y), ('*', lambda x, y: x * y),
                       ('/', lambda x, y: abs(x) // abs(y) * (1 if (x >= 0) == (y >= 0) else -1)), ('%', lambda x, y: x % abs(y)),
                       ('^', lambda x, y: x ** y if y >= 0 else None)]:
            r = f(a, b)
            if r is None or not _fits(r):
                continue
            lines.append("println(bi(%d, %d, \"%s\"))" % (a, b, sym))
            want.append(str(r))
            if sym != '^':
                lines.append("println(ca(%d, %d, \"%s\"))" % (a, b, sym))
                want.append(str(r))
        lines.append("println(ng(%d))" % a)
        want.append(str(-a))
    prog = """fn bi(a: int, b: int, op: string) -> int {
    if op == "+" { return a + b }
    if op == "-" { return a - b }
    if op == "*" { return a * b }
    if op == "/" { return a / b }
    if op == "%" { return a % b }
    a ^ b
}
fn ca(a: int, b: int, op: string) -> int {
    var x = a
    if op == "+" { x += b }
    if op == "-" { x -= b }
    if op == "*" { x *= b }
    if op == "/" { x /= b }
    if op == "%" { x %= b }
    x
}
fn ng(a: int) -> int { -a }
""" + "\n".join(lines) + "\n"
    fl = [("fb(7.5, 2.0, \"+\")", 9.5), ("fb(7.5, 2.0, \"-\")", 5.5), ("fb(7.5, 2.0, \"*\")", 15.0), ("fb(7.5, 2.0, \"/\")", 3.75),
          ("fc(7.5, 2.0, \"+\")", 9.5), ("fc(7.5, 2.0, \"-\")", 5.5), ("fc(7.5, 2.0, \"*\")", 15.0), ("fc(7.5, 2.0, \"/\")", 3.75), ("fn_(7.5)", -7.5)]
    prog += """fn fb(a: float, b: float, op: string) -> float {
    if op == "+" { return a + b }
    if op == "-" { return a - b }
    if op == "*" { return a * b }
    a / b
}
fn fc(a: float, b: float, op: string) -> float {
    var x = a
    if op == "+" { x += b }
    if op == "-" { x -= b }
    if op == "*" { x *= b }
    if op == "/" { x /= b }
    x
}
fn fn_(a: float) -> float { -a }
""" + "\n".join("println(%s)" % c for c, _ in fl) + "\n"
    out, err, rc = abra_cli.run_program(prog, timeout=120)
    got = out.strip().split("\n")
    exp = want + [repr(v).rstrip('0').rstrip('.') if False else ("%s" % v) for _, v in fl]
    for i, e in enumerate(exp):
        g = got[i] if i < len(got) else "<missing: %s>" % (err[:200])
        try:
            same = (float(g) == float(e))
        except ValueError:
            same = False
        if not same:
            call = (lines + [c for c, _ in fl])[i]
            ob.cex = dict(call=call)
            return True, dict(call=call, real_output=g, expected=e, stderr=err[:300])
    return None, dict(note="all %d operator instances agree with exact arithmetic on the real CLI" % len(exp))
