// C37 harnesses.  This text is compiled as the child module `id_set::u15` of the
// module whose body is the real utils/src/id_set.rs (include!), so private fields of
// IdSet / Ptr are visible.
//
// Bounded: T = u8.  IdSet<T> uses T only through Eq/Hash (and the map stub R5 ignores the
// hash value), so its behaviour on a history of inserts depends only on the EQUALITY
// PATTERN of the inserted values.  The harnesses enumerate every equality pattern
// (restricted-growth string) of histories of up to 3 inserts (quick: H3, 9 histories
// incl. the empty one) or up to 4 inserts (thorough: H4, 24 histories) with concrete
// representative values, then apply the operation under test; queried values and ids
// are symbolic where that is affordable.  Concrete shapes are required because CBMC
// needs > 4 GB as soon as the buffer-switching structure becomes symbolic.
//
// Model (C37: "a map-plus-vector model"): the insertion-ordered vector of distinct
// values; id = position.
use super::*;

const VALS: [u8; 4] = [7, 200, 31, 8];

const H3: &[&[u8]] = &[
    &[],
    &[0],
    &[0, 0],
    &[0, 1],
    &[0, 0, 0],
    &[0, 0, 1],
    &[0, 1, 0],
    &[0, 1, 1],
    &[0, 1, 2],
];

const H4: &[&[u8]] = &[
    &[],
    &[0],
    &[0, 0],
    &[0, 1],
    &[0, 0, 0],
    &[0, 0, 1],
    &[0, 1, 0],
    &[0, 1, 1],
    &[0, 1, 2],
    &[0, 0, 0, 0],
    &[0, 0, 0, 1],
    &[0, 0, 1, 0],
    &[0, 0, 1, 1],
    &[0, 0, 1, 2],
    &[0, 1, 0, 0],
    &[0, 1, 0, 1],
    &[0, 1, 0, 2],
    &[0, 1, 1, 0],
    &[0, 1, 1, 1],
    &[0, 1, 1, 2],
    &[0, 1, 2, 0],
    &[0, 1, 2, 1],
    &[0, 1, 2, 2],
    &[0, 1, 2, 3],
];

struct Model {
    v: [u8; 6],
    n: usize,
}

impl Model {
    fn new() -> Self {
        Model { v: [0; 6], n: 0 }
    }
    fn pos(&self, x: u8) -> Option<u32> {
        let mut i = 0;
        while i < self.n {
            if self.v[i] == x {
                return Some(i as u32);
            }
            i += 1;
        }
        None
    }
    fn insert(&mut self, x: u8) -> u32 {
        match self.pos(x) {
            Some(i) => i,
            None => {
                self.v[self.n] = x;
                self.n += 1;
                (self.n - 1) as u32
            }
        }
    }
}

fn in_buf(p: *const u8, b: &Vec<u8>) -> bool {
    let a = p as usize;
    let lo = b.as_ptr() as usize;
    b.len() > 0 && a >= lo && a < lo + b.len()
}

/// `p` points at a live element of one of THIS set's buffers
fn owned(s: &IdSet<u8>, p: *const u8) -> bool {
    if in_buf(p, &s.current_buf) {
        return true;
    }
    let mut j = 0;
    while j < s.old_bufs.len() {
        if in_buf(p, &s.old_bufs[j]) {
            return true;
        }
        j += 1;
    }
    false
}

/// representation invariant wf(s) and agreement with the model, by id and by value
fn check(s: &IdSet<u8>, m: &Model) {
    assert!(s.map.len() == m.n, "wf: map.len() == number of distinct values inserted");
    assert!(s.id_to_ptr.len() == m.n, "wf: id_to_ptr.len() == map.len()");
    let mut i = 0;
    while i < m.n {
        let p = s.id_to_ptr[i];
        assert!(owned(s, p), "wf: id_to_ptr[id] points into one of this set's own buffers");
        assert!(unsafe { *p } == m.v[i], "model: value stored for id i is the i-th distinct value inserted");
        i += 1;
    }
    let mut j = 0;
    while j < s.map.entries.len() {
        let (k, id) = s.map.entries[j];
        assert!((id as usize) < m.n, "wf: ids are 0..len");
        assert!(k.0 == s.id_to_ptr[id as usize], "wf: a map key is the interned pointer of its id");
        j += 1;
    }
    let mut i = 0;
    while i < m.n {
        assert!(s.try_get_id(&m.v[i]) == Some(i as u32), "model: try_get_id(value of id i) == Some(i)");
        assert!(s[i as u32] == m.v[i], "model: set[i] is the i-th distinct value");
        i += 1;
    }
    assert!(s.len() == m.n, "model: len");
}

/// run one history; every insert's returned id is compared with the model
fn hist(pat: &[u8]) -> (IdSet<u8>, Model) {
    let mut s: IdSet<u8> = IdSet::new();
    let mut m = Model::new();
    let mut j = 0;
    while j < pat.len() {
        let x = VALS[pat[j] as usize];
        s.insert(x);
        m.insert(x);
        j += 1;
    }
    (s, m)
}

// ------------------------------------------------------------------ operation bodies

fn body_insert(pat: &[u8]) {
    // the history itself is the operation under test: check after every step
    let mut s: IdSet<u8> = IdSet::new();
    let mut m = Model::new();
    check(&s, &m);
    let mut j = 0;
    while j < pat.len() {
        let x = VALS[pat[j] as usize];
        let was = m.pos(x);
        let id = s.insert(x);
        match was {
            Some(old) => assert!(id == old, "model: re-inserting a value returns its stable id"),
            None => assert!(id as usize == m.n, "model: a new value gets the next id, in insertion order"),
        }
        m.insert(x);
        check(&s, &m);
        j += 1;
    }
}

fn body_try_get_id(pat: &[u8]) {
    let (s, m) = hist(pat);
    let x: u8 = kani::any();
    assert!(s.try_get_id(&x) == m.pos(x), "model: try_get_id agrees with the position in the model (any u8)");
    check(&s, &m);
}

fn body_get_id(pat: &[u8]) {
    let (s, m) = hist(pat);
    let x: u8 = kani::any();
    if m.pos(x).is_some() {
        // documented: panics when absent
        assert!(Some(s.get_id(&x)) == m.pos(x), "model: get_id agrees with the position in the model");
    }
    check(&s, &m);
}

fn body_index(pat: &[u8]) {
    let (mut s, m) = hist(pat);
    let mut i = 0;
    while i < m.n {
        assert!(s[i as u32] == m.v[i], "model: Index by id returns the i-th distinct value");
        let r: &mut u8 = &mut s[i as u32];
        assert!(*r == m.v[i], "model: IndexMut by id designates the same element");
        i += 1;
    }
    check(&s, &m);
}

fn body_contains(pat: &[u8]) {
    let (s, m) = hist(pat);
    let x: u8 = kani::any();
    assert!(s.contains(&x) == m.pos(x).is_some(), "model: contains (any u8)");
    check(&s, &m);
}

fn body_len(pat: &[u8]) {
    let (s, m) = hist(pat);
    assert!(s.len() == m.n, "model: len == number of distinct values");
    assert!(s.is_empty() == (m.n == 0), "model: is_empty");
    check(&s, &m);
}

fn body_clear(pat: &[u8]) {
    let (mut s, _m) = hist(pat);
    s.clear();
    let mut m = Model::new();
    check(&s, &m);
    assert!(s.iter().next().is_none(), "model: iteration after clear is empty");
    // ids restart and the set is usable
    let id = s.insert(VALS[1]);
    assert!(id == m.insert(VALS[1]), "model: first id after clear is 0");
    let id = s.insert(VALS[0]);
    assert!(id == m.insert(VALS[0]), "model: second id after clear is 1");
    check(&s, &m);
}

fn body_iter(pat: &[u8]) {
    let (s, m) = hist(pat);
    let mut it = s.iter();
    let mut i = 0;
    while i < m.n {
        assert!(it.next() == Some(&m.v[i]), "model: iter yields values in insertion (= id) order");
        i += 1;
    }
    assert!(it.next().is_none(), "model: iter yields exactly len values");
    check(&s, &m);
}

fn body_ref_into_iter(pat: &[u8]) {
    let (s, m) = hist(pat);
    let mut k = 0;
    for r in &s {
        assert!(k < m.n && *r == m.v[k], "model: IntoIterator for &IdSet is in id order");
        k += 1;
    }
    assert!(k == m.n, "model: IntoIterator for &IdSet yields exactly len values");
}

fn body_into_iter(pat: &[u8]) {
    let (s, m) = hist(pat);
    let mut it = s.into_iter();
    let mut i = 0;
    while i < m.n {
        assert!(it.next() == Some(m.v[i]), "model: into_iter yields values in insertion (= id) order");
        i += 1;
    }
    assert!(it.next().is_none(), "model: into_iter yields exactly len values");
}

fn body_clone(pat: &[u8]) {
    let (s, m) = hist(pat);
    let mut c = s.clone();
    check(&c, &m); // the clone is wf ON ITS OWN buffers and equals the model
    check(&s, &m); // the original is unchanged
    // the two evolve independently
    let mut mc = Model { v: m.v, n: m.n };
    let id = c.insert(VALS[3]);
    assert!(id == mc.insert(VALS[3]), "model: insert into the clone");
    check(&c, &mc);
    check(&s, &m);
}

fn body_clone_drop(pat: &[u8]) {
    let (s, m) = hist(pat);
    let c = s.clone();
    drop(s);
    // every read through the clone must touch live memory owned by the clone
    let mut i = 0;
    while i < m.n {
        assert!(c[i as u32] == m.v[i], "clone independent: Index after the original was dropped");
        i += 1;
    }
    check(&c, &m);
}

fn body_clone_clear(pat: &[u8]) {
    let (mut s, m) = hist(pat);
    let mut c = s.clone();
    s.clear();
    s.insert(0xEE); // reuse of the original must not disturb the clone either
    let mut i = 0;
    while i < m.n {
        assert!(c[i as u32] == m.v[i], "clone independent: Index after the original was cleared");
        i += 1;
    }
    check(&c, &m);
    let mut mc = Model { v: m.v, n: m.n };
    let id = c.insert(VALS[3]);
    assert!(id == mc.insert(VALS[3]), "clone independent: insert into the clone after the original was cleared");
    check(&c, &mc);
}

// ------------------------------------------------------------------ harnesses

macro_rules! over_histories {
    ($quick:ident, $thorough:ident, $($body:ident),+) => {
        #[kani::proof]
        #[kani::unwind(12)]
        fn $quick() {
            let mut h = 0;
            while h < H3.len() {
                $($body(H3[h]);)+
                h += 1;
            }
            kani::cover!(true, "reachable: all histories of <= 3 inserts executed");
        }

        #[kani::proof]
        #[kani::unwind(12)]
        fn $thorough() {
            let mut h = 0;
            while h < H4.len() {
                $($body(H4[h]);)+
                h += 1;
            }
            kani::cover!(true, "reachable: all histories of <= 4 inserts executed");
        }
    };
}

#[kani::proof]
#[kani::unwind(12)]
fn op_new() {
    let s: IdSet<u8> = IdSet::new();
    let m = Model::new();
    check(&s, &m);
    assert!(s.is_empty(), "model: a new set is empty");
    assert!(s.iter().next().is_none(), "model: a new set iterates over nothing");
    let x: u8 = kani::any();
    assert!(s.try_get_id(&x).is_none() && !s.contains(&x), "model: a new set contains nothing");
    let d: IdSet<u8> = IdSet::default();
    check(&d, &m);
    kani::cover!(true, "reachable");
}

over_histories!(op_insert, op_insert_h4, body_insert);
over_histories!(op_try_get_id, op_try_get_id_h4, body_try_get_id);
over_histories!(op_get_id, op_get_id_h4, body_get_id);
over_histories!(op_index, op_index_h4, body_index);
over_histories!(op_contains, op_contains_h4, body_contains);
over_histories!(op_len, op_len_h4, body_len);
over_histories!(op_clear, op_clear_h4, body_clear);
over_histories!(op_iter, op_iter_h4, body_iter, body_ref_into_iter);
over_histories!(op_into_iter, op_into_iter_h4, body_into_iter);
over_histories!(op_clone, op_clone_h4, body_clone);
over_histories!(clone_independent, clone_independent_h4, body_clone_drop, body_clone_clear);
