// C37 harnesses.  This text is compiled as the child module `id_set::u15` of the
// module whose body is the real utils/src/id_set.rs (include!), so private fields of
// IdSet / Ptr are visible.  T = u8, histories of at most MAXH inserts + the operation
// under test (bounded).  Model: insertion-ordered vector of distinct values.
use super::*;

const MAXH: usize = 3;

/// the map-plus-vector model of C37: ids are positions in `v[..n]`, values distinct
struct Model {
    v: [u8; 6],
    n: usize,
}

impl Model {
    fn new() -> Self {
        Model { v: [0; 6], n: 0 }
    }
    fn pos(&self, x: u8) -> Option<u32> {
        let mut i = 0;
        while i < self.n {
            if self.v[i] == x {
                return Some(i as u32);
            }
            i += 1;
        }
        None
    }
    fn insert(&mut self, x: u8) -> u32 {
        match self.pos(x) {
            Some(i) => i,
            None => {
                self.v[self.n] = x;
                self.n += 1;
                (self.n - 1) as u32
            }
        }
    }
}

fn in_buf(p: *const u8, b: &Vec<u8>) -> bool {
    let mut i = 0;
    while i < b.len() {
        if std::ptr::eq(p, &b[i]) {
            return true;
        }
        i += 1;
    }
    false
}

/// `p` points at a live element of one of THIS set's buffers
fn owned(s: &IdSet<u8>, p: *const u8) -> bool {
    if in_buf(p, &s.current_buf) {
        return true;
    }
    let mut j = 0;
    while j < s.old_bufs.len() {
        if in_buf(p, &s.old_bufs[j]) {
            return true;
        }
        j += 1;
    }
    false
}

/// representation invariant wf(s) + agreement with the model
fn check(s: &IdSet<u8>, m: &Model) {
    assert!(s.map.len() == m.n, "wf: map.len() == number of distinct values inserted");
    assert!(s.id_to_ptr.len() == m.n, "wf: id_to_ptr.len() == map.len()");
    let mut i = 0;
    while i < m.n {
        let p = s.id_to_ptr[i];
        assert!(owned(s, p), "wf: id_to_ptr[id] points into one of this set's own buffers");
        assert!(unsafe { *p } == m.v[i], "model: value stored for id i is the i-th distinct value inserted");
        i += 1;
    }
    let mut j = 0;
    while j < s.map.entries.len() {
        let (k, id) = s.map.entries[j];
        assert!((id as usize) < m.n, "wf: ids are 0..len");
        assert!(k.0 == s.id_to_ptr[id as usize], "wf: a map key is the interned pointer of its id");
        j += 1;
    }
    // lookups by value and by id agree (public API)
    let mut i = 0;
    while i < m.n {
        assert!(s.try_get_id(&m.v[i]) == Some(i as u32), "model: try_get_id(value of id i) == Some(i)");
        assert!(s[i as u32] == m.v[i], "model: set[i] is the i-th distinct value");
        i += 1;
    }
    assert!(s.len() == m.n, "model: len");
}

/// symbolic history: n <= MAXH inserts of symbolic values
fn history() -> (IdSet<u8>, Model) {
    let n: usize = kani::any();
    kani::assume(n <= MAXH);
    let mut s: IdSet<u8> = IdSet::new();
    let mut m = Model::new();
    let mut j = 0;
    while j < MAXH {
        if j < n {
            let x: u8 = kani::any();
            s.insert(x);
            m.insert(x);
        }
        j += 1;
    }
    (s, m)
}

#[kani::proof]
#[kani::unwind(8)]
fn op_new() {
    let s: IdSet<u8> = IdSet::new();
    let m = Model::new();
    check(&s, &m);
    assert!(s.is_empty());
    assert!(s.iter().next().is_none());
    let d: IdSet<u8> = IdSet::default();
    check(&d, &m);
    kani::cover!(true, "reachable");
}

#[kani::proof]
#[kani::unwind(8)]
fn op_insert_new() {
    let (mut s, mut m) = history();
    check(&s, &m);
    let x: u8 = kani::any();
    kani::assume(m.pos(x).is_none());
    let id = s.insert(x);
    assert!(id as usize == m.n, "model: a new value gets the next id, in insertion order");
    assert!(id == m.insert(x));
    check(&s, &m);
    kani::cover!(m.n == MAXH + 1, "reachable: MAXH+1 distinct values (two buffer switches)");
    kani::cover!(m.n == 1, "reachable: first insert");
}

#[kani::proof]
#[kani::unwind(8)]
fn op_insert_dup() {
    let (mut s, mut m) = history();
    let x: u8 = kani::any();
    let want = m.pos(x);
    kani::assume(want.is_some());
    let id = s.insert(x);
    assert!(Some(id) == want, "model: re-inserting a value returns its stable id");
    check(&s, &m);
    kani::cover!(m.n == MAXH && id == 0, "reachable: dup of first value in a full history");
    kani::cover!(m.n == 2 && id == 1, "reachable: dup insert while current_buf is full (buffer switch + pop)");
}

#[kani::proof]
#[kani::unwind(8)]
fn op_try_get_id() {
    let (s, m) = history();
    let x: u8 = kani::any();
    assert!(s.try_get_id(&x) == m.pos(x), "model: try_get_id agrees with position in the model");
    check(&s, &m);
    kani::cover!(m.pos(x).is_some(), "reachable: present");
    kani::cover!(m.pos(x).is_none() && m.n == MAXH, "reachable: absent");
}

#[kani::proof]
#[kani::unwind(8)]
fn op_get_id() {
    let (s, m) = history();
    let x: u8 = kani::any();
    kani::assume(m.pos(x).is_some()); // documented: panics when absent
    assert!(Some(s.get_id(&x)) == m.pos(x), "model: get_id agrees with position in the model");
    check(&s, &m);
    kani::cover!(m.n == MAXH, "reachable");
}

#[kani::proof]
#[kani::unwind(8)]
fn op_index() {
    let (mut s, m) = history();
    let i: u32 = kani::any();
    kani::assume((i as usize) < m.n);
    assert!(s[i] == m.v[i as usize], "model: Index by id returns the i-th distinct value");
    let r: &mut u8 = &mut s[i];
    assert!(*r == m.v[i as usize], "model: IndexMut by id designates the same element");
    check(&s, &m);
    kani::cover!(m.n == MAXH && i == 2, "reachable");
}

#[kani::proof]
#[kani::unwind(8)]
fn op_contains() {
    let (s, m) = history();
    let x: u8 = kani::any();
    assert!(s.contains(&x) == m.pos(x).is_some(), "model: contains");
    check(&s, &m);
    kani::cover!(s.contains(&x), "reachable: present");
    kani::cover!(!s.contains(&x) && m.n == MAXH, "reachable: absent");
}

#[kani::proof]
#[kani::unwind(8)]
fn op_len() {
    let (s, m) = history();
    assert!(s.len() == m.n, "model: len == number of distinct values");
    assert!(s.is_empty() == (m.n == 0), "model: is_empty");
    check(&s, &m);
    kani::cover!(m.n == MAXH, "reachable");
}

#[kani::proof]
#[kani::unwind(8)]
fn op_clear() {
    let (mut s, _m) = history();
    s.clear();
    let mut m = Model::new();
    check(&s, &m);
    assert!(s.iter().next().is_none(), "model: iteration after clear is empty");
    // ids restart and the set is usable
    let x: u8 = kani::any();
    let id = s.insert(x);
    assert!(id == m.insert(x), "model: first id after clear is 0");
    check(&s, &m);
    kani::cover!(true, "reachable");
}

#[kani::proof]
#[kani::unwind(8)]
fn op_iter() {
    let (s, m) = history();
    let mut it = s.iter();
    let mut i = 0;
    while i < m.n {
        assert!(it.next() == Some(&m.v[i]), "model: iter yields values in insertion (= id) order");
        i += 1;
    }
    assert!(it.next().is_none(), "model: iter yields exactly len values");
    let mut k = 0;
    for r in &s {
        assert!(*r == m.v[k], "model: IntoIterator for &IdSet is in id order");
        k += 1;
    }
    assert!(k == m.n);
    check(&s, &m);
    kani::cover!(m.n == MAXH, "reachable");
}

#[kani::proof]
#[kani::unwind(8)]
fn op_into_iter() {
    let (s, m) = history();
    let mut it = s.into_iter();
    let mut i = 0;
    while i < m.n {
        assert!(it.next() == Some(m.v[i]), "model: into_iter yields values in insertion (= id) order");
        i += 1;
    }
    assert!(it.next().is_none(), "model: into_iter yields exactly len values");
    kani::cover!(m.n == MAXH, "reachable");
}

#[kani::proof]
#[kani::unwind(8)]
fn op_clone() {
    let (s, m) = history();
    let mut c = s.clone();
    check(&c, &m); // the clone is wf ON ITS OWN buffers and equals the model
    check(&s, &m); // the original is unchanged
    // the two evolve independently
    let x: u8 = kani::any();
    let mut mc = Model { v: m.v, n: m.n };
    let id = c.insert(x);
    assert!(id == mc.insert(x), "model: insert into the clone");
    check(&c, &mc);
    check(&s, &m);
    kani::cover!(m.n == MAXH, "reachable");
    kani::cover!(mc.n == m.n + 1 && m.n >= 1, "reachable: clone grew");
}

#[kani::proof]
#[kani::unwind(8)]
fn clone_independent() {
    let (mut s, m) = history();
    kani::assume(m.n >= 1);
    let c = s.clone();
    let drop_it: bool = kani::any();
    if drop_it {
        drop(s);
    } else {
        s.clear();
        // reuse of the original after clear must not disturb the clone either
        s.insert(0xEE);
    }
    // every read through the clone must touch live memory owned by the clone
    let i: u32 = kani::any();
    kani::assume((i as usize) < m.n);
    assert!(c[i] == m.v[i as usize], "clone independent: Index after the original is gone");
    assert!(c.try_get_id(&m.v[i as usize]) == Some(i), "clone independent: lookup by value after the original is gone");
    check(&c, &m);
    kani::cover!(drop_it && m.n == MAXH, "reachable: dropped original");
    kani::cover!(!drop_it && m.n == MAXH, "reachable: cleared original");
}
