// C37 harnesses.  This text is compiled as the child module `id_set::u15` of the
// module whose body is the real utils/src/id_set.rs (include!), so private fields of
// IdSet / Ptr are visible.
//
// Bounded: T = u8.  IdSet<T> uses T only through Eq/Hash (and the map stub R5 ignores the
// hash value), so its behaviour on a history of inserts depends only on the EQUALITY
// PATTERN of the inserted values.  The harnesses enumerate every equality pattern
// (restricted-growth string) of histories of a stated length (sets Q2, Q3, H3, L4a-c below) with
// concrete representative values, then apply the operation under test; queried values
// are symbolic (any u8).  Concrete shapes are required because CBMC needs > 4 GB as soon as
// the buffer-switching structure of the set becomes symbolic.
//
// Quick tier (Q3; iterators on the single history [0,1]) shares one history construction
// between the read-only operations (harness q_readonly; assertion messages carry the tag
// "[op]" of the obligation they belong to); thorough tier runs one harness per operation
// over H3 (insert: H3 + L4a/b/c, i.e. all 24 histories of <= 4 inserts; iterators: Q3).
//
// Model (C37: "a map-plus-vector model"): the insertion-ordered vector of distinct
// values; id = position.
use super::*;

const VALS: [u8; 4] = [7, 200, 31, 8];
/// a value no history contains
const FRESH: u8 = 0x55;

// History sets (applied by the macros below as straight-line calls, so that the unwind
// bound only has to cover the loops over at most 4 elements):
//   Q3 = { [0,0,1], [0,1,0], [0,1,2] }: duplicate with spare capacity, duplicate that
//        triggers a buffer switch and is popped again, three distinct values (two switches)
//   Q2 = { [0,1,0], [0,1,2] }
//   H3 = all 9 equality patterns of histories of <= 3 inserts (incl. the empty history)
//   L4a/b/c = the 15 equality patterns of exactly 4 inserts, in three groups of 5 (insert only)
macro_rules! q3 {
    ($($f:ident),+) => {
        $($f(&[0, 0, 1]); $f(&[0, 1, 0]); $f(&[0, 1, 2]);)+
    };
}

macro_rules! q2 {
    ($($f:ident),+) => {
        $($f(&[0, 1, 0]); $f(&[0, 1, 2]);)+
    };
}

macro_rules! h3 {
    ($($f:ident),+) => {
        $($f(&[]); $f(&[0]); $f(&[0, 0]); $f(&[0, 1]);
          $f(&[0, 0, 0]); $f(&[0, 0, 1]); $f(&[0, 1, 0]); $f(&[0, 1, 1]); $f(&[0, 1, 2]);)+
    };
}

// H3 in two halves (clone on a tree whose Clone shares pointers needs > 4 GB over all of H3)
macro_rules! h3a {
    ($($f:ident),+) => {
        $($f(&[]); $f(&[0]); $f(&[0, 0]); $f(&[0, 1]); $f(&[0, 0, 0]);)+
    };
}

macro_rules! h3b {
    ($($f:ident),+) => {
        $($f(&[0, 0, 1]); $f(&[0, 1, 0]); $f(&[0, 1, 1]); $f(&[0, 1, 2]);)+
    };
}

// the 15 equality patterns of exactly 4 inserts, in three groups (one group per harness:
// a single harness over all of them needs > 4.5 GB in CBMC)
macro_rules! l4a {
    ($($f:ident),+) => {
        $($f(&[0, 0, 0, 0]); $f(&[0, 0, 0, 1]); $f(&[0, 0, 1, 0]); $f(&[0, 0, 1, 1]); $f(&[0, 0, 1, 2]);)+
    };
}

macro_rules! l4b {
    ($($f:ident),+) => {
        $($f(&[0, 1, 0, 0]); $f(&[0, 1, 0, 1]); $f(&[0, 1, 0, 2]); $f(&[0, 1, 1, 0]); $f(&[0, 1, 1, 1]);)+
    };
}

macro_rules! l4c {
    ($($f:ident),+) => {
        $($f(&[0, 1, 1, 2]); $f(&[0, 1, 2, 0]); $f(&[0, 1, 2, 1]); $f(&[0, 1, 2, 2]); $f(&[0, 1, 2, 3]);)+
    };
}

struct Model {
    v: [u8; 6],
    n: usize,
}

impl Model {
    fn new() -> Self {
        Model { v: [0; 6], n: 0 }
    }
    fn pos(&self, x: u8) -> Option<u32> {
        let mut i = 0;
        while i < self.n {
            if self.v[i] == x {
                return Some(i as u32);
            }
            i += 1;
        }
        None
    }
    fn insert(&mut self, x: u8) -> u32 {
        match self.pos(x) {
            Some(i) => i,
            None => {
                self.v[self.n] = x;
                self.n += 1;
                (self.n - 1) as u32
            }
        }
    }
}

fn in_buf(p: *const u8, b: &Vec<u8>) -> bool {
    // pointer equality per element (decided by constant propagation on concrete
    // histories; an integer range test on addresses is opaque to CBMC's simplifier)
    let mut i = 0;
    while i < b.len() {
        if std::ptr::eq(p, &b[i]) {
            return true;
        }
        i += 1;
    }
    false
}

/// `p` points at a live element of one of THIS set's buffers
fn owned(s: &IdSet<u8>, p: *const u8) -> bool {
    if in_buf(p, &s.current_buf) {
        return true;
    }
    let mut j = 0;
    while j < s.old_bufs.len() {
        if in_buf(p, &s.old_bufs[j]) {
            return true;
        }
        j += 1;
    }
    false
}

/// representation invariant wf(s) and agreement with the model, by id and by value
fn check(s: &IdSet<u8>, m: &Model) {
    assert!(s.map.len() == m.n, "wf: map.len() == number of distinct values inserted");
    assert!(s.id_to_ptr.len() == m.n, "wf: id_to_ptr.len() == map.len()");
    let mut i = 0;
    while i < m.n {
        let p = s.id_to_ptr[i];
        assert!(owned(s, p), "wf: id_to_ptr[id] points into one of this set's own buffers");
        assert!(unsafe { *p } == m.v[i], "model: value stored for id i is the i-th distinct value inserted");
        i += 1;
    }
    let mut j = 0;
    while j < s.map.entries.len() {
        let (k, id) = s.map.entries[j];
        assert!((id as usize) < m.n, "wf: ids are 0..len");
        assert!(k.0 == s.id_to_ptr[id as usize], "wf: a map key is the interned pointer of its id");
        j += 1;
    }
    let mut i = 0;
    while i < m.n {
        assert!(s.try_get_id(&m.v[i]) == Some(i as u32), "model: try_get_id(value of id i) == Some(i)");
        assert!(s[i as u32] == m.v[i], "model: set[i] is the i-th distinct value");
        i += 1;
    }
    assert!(s.len() == m.n, "model: len");
}

/// run one history; every insert's returned id is compared with the model
fn hist(pat: &[u8]) -> (IdSet<u8>, Model) {
    let mut s: IdSet<u8> = IdSet::new();
    let mut m = Model::new();
    let mut j = 0;
    while j < pat.len() {
        let x = VALS[pat[j] as usize];
        s.insert(x);
        m.insert(x);
        j += 1;
    }
    (s, m)
}

// ------------------------------------------------------------------ operation bodies

fn body_insert(pat: &[u8]) {
    // the history itself is the operation under test: check after every step
    let mut s: IdSet<u8> = IdSet::new();
    let mut m = Model::new();
    check(&s, &m);
    let mut j = 0;
    while j < pat.len() {
        let x = VALS[pat[j] as usize];
        let was = m.pos(x);
        let id = s.insert(x);
        match was {
            Some(old) => assert!(id == old, "model: re-inserting a value returns its stable id"),
            None => assert!(id as usize == m.n, "model: a new value gets the next id, in insertion order"),
        }
        m.insert(x);
        check(&s, &m);
        j += 1;
    }
}

fn ro_try_get_id(s: &IdSet<u8>, m: &Model) {
    let x: u8 = kani::any();
    assert!(s.try_get_id(&x) == m.pos(x), "[try_get_id] model: try_get_id agrees with the position in the model (any u8)");
}

fn ro_get_id(s: &IdSet<u8>, m: &Model) {
    let x: u8 = kani::any();
    if m.pos(x).is_some() {
        // documented: panics when absent
        assert!(Some(s.get_id(&x)) == m.pos(x), "[get_id] model: get_id agrees with the position in the model");
    }
}

fn ro_index(s: &mut IdSet<u8>, m: &Model) {
    let mut i = 0;
    while i < m.n {
        assert!(s[i as u32] == m.v[i], "[index] model: Index by id returns the i-th distinct value");
        let r: &mut u8 = &mut s[i as u32];
        assert!(*r == m.v[i], "[index] model: IndexMut by id designates the same element");
        i += 1;
    }
}

fn ro_contains(s: &IdSet<u8>, m: &Model) {
    let x: u8 = kani::any();
    assert!(s.contains(&x) == m.pos(x).is_some(), "[contains] model: contains (any u8)");
}

fn ro_len(s: &IdSet<u8>, m: &Model) {
    assert!(s.len() == m.n, "[len] model: len == number of distinct values");
    assert!(s.is_empty() == (m.n == 0), "[len] model: is_empty");
}

fn ro_iter(s: &IdSet<u8>, m: &Model) {
    let mut it = s.iter();
    let mut i = 0;
    while i < m.n {
        assert!(it.next() == Some(&m.v[i]), "[iter] model: iter yields values in insertion (= id) order");
        i += 1;
    }
    assert!(it.next().is_none(), "[iter] model: iter yields exactly len values");
    let mut k = 0;
    for r in s {
        assert!(k < m.n && *r == m.v[k], "[iter] model: IntoIterator for &IdSet is in id order");
        k += 1;
    }
    assert!(k == m.n, "[iter] model: IntoIterator for &IdSet yields exactly len values");
}

fn body_try_get_id(pat: &[u8]) {
    let (s, m) = hist(pat);
    ro_try_get_id(&s, &m);
    check(&s, &m);
}

fn body_get_id(pat: &[u8]) {
    let (s, m) = hist(pat);
    ro_get_id(&s, &m);
    check(&s, &m);
}

fn body_index(pat: &[u8]) {
    let (mut s, m) = hist(pat);
    ro_index(&mut s, &m);
    check(&s, &m);
}

fn body_contains(pat: &[u8]) {
    let (s, m) = hist(pat);
    ro_contains(&s, &m);
    check(&s, &m);
}

fn body_len(pat: &[u8]) {
    let (s, m) = hist(pat);
    ro_len(&s, &m);
    check(&s, &m);
}

fn body_iter(pat: &[u8]) {
    let (s, m) = hist(pat);
    ro_iter(&s, &m);
    check(&s, &m);
}

/// quick tier: all read-only operations on one construction of each history
fn body_readonly(pat: &[u8]) {
    let (mut s, m) = hist(pat);
    ro_len(&s, &m);
    ro_try_get_id(&s, &m);
    ro_get_id(&s, &m);
    ro_contains(&s, &m);
    ro_index(&mut s, &m);
    check(&s, &m); // none of them changed the set
}

fn body_clear(pat: &[u8]) {
    let (mut s, _m) = hist(pat);
    s.clear();
    let mut m = Model::new();
    check(&s, &m);
    assert!(s.iter().next().is_none(), "model: iteration after clear is empty");
    // ids restart and the set is usable
    let id = s.insert(VALS[1]);
    assert!(id == m.insert(VALS[1]), "model: first id after clear is 0");
    let id = s.insert(VALS[0]);
    assert!(id == m.insert(VALS[0]), "model: second id after clear is 1");
    check(&s, &m);
}

/// clear() keeps current_buf's capacity and empties old_bufs: refilling past the retained capacity retires a
/// REAL (full) chunk into old_bufs[0]; iteration must still yield every value in id order.
fn body_clear_refill_iter(pat: &[u8]) {
    let (mut s, _m) = hist(pat);
    s.clear();
    let mut m = Model::new();
    let mut j = 0;
    while j < 3 {
        let id = s.insert(VALS[(j + 1) % 4]);
        assert!(id == m.insert(VALS[(j + 1) % 4]), "model: ids restart at 0 after clear, in insertion order");
        j += 1;
    }
    check(&s, &m);
    ro_iter(&s, &m);
}

fn body_into_iter(pat: &[u8]) {
    let (s, m) = hist(pat);
    let mut it = s.into_iter();
    let mut i = 0;
    while i < m.n {
        assert!(it.next() == Some(m.v[i]), "model: into_iter yields values in insertion (= id) order");
        i += 1;
    }
    assert!(it.next().is_none(), "model: into_iter yields exactly len values");
}

fn body_clone(pat: &[u8]) {
    let (s, m) = hist(pat);
    let mut c = s.clone();
    check(&c, &m); // the clone is wf ON ITS OWN buffers and equals the model
    // the two evolve independently
    let mut mc = Model { v: m.v, n: m.n };
    let id = c.insert(FRESH);
    assert!(id == mc.insert(FRESH), "model: insert into the clone");
    check(&c, &mc);
    // the original is unchanged and does not see the clone's insert
    check(&s, &m);
    assert!(s.try_get_id(&FRESH).is_none(), "model: the original does not see the clone's insert");
}

fn body_clone_drop(pat: &[u8]) {
    let (s, m) = hist(pat);
    let c = s.clone();
    drop(s);
    // every read through the clone must touch live memory owned by the clone
    let mut i = 0;
    while i < m.n {
        assert!(c[i as u32] == m.v[i], "clone independent: Index after the original was dropped");
        i += 1;
    }
    check(&c, &m);
}

fn body_clone_clear(pat: &[u8]) {
    let (mut s, m) = hist(pat);
    let c = s.clone();
    s.clear();
    s.insert(0xEE); // reuse of the original must not disturb the clone either
    let mut i = 0;
    while i < m.n {
        assert!(c[i as u32] == m.v[i], "clone independent: Index after the original was cleared");
        i += 1;
    }
    check(&c, &m);
}

// ------------------------------------------------------------------ harnesses

macro_rules! harness {
    ($name:ident, $hs:ident, $what:expr, $($body:ident),+) => {
        #[kani::proof]
        #[kani::unwind(7)]
        fn $name() {
            $hs!($($body),+);
            kani::cover!(true, $what);
        }
    };
}

#[kani::proof]
#[kani::unwind(7)]
fn op_new() {
    let s: IdSet<u8> = IdSet::new();
    let m = Model::new();
    check(&s, &m);
    assert!(s.is_empty(), "model: a new set is empty");
    assert!(s.iter().next().is_none(), "model: a new set iterates over nothing");
    let x: u8 = kani::any();
    assert!(s.try_get_id(&x).is_none() && !s.contains(&x), "model: a new set contains nothing");
    let d: IdSet<u8> = IdSet::default();
    check(&d, &m);
    kani::cover!(true, "reachable");
}

// ---- quick tier
harness!(q_insert, q3, "reachable: histories Q3 executed, checked after every insert", body_insert);
harness!(q_readonly, q3, "reachable: histories Q3 executed", body_readonly);
harness!(q_clear, q3, "reachable: histories Q3 executed", body_clear);
harness!(q_clone, q3, "reachable: histories Q3 executed", body_clone);
harness!(q_clone_drop, q3, "reachable: histories Q3 executed (original dropped)", body_clone_drop);
harness!(q_clone_clear, q2, "reachable: histories [a,b,a], [a,b,c] executed (original cleared and reused)", body_clone_clear);

#[kani::proof]
#[kani::unwind(7)]
fn q_iter() {
    body_iter(&[0, 1]);
    kani::cover!(true, "reachable: history [0,1] executed");
}

#[kani::proof]
#[kani::unwind(7)]
fn q_clear_refill_iter() {
    body_clear_refill_iter(&[0]);
    kani::cover!(true, "reachable: history [a], clear, three inserts (one chunk retired after the clear), iterate");
}

#[kani::proof]
#[kani::unwind(7)]
fn q_into_iter() {
    body_into_iter(&[0, 1]);
    kani::cover!(true, "reachable: history [0,1] executed");
}

// ---- thorough tier: one harness per operation
harness!(t_insert, h3, "reachable: all 9 histories of <= 3 inserts executed", body_insert);
harness!(t_insert_l4a, l4a, "reachable: histories of 4 inserts, group a", body_insert);
harness!(t_insert_l4b, l4b, "reachable: histories of 4 inserts, group b", body_insert);
harness!(t_insert_l4c, l4c, "reachable: histories of 4 inserts, group c", body_insert);
harness!(t_try_get_id, h3, "reachable: all 9 histories of <= 3 inserts executed", body_try_get_id);
harness!(t_get_id, h3, "reachable: all 9 histories of <= 3 inserts executed", body_get_id);
harness!(t_index, h3, "reachable: all 9 histories of <= 3 inserts executed", body_index);
harness!(t_contains, h3, "reachable: all 9 histories of <= 3 inserts executed", body_contains);
harness!(t_len, h3, "reachable: all 9 histories of <= 3 inserts executed", body_len);
harness!(t_clear, h3, "reachable: all 9 histories of <= 3 inserts executed", body_clear);
harness!(t_clone_a, h3a, "reachable: the 5 histories [], [a], [a,a], [a,b], [a,a,a] executed", body_clone);
harness!(t_clone_b, h3b, "reachable: the 4 histories [a,a,b], [a,b,a], [a,b,b], [a,b,c] executed", body_clone);
harness!(t_clone_drop, h3, "reachable: all 9 histories of <= 3 inserts executed", body_clone_drop);
harness!(t_clone_clear, h3, "reachable: all 9 histories of <= 3 inserts executed", body_clone_clear);
harness!(t_iter, q3, "reachable: histories Q3 executed", body_iter);
// consuming iteration: one history per harness (Flatten<IntoIter<IntoIter<T>>> needs 2-3 GB per history in CBMC)
macro_rules! one_aab {
    ($f:ident) => {
        $f(&[0, 0, 1]);
    };
}

macro_rules! one_aba {
    ($f:ident) => {
        $f(&[0, 1, 0]);
    };
}

macro_rules! one_abc {
    ($f:ident) => {
        $f(&[0, 1, 2]);
    };
}

harness!(t_into_iter_a, one_aab, "reachable: history [a,a,b] executed", body_into_iter);
harness!(t_into_iter_b, one_aba, "reachable: history [a,b,a] executed", body_into_iter);
harness!(t_into_iter_c, one_abc, "reachable: history [a,b,c] executed", body_into_iter);
