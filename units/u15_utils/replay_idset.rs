// Native replay for C37 on the REAL utils crate (real FxHashMap), run under Miri.
// Executes every equality pattern of histories of <= 4 inserts, for T = u8 and
// T = String, against the map-plus-vector model, and the clone-then-drop / clone-then-
// clear scenarios of C37.idset.clone.independent.  A disagreement with the model prints
// `U15-REPLAY-VIOLATION [op]`; undefined behaviour is reported by Miri itself.
use std::fmt::Debug;
use std::hash::Hash;
use utils::id_set::IdSet;

fn patterns(n: usize) -> Vec<Vec<u8>> {
    // restricted-growth strings of length <= n
    let mut out = vec![vec![]];
    let mut frontier: Vec<Vec<u8>> = vec![vec![]];
    for _ in 0..n {
        let mut next = Vec::new();
        for p in &frontier {
            let max = p.iter().copied().max().map(|m| m + 1).unwrap_or(0);
            for d in 0..=max {
                let mut q = p.clone();
                q.push(d);
                next.push(q);
            }
        }
        out.extend(next.iter().cloned());
        frontier = next;
    }
    out
}

fn violation(op: &str, what: &str) {
    println!("U15-REPLAY-VIOLATION [{op}] {what}");
}

fn agree<T: Hash + Eq + Clone + Debug>(op: &str, s: &IdSet<T>, model: &[T], absent: &T) {
    if s.len() != model.len() || s.is_empty() != model.is_empty() {
        violation(if op.is_empty() { "len" } else { op }, "len / is_empty");
    }
    for (i, v) in model.iter().enumerate() {
        if s.try_get_id(v) != Some(i as u32) {
            violation(if op.is_empty() { "try_get_id" } else { op }, "try_get_id of a present value");
        }
        if s.get_id(v) != i as u32 {
            violation(if op.is_empty() { "get_id" } else { op }, "get_id of a present value");
        }
        if !s.contains(v) {
            violation(if op.is_empty() { "contains" } else { op }, "contains of a present value");
        }
        if &s[i as u32] != v {
            violation(if op.is_empty() { "index" } else { op }, "index by id");
        }
    }
    if s.try_get_id(absent).is_some() || s.contains(absent) {
        violation(if op.is_empty() { "try_get_id" } else { op }, "absent value found");
    }
    let it: Vec<T> = s.iter().cloned().collect();
    if it != model {
        violation(if op.is_empty() { "iter" } else { op }, "iteration order");
    }
    let it2: Vec<T> = s.into_iter().cloned().collect();
    if it2 != model {
        violation(if op.is_empty() { "iter" } else { op }, "IntoIterator for &IdSet");
    }
}

fn build<T: Hash + Eq + Clone + Debug>(pat: &[u8], vals: &[T], absent: &T, check_steps: bool) -> (IdSet<T>, Vec<T>) {
    let mut s = IdSet::new();
    let mut model: Vec<T> = Vec::new();
    if check_steps {
        agree("new", &s, &model, absent);
    }
    for &d in pat {
        let x = vals[d as usize].clone();
        let want = match model.iter().position(|y| *y == x) {
            Some(i) => i,
            None => {
                model.push(x.clone());
                model.len() - 1
            }
        };
        if s.insert(x) != want as u32 {
            violation("insert", "returned id");
        }
        if check_steps {
            agree("insert", &s, &model, absent);
        }
    }
    (s, model)
}

fn scenario<T: Hash + Eq + Clone + Debug>(vals: &[T], absent: &T, fresh: &T) {
    for pat in patterns(4) {
        // insert (checked after every step) and the read-only operations
        let (s, model) = build(&pat, vals, absent, true);
        agree("", &s, &model, absent);
        // into_iter
        let owned: Vec<T> = s.into_iter().collect();
        if owned != model {
            violation("into_iter", "consuming iteration order");
        }
        // clear
        let (mut s, _) = build(&pat, vals, absent, false);
        s.clear();
        agree("clear", &s, &[], absent);
        if s.insert(vals[1].clone()) != 0 || s.insert(vals[0].clone()) != 1 {
            violation("clear", "ids after clear");
        }
        agree("clear", &s, &[vals[1].clone(), vals[0].clone()], absent);
        // clear, refill past the retained capacity (a full chunk is retired into old_bufs[0]), iterate
        let (mut s, _) = build(&pat, vals, absent, false);
        s.clear();
        let refill = [vals[1].clone(), vals[2].clone(), vals[3].clone(), vals[0].clone(), absent.clone()];
        let mut m2: Vec<T> = Vec::new();
        for x in refill.iter() {
            if s.insert(x.clone()) as usize != m2.len() {
                violation("clear_refill_iter", "ids after clear");
            }
            m2.push(x.clone());
            if m2.len() <= 3 {
                agree("clear_refill_iter", &s, &m2, absent);
            }
            let it: Vec<T> = s.iter().cloned().collect();
            let it2: Vec<T> = (&s).into_iter().cloned().collect();
            if it != m2 || it2 != m2 || s.len() != m2.len() {
                violation("clear_refill_iter", "iteration after clear and refill");
            }
        }
        // clone: equal, independent growth
        let (s, model) = build(&pat, vals, absent, false);
        let mut c = s.clone();
        agree("clone", &c, &model, absent);
        agree("clone", &s, &model, absent);
        let mut mc = model.clone();
        if c.insert(fresh.clone()) != model.len() as u32 {
            violation("clone", "insert into the clone");
        }
        mc.push(fresh.clone());
        agree("clone", &c, &mc, absent);
        agree("clone", &s, &model, fresh);
        // clone, then drop the original
        let (s, model) = build(&pat, vals, absent, false);
        let c = s.clone();
        drop(s);
        agree("clone", &c, &model, absent);
        // clone, then clear and reuse the original
        let (mut s, model) = build(&pat, vals, absent, false);
        let c = s.clone();
        s.clear();
        s.insert(fresh.clone());
        agree("clone", &c, &model, absent);
    }
}

fn main() {
    scenario::<u8>(&[7, 200, 31, 8], &99, &0x55);
    let strs: Vec<String> = ["seven", "two hundred", "thirty-one", "eight"].iter().map(|s| s.to_string()).collect();
    scenario::<String>(&strs, &"absent".to_string(), &"fresh".to_string());
    println!("U15-REPLAY-DONE");
}
