// R5 map stub (DESIGN.md section 3.1).  Stands for `crate::hash::HashMap`
// (= rustc_hash::FxHashMap = std::collections::HashMap<K, V, FxBuildHasher>) in the
// Kani build of id_set.rs only: hashbrown under CBMC does not terminate in useful time
// (15 min for a 1-element IdSet).
//
// An association list with the API subset id_set.rs uses:
//   Default, Clone, len, is_empty, clear, get, entry -> Entry::{Occupied,Vacant},
//   OccupiedEntry::{key,get}, VacantEntry::insert.
// Like the real map it decides membership with the key's REAL `Eq` and calls the key's
// REAL `Hash` once per lookup (into a hasher that discards the bytes), so every memory
// access that `Ptr<T>::hash` / `Ptr<T>::eq` perform on the real map's lookup path is
// also performed here.  `clone` copies keys and values without calling `Hash`/`Eq`
// (as hashbrown does).
//
// ASSUMPTION recorded in evidence: std's HashMap implements a finite map w.r.t. `Eq`
// whenever `Hash` is consistent with `Eq`.
use std::hash::{Hash, Hasher};

pub struct NullHasher;

impl Hasher for NullHasher {
    #[inline]
    fn finish(&self) -> u64 {
        0
    }
    #[inline]
    fn write(&mut self, _bytes: &[u8]) {}
}

#[inline]
fn touch<K: Hash>(k: &K) {
    let mut h = NullHasher;
    k.hash(&mut h);
}

#[derive(Clone)]
pub struct HashMap<K, V> {
    pub entries: Vec<(K, V)>,
}

impl<K, V> Default for HashMap<K, V> {
    fn default() -> Self {
        HashMap { entries: Vec::new() }
    }
}

impl<K, V> HashMap<K, V> {
    #[inline]
    pub fn len(&self) -> usize {
        self.entries.len()
    }

    #[inline]
    pub fn is_empty(&self) -> bool {
        self.entries.is_empty()
    }

    #[inline]
    pub fn clear(&mut self) {
        self.entries.clear();
    }
}

impl<K: Hash + Eq, V> HashMap<K, V> {
    fn position(&self, k: &K) -> Option<usize> {
        touch(k);
        let mut i = 0;
        while i < self.entries.len() {
            if self.entries[i].0 == *k {
                return Some(i);
            }
            i += 1;
        }
        None
    }

    pub fn get(&self, k: &K) -> Option<&V> {
        match self.position(k) {
            Some(i) => Some(&self.entries[i].1),
            None => None,
        }
    }

    pub fn entry(&mut self, key: K) -> Entry<'_, K, V> {
        match self.position(&key) {
            Some(idx) => Entry::Occupied(OccupiedEntry { map: self, idx }),
            None => Entry::Vacant(VacantEntry { map: self, key }),
        }
    }
}

pub enum Entry<'a, K, V> {
    Occupied(OccupiedEntry<'a, K, V>),
    Vacant(VacantEntry<'a, K, V>),
}

pub struct OccupiedEntry<'a, K, V> {
    map: &'a mut HashMap<K, V>,
    idx: usize,
}

pub struct VacantEntry<'a, K, V> {
    map: &'a mut HashMap<K, V>,
    key: K,
}

impl<'a, K, V> OccupiedEntry<'a, K, V> {
    #[inline]
    pub fn key(&self) -> &K {
        &self.map.entries[self.idx].0
    }

    #[inline]
    pub fn get(&self) -> &V {
        &self.map.entries[self.idx].1
    }
}

impl<'a, K, V> VacantEntry<'a, K, V> {
    #[inline]
    pub fn insert(self, value: V) -> &'a mut V {
        self.map.entries.push((self.key, value));
        let n = self.map.entries.len();
        &mut self.map.entries[n - 1].1
    }
}
