// Native replay of a C38 counterexample on the REAL utils crate (run under Miri).
// __LEN0__ / __OFF0__ / __T__ are substituted from Kani's concrete playback values:
// the arbitrary pre-state {current_buf.len() == LEN0, offset == OFF0} is reached through
// the public API by with_capacity(LEN0) followed by OFF0 one-byte allocations.
use utils::arena::Arena;

type T = __T__;
const LEN0: usize = __LEN0__;
const OFF0: usize = __OFF0__;

trait Fill {
    fn fill() -> Self;
}
impl Fill for u8 {
    fn fill() -> Self {
        0xA5
    }
}
impl Fill for u16 {
    fn fill() -> Self {
        0xA5A5
    }
}
impl Fill for u64 {
    fn fill() -> Self {
        0xA5A5_A5A5_A5A5_A5A5
    }
}
impl Fill for u128 {
    fn fill() -> Self {
        0xA5A5_A5A5_A5A5_A5A5_A5A5_A5A5_A5A5_A5A5
    }
}
impl<const N: usize> Fill for [u8; N] {
    fn fill() -> Self {
        [0xA5; N]
    }
}
impl<const N: usize> Fill for [u64; N] {
    fn fill() -> Self {
        [0xA5A5_A5A5_A5A5_A5A5; N]
    }
}

fn main() {
    let arena = Arena::with_capacity(LEN0);
    let mut small = Vec::new();
    for i in 0..OFF0 {
        small.push(arena.alloc(i as u8));
    }
    let r = arena.alloc::<T>(T::fill());
    let p = &*r as *const T as usize;
    let mut bad = false;
    if p % std::mem::align_of::<T>() != 0 {
        println!("U15-REPLAY-VIOLATION misaligned address {p:#x} (align {})", std::mem::align_of::<T>());
        bad = true;
    }
    for (i, s) in small.iter().enumerate() {
        if **s != i as u8 {
            println!("U15-REPLAY-VIOLATION earlier allocation {i} was overwritten");
            bad = true;
        }
    }
    if *r != T::fill() {
        println!("U15-REPLAY-VIOLATION value does not read back");
        bad = true;
    }
    // the arena stays usable
    let after = arena.alloc(0x5Au8);
    if *after != 0x5A || *r != T::fill() {
        println!("U15-REPLAY-VIOLATION a later allocation disturbed the block");
        bad = true;
    }
    if !bad {
        println!("U15-REPLAY-OK");
    }
}
