// C38 harnesses.  This text is compiled as the child module `arena::u15` of the module
// whose body is the real utils/src/arena.rs (include!), so the private fields of
// Arena / ArenaInner are visible and an ARBITRARY arena state can be constructed.
//
// One-step inductive obligation, for each T:
//   { Inv: offset <= current_buf.len() }   r = arena.alloc::<T>(v)
//   { p = address of r:
//       in bounds   : buf_start <= p  &&  p + size_of::<T>() <= buf_start + buf_len   (current buffer AFTER the call)
//       aligned     : p % align_of::<T>() == 0                                       (as an address)
//       disjoint    : buffer reused  ==> p >= buf_start + old(offset)
//                     buffer replaced ==> old buffer is the new last element of old_bufs, pointer-identical, same length
//       Inv again   : offset <= current_buf.len()  &&  offset >= (p - buf_start) + size_of::<T>()
//       value       : *r == v   (T of at most 8 bytes only) }
// Since every state reachable through the safe API satisfies Inv (with_capacity
// establishes it, alloc preserves it), the post-condition holds after any sequence of
// allocations; `offset >= end of the block just handed out` is what makes "disjoint
// from everything handed out before" inductive.
use super::*;
use std::alloc::Layout;

/// Allocator model (stub for std::alloc::alloc in these harnesses): the global
/// allocator may return ANY address that satisfies the layout's alignment.  CBMC's own
/// malloc returns maximally aligned objects, which would hide padding computed from the
/// offset instead of the address.  base + k of a fresh object, k < 16 symbolic,
/// k a multiple of layout.align().
pub unsafe fn any_addr_alloc(layout: Layout) -> *mut u8 {
    let k: usize = kani::any();
    kani::assume(k < 16 && k & (layout.align() - 1) == 0);
    let big = unsafe { Layout::from_size_align_unchecked(layout.size() + 16, 16) };
    let p = unsafe { std::alloc::alloc_zeroed(big) };
    kani::assume(!p.is_null());
    unsafe { p.add(k) }
}

const MAXLEN: usize = 64;

/// arbitrary arena state satisfying Inv (symbolic draws in this order: len0, off0, ...)
fn any_arena() -> (Arena, usize, usize) {
    let len0: usize = kani::any();
    kani::assume(len0 <= MAXLEN);
    let off0: usize = kani::any();
    kani::assume(off0 <= len0);
    // old_bufs starts empty: alloc only ever pushes onto it (a symbolic number of retired
    // buffers makes the Vec's own state symbolic and costs 20x in CBMC for no gain)
    let old: Vec<Box<[MaybeUninit<u8>]>> = Vec::new();
    let arena = Arena {
        inner: UnsafeCell::new(ArenaInner {
            current_buf: Box::new_uninit_slice(len0),
            old_bufs: old,
            offset: off0,
        }),
    };
    (arena, len0, off0)
}

macro_rules! alloc_post {
    ($name:ident, $t:ty, $readback:expr) => {
        #[kani::proof]
        #[kani::stub(std::alloc::alloc, any_addr_alloc)]
        fn $name() {
            let (arena, len0, off0) = any_arena();
            let (buf0, n_old0) = {
                let i = unsafe { &*arena.inner.get() };
                (i.current_buf.as_ptr() as usize, i.old_bufs.len())
            };
            let v: $t = kani::any();
            let r = arena.alloc(v);
            let size = size_of::<$t>();
            let align = align_of::<$t>();
            let i = unsafe { &*arena.inner.get() };
            let start = i.current_buf.as_ptr() as usize;
            let len1 = i.current_buf.len();
            let p = &*r as *const $t as usize;
            assert!(p >= start && (p - start) + size <= len1, "in bounds: p .. p+size_of::<T>() lies inside the current buffer");
            assert!(p % align == 0, "aligned: the ADDRESS p is a multiple of align_of::<T>()");
            if i.old_bufs.len() == n_old0 {
                assert!(start == buf0 && len1 == len0, "buffer reused: current buffer unchanged");
                assert!(p >= buf0 + off0, "disjoint: starts at or after the old offset of the reused buffer");
            } else {
                assert!(i.old_bufs.len() == n_old0 + 1, "buffer replaced: exactly one buffer retired");
                let last = &i.old_bufs[n_old0];
                assert!(last.as_ptr() as usize == buf0 && last.len() == len0, "retained: the replaced buffer is kept in old_bufs (pointer-identical, not dropped)");
                assert!(start != buf0 || len0 == 0, "buffer replaced: the new buffer is a different allocation");
            }
            assert!(i.offset <= len1, "invariant re-established: offset <= current_buf.len()");
            assert!(i.offset >= (p - start) + size, "invariant: offset is past the block just handed out");
            if $readback {
                // (comparing a 24..40-byte value read at a symbolic offset costs CBMC > 4 GB: small T only)
                assert!(*r == v, "value: the reference reads back the value");
            }
            kani::cover!(i.old_bufs.len() == n_old0, "reachable: buffer reused");
            kani::cover!(i.old_bufs.len() == n_old0 + 1, "reachable: buffer replaced");
            // never freed here: Kani's __rust_dealloc cannot free the interior pointers of the allocator model
            std::mem::forget(arena);
        }
    };
}

alloc_post!(alloc_u8, u8, true);
alloc_post!(alloc_u16, u16, true);
alloc_post!(alloc_u64, u64, true);
alloc_post!(alloc_u128, u128, false);
alloc_post!(alloc_a3, [u8; 3], true);
alloc_post!(alloc_a24, [u8; 24], false);
alloc_post!(alloc_q5, [u64; 5], false);

/// public-API sanity: the initial state satisfies Inv (base case of the induction)
#[kani::proof]
#[kani::stub(std::alloc::alloc, any_addr_alloc)]
fn init_inv() {
    let cap: usize = kani::any();
    kani::assume(cap <= MAXLEN);
    let a = Arena::with_capacity(cap);
    let i = unsafe { &*a.inner.get() };
    assert!(i.offset <= i.current_buf.len(), "with_capacity establishes Inv");
    assert!(i.current_buf.len() == cap);
    let d = Arena::default();
    let j = unsafe { &*d.inner.get() };
    assert!(j.offset <= j.current_buf.len(), "new/default establishes Inv");
    kani::cover!(cap == MAXLEN, "reachable");
    std::mem::forget(a);
    std::mem::forget(d);
}
