"""U15: utils::arena::Arena (C38) and utils::id_set::IdSet (C37), Kani/CBMC on the real files.

Assembly (every run, from the repository's current working tree, `slicer.read`):

  src/arena.rs       = utils/src/arena.rs            byte-for-byte
  src/arena_ref.rs   = utils/src/arena/arena_ref.rs  byte-for-byte (include!-relative location of `pub mod arena_ref;`)
  src/id_set.rs      = utils/src/id_set.rs with the two `use` redirections of rule R5 (nothing else)
  src/hash.rs        = utils/src/hash.rs             byte-for-byte, NOT compiled (needs rustc_hash); only checked to
                       still alias `HashMap` to `FxHashMap`, which is what the stub stands for
  src/hash_stub.rs   = units/u15_utils/hash_stub.rs  (association list, R5)
  src/lib.rs         = generated:
        pub mod hash_stub;
        pub mod arena  { include!("arena.rs");  #[cfg(kani)] mod u15 { include!("arena_harness.rs"); } }
        pub mod id_set { include!("id_set.rs"); #[cfg(kani)] mod u15 { include!("idset_harness.rs"); } }

The harnesses are separate files, compiled as a *child module* of the module whose body
is the real file: private fields (ArenaInner.offset, IdSet.id_to_ptr, ...) are visible,
the real text is not touched, and Kani's locations (`src/arena.rs:58`) are the real line
numbers.

Environment: ABRA_REPO (tree under test, honoured by slicer/engine), U15_JOBS (parallel
harnesses, default 2), U15_MAX_RSS_KB (a cbmc process of this unit above it is killed and
its obligation reported UNDECIDED; default 4.2 GB).
"""
import os
import re
import subprocess
import threading

import slicer as S
import engine as E

HERE = os.path.dirname(os.path.abspath(__file__))
UNIT = "U15-utils"

F_ARENA = "utils/src/arena.rs"
F_AREF = "utils/src/arena/arena_ref.rs"
F_IDSET = "utils/src/id_set.rs"
F_HASH = "utils/src/hash.rs"

# R5: the complete list of textual changes made to id_set.rs (each must apply exactly once)
R5 = [
    ("use crate::hash::HashMap;", "use crate::hash_stub::HashMap;"),
    ("use std::collections::hash_map::Entry;", "use crate::hash_stub::Entry;"),
]

# obligation type name -> (harness fn, Rust type, size, align)
ARENA_T = [
    ("u8", "alloc_u8", "u8"),
    ("u16", "alloc_u16", "u16"),
    ("u64", "alloc_u64", "u64"),
    ("u128", "alloc_u128", "u128"),
    ("[u8;3]", "alloc_a3", "[u8; 3]"),
    ("[u8;24]", "alloc_a24", "[u8; 24]"),
    ("[u64;5]", "alloc_q5", "[u64; 5]"),
]

B_Q3 = "histories Q3 = the equality patterns [a,a,b], [a,b,a], [a,b,c] of 3 inserts"
B_H3 = "all 9 equality patterns of histories of <= 3 inserts"
B_H4 = "all 24 equality patterns of histories of <= 4 inserts"
B_COMMON = ("T = u8 with concrete representative values (IdSet uses T only through Eq/Hash, the R5 stub ignores hash "
            "values); queried values symbolic (any u8); loops unwound 7 times")

# op -> (function under contract, quick (harnesses, tag, bound), thorough (harnesses, tag, bound))
IDSET = [
    ("new", "IdSet::new / Default", (["op_new"], None, "empty history"), (["op_new"], None, "empty history")),
    ("insert", "IdSet::insert (new and duplicate values)", (["q_insert"], None, B_Q3 + ", checked after every insert"),
     (["t_insert", "t_insert_l4a", "t_insert_l4b", "t_insert_l4c"], None, B_H4 + " (4 harnesses), checked after every insert")),
    ("try_get_id", "IdSet::try_get_id", (["q_readonly"], "try_get_id", B_Q3), (["t_try_get_id"], None, B_H3)),
    ("get_id", "IdSet::get_id", (["q_readonly"], "get_id", B_Q3 + "; value present (documented panic otherwise)"),
     (["t_get_id"], None, B_H3 + "; value present (documented panic otherwise)")),
    ("index", "Index<u32> / IndexMut<u32> for IdSet", (["q_readonly"], "index", B_Q3), (["t_index"], None, B_H3)),
    ("contains", "IdSet::contains", (["q_readonly"], "contains", B_Q3), (["t_contains"], None, B_H3)),
    ("len", "IdSet::len / is_empty", (["q_readonly"], "len", B_Q3), (["t_len"], None, B_H3)),
    ("clear", "IdSet::clear (then two inserts)", (["q_clear"], None, B_Q3), (["t_clear"], None, B_H3)),
    ("iter", "IdSet::iter / IntoIterator for &IdSet", (["q_iter"], None, "the single history [a,b] (iterator adaptors cost CBMC ~100 s per history)"),
     (["t_iter"], None, B_Q3)),
    ("clear_refill_iter", "IdSet::clear, then insert past the retained capacity, then iter / IntoIterator for &IdSet",
     (["q_clear_refill_iter"], None, "the single history [a], clear, three distinct inserts (a full chunk is retired into old_bufs[0] after the clear), iterate"),
     (["q_clear_refill_iter"], None, "the single history [a], clear, three distinct inserts (a full chunk is retired into old_bufs[0] after the clear), iterate")),
    ("into_iter", "IntoIterator for IdSet", (["q_into_iter"], None, "the single history [a,b] (iterator adaptors cost CBMC ~100 s per history)"),
     (["t_into_iter_a", "t_into_iter_b", "t_into_iter_c"], None, B_Q3 + " (one harness per history)")),
    ("clone", "Clone for IdSet", (["q_clone"], None, B_Q3 + ", then one insert into the clone"),
     (["t_clone_a", "t_clone_b"], None, B_H3 + " (2 harnesses), then one insert into the clone")),
]
CLONE_INDEP = ("Clone for IdSet", (["q_clone_drop", "q_clone_clear"], None,
                                    B_Q3 + " with the original dropped; [a,b,a], [a,b,c] with the original cleared and reused"),
               (["t_clone_drop", "t_clone_clear"], None, B_H3 + "; original dropped / cleared and reused"))

BOUND_ARENA = ("one-step inductive from an arbitrary state with current_buf.len() <= 64 and offset <= len (both symbolic), "
               "old_bufs empty, buffer base address modulo 16 symbolic; T fixed per obligation")

WF_TEXT = ("check(s, model): wf = {map.len() == id_to_ptr.len() == model.len(); every id_to_ptr[i] points at a live element of "
           "one of THIS set's buffers (current_buf or old_bufs[j]); *id_to_ptr[i] == model[i]; every map entry (k, id) has "
           "id < len and k.0 == id_to_ptr[id]}; try_get_id(model[i]) == Some(i); set[i] == model[i]; len() == model.len(); "
           "model = insertion-ordered vector of distinct values")

CARGO_TOML = """[package]
name = "u15k"
version = "0.0.0"
edition = "2024"

[lib]
path = "src/lib.rs"

[lints.rust]
unexpected_cfgs = { level = "allow" }
"""

LIB_RS = """#![allow(unused)]
// generated by /verif/units/u15_utils -- see its module docstring
pub mod hash_stub;

pub mod arena {
    include!("arena.rs");

    #[cfg(kani)]
    mod u15 {
        include!("arena_harness.rs");
    }
}

pub mod id_set {
    include!("id_set.rs");

    #[cfg(kani)]
    mod u15 {
        include!("idset_harness.rs");
    }
}
"""


def _here(name):
    with open(os.path.join(HERE, name)) as f:
        return f.read()


def _read(rel):
    # always the current working tree (slicer caches per process; a unit run must not see a stale copy)
    S._cache.pop(os.path.join(S.REPO, rel), None)
    try:
        return S.read(rel)
    except OSError as ex:
        raise S.SliceError("utils source file missing: %s" % ex)


def build(sc):
    """Assemble the scratch crate.  Returns meta (shas, rewrite counts)."""
    arena, aref, idset, hsh = _read(F_ARENA), _read(F_AREF), _read(F_IDSET), _read(F_HASH)
    counts = {}
    patched = idset
    for old, new in R5:
        k = patched.count(old)
        counts[old] = k
        if k != 1:
            raise S.SliceError("R5: `%s` occurs %d times in id_set.rs (expected exactly 1)" % (old, k))
        patched = patched.replace(old, new)
    if not re.search(r'pub type HashMap<K, V> = FxHashMap<K, V>;', hsh):
        raise S.SliceError("utils/src/hash.rs no longer aliases HashMap to FxHashMap: the R5 stub stands for something else")
    for name, txt in (("arena.rs", arena), ("id_set.rs", idset)):
        if re.search(r'^\s*(#!\[|//!)', txt, re.M):
            raise S.SliceError("%s has inner attributes / inner docs: cannot be include!d" % name)
    if not re.search(r'^pub mod arena_ref;', arena, re.M):
        raise S.SliceError("arena.rs no longer declares `pub mod arena_ref;`")
    sc.file("Cargo.toml", CARGO_TOML)
    sc.file("src/lib.rs", LIB_RS)
    sc.file("src/arena.rs", arena)
    sc.file("src/arena_ref.rs", aref)
    sc.file("src/id_set.rs", patched)
    sc.file("src/hash.rs", hsh)  # documentary copy, not compiled
    for n in ("hash_stub.rs", "arena_harness.rs", "idset_harness.rs"):
        sc.file("src/" + n, _here(n))
    ah, ih = _here("arena_harness.rs"), _here("idset_harness.rs")
    return dict(
        sha={F_ARENA: S.sha(arena + aref), F_IDSET: S.sha(idset), F_HASH: S.sha(hsh)},
        rewrites={"R5 use-redirections applied to id_set.rs": sum(counts.values()), "R5 detail": counts,
                  "bytes changed in arena.rs / arena_ref.rs": 0},
        kani_assume=len(re.findall(r'kani::assume\(', ah + ih)),
        kani_stub=len(ARENA_T) + 1,  # #[kani::stub(std::alloc::alloc, any_addr_alloc)]: macro x7 + init_inv
    )


# ------------------------------------------------------------------ running

class _Watchdog(threading.Thread):
    """Kills cbmc processes of this scratch crate that exceed the RSS limit (the box is shared)."""

    def __init__(self, needle, limit_kb):
        super().__init__(daemon=True)
        self.needle, self.limit, self.killed, self._halt = needle, limit_kb, [], threading.Event()

    def run(self):
        while not self._halt.wait(2.0):
            try:
                pids = subprocess.run(["pgrep", "-x", "cbmc"], capture_output=True, text=True).stdout.split()
            except Exception:
                continue
            for pid in pids:
                try:
                    with open("/proc/%s/cmdline" % pid, "rb") as f:
                        if self.needle.encode() not in f.read():
                            continue
                    with open("/proc/%s/status" % pid) as f:
                        m = re.search(r'VmRSS:\s+(\d+) kB', f.read())
                    if m and int(m.group(1)) > self.limit:
                        os.kill(int(pid), 9)
                        self.killed.append((pid, int(m.group(1))))
                except (OSError, ValueError):
                    pass

    def stop(self):
        self._halt.set()


def _kani(crate, harnesses, timeout, jobs, playback=False):
    wd = _Watchdog(crate, int(os.environ.get("U15_MAX_RSS_KB", "4200000")))
    wd.start()
    try:
        res = E.run_kani(crate, harnesses, timeout=timeout, jobs=jobs, playback=playback)
        retry = [h for h in harnesses if res[h]['status'] == E.UNDECIDED
                 and (res[h]['raw'].startswith("timeout") or "timed out" in res[h]['raw'].lower())]
        if retry:  # the CPU is shared with other checks: one retry, one at a time
            res.update(E.run_kani(crate, retry, timeout=timeout, jobs=1, playback=playback))
        return res, retry, wd.killed
    finally:
        wd.stop()


TAG_RX = re.compile(r'^"?\[([a-z_]+)\]')


def _judge(r, tag=None):
    """(status, detail) of one harness result for one obligation.
    FAILED only for a refuted assertion / memory-safety check that belongs to the obligation."""
    st = r['status']
    if st == E.FAILED:
        failed = r['failed']
        if not failed:
            return E.UNDECIDED, "cbmc ended without a verdict (killed / crashed)\n" + r['raw'][-600:]
        if tag is None:
            return E.FAILED, "\n".join(failed[:8])
        own = [f for f in failed if "[%s]" % tag in f.split(" @ ")[0]]
        untagged = [f for f in failed if not TAG_RX.match(f)]
        if own or untagged:
            return E.FAILED, "\n".join((own + untagged)[:8])
        return E.UNDECIDED, "masked: a sibling operation failed earlier in the shared harness: " + "; ".join(failed[:3])
    if st == E.DISCHARGED:
        bad = [d for d, s in r['cover'] if s != "SATISFIED"]
        if not r['cover'] or bad:
            return E.UNDECIDED, "vacuity guard: cover not satisfied: %s" % (bad or "no cover reported")
        return E.DISCHARGED, ""
    return E.UNDECIDED, r['raw'][-1200:]


def _combine(parts):
    sts = [p[0] for p in parts]
    st = E.FAILED if E.FAILED in sts else E.UNDECIDED if E.UNDECIDED in sts else E.DISCHARGED
    return st, "\n".join(p[1] for p in parts if p[1] and (p[0] == st))


def _arena_text(h, rt):
    return ("harness arena::u15::%s (units/u15_utils/arena_harness.rs, macro alloc_post!), allocator model any_addr_alloc:\n"
            "requires  ARBITRARY ArenaInner { current_buf: Box<[MaybeUninit<u8>]> of symbolic len <= 64 at an arbitrary address, "
            "old_bufs: [], offset: symbolic } with Inv: offset <= current_buf.len()\n"
            "call      r = arena.alloc::<%s>(kani::any())\n"
            "ensures   with p = &*r as usize and start/len = the current buffer after the call:\n"
            "          start <= p && p - start + size_of::<T>() <= len                       (in bounds)\n"
            "          p %% align_of::<T>() == 0                                              (aligned as an ADDRESS)\n"
            "          buffer reused   ==> same buffer && p >= start + old(offset)           (disjoint from earlier blocks)\n"
            "          buffer replaced ==> old_bufs grew by exactly the old buffer, pointer-identical, same length (retained)\n"
            "          offset <= len && offset >= p - start + size_of::<T>()                 (Inv re-established, block covered)\n"
            "          *r == v for size_of::<T>() <= 8; all CBMC pointer/bounds checks inside the real alloc (second oracle)"
            % (h, rt))


def plan(tier):
    """list of dict(oid, props, fn, file, bounded, text, harnesses, tag)"""
    out = []
    for t, h, rt in ARENA_T:
        out.append(dict(oid="C38.arena.alloc.%s.post" % t, props=["C38"], fn="Arena::alloc::<%s>" % rt, file=F_ARENA,
                        bounded=BOUND_ARENA, text=_arena_text(h, rt), harnesses=["arena::u15::" + h], tag=None))
    out.append(dict(oid="C38.arena.with_capacity.inv", props=["C38"], fn="Arena::with_capacity / new / default", file=F_ARENA,
                    bounded="capacity <= 64 (symbolic)",
                    text="harness arena::u15::init_inv: with_capacity(cap), new(), default() establish Inv: offset <= current_buf.len() "
                         "(base case of the induction)", harnesses=["arena::u15::init_inv"], tag=None))
    k = 3 if tier == "thorough" else 2
    for row in IDSET:
        op, fn = row[0], row[1]
        hs, tag, bound = row[k]
        out.append(dict(oid="C37.idset.%s.wf_and_model" % op, props=["C37"], fn=fn, file=F_IDSET,
                        bounded=bound + "; " + B_COMMON,
                        text="harness(es) id_set::u15::{%s} (units/u15_utils/idset_harness.rs, fn body_%s / ro_%s): after each history "
                             "the operation's result equals the model's, and %s" % (",".join(hs), op, op, WF_TEXT),
                        harnesses=["id_set::u15::" + h for h in hs], tag=tag))
    fn, q, t = CLONE_INDEP
    hs, tag, bound = t if tier == "thorough" else q
    out.append(dict(oid="C37.idset.clone.independent", props=["C37"], fn=fn, file=F_IDSET, bounded=bound + "; " + B_COMMON,
                    text="harness(es) id_set::u15::{%s}: c = s.clone(); then drop(s), or s.clear() followed by s.insert(_); "
                         "every c[i] reads model[i] and check(c, model) holds, touching only live memory "
                         "(CBMC dereference checks: no deallocated / dead object)" % ",".join(hs),
                    harnesses=["id_set::u15::" + h for h in hs], tag=tag))
    return out


def run(tier="quick"):
    sc = E.Scratch("u15")
    obs = []
    try:
        meta = build(sc)
        spec = plan(tier)
        timeout = 1500 if tier == "thorough" else 300
        jobs = int(os.environ.get("U15_JOBS", "2"))
        harnesses = []
        for o in spec:
            for h in o['harnesses']:
                if h not in harnesses:
                    harnesses.append(h)
        # long ones first so that the tail of the schedule is short
        harnesses.sort(key=lambda h: 0 if "id_set" in h else 1)
        res, retried, killed = _kani(sc.path, harnesses, timeout, jobs)
        covers = {}
        for o in spec:
            parts = [_judge(res[h], o['tag']) for h in o['harnesses']]
            st, detail = _combine(parts)
            t = sum(res[h]['time_s'] for h in o['harnesses'])
            for h in o['harnesses']:
                covers[h] = ["%s: %s" % (d, s) for d, s in res[h]['cover']]
            obs.append(E.Obligation(o['oid'], o['props'], UNIT, o['fn'], "kani/cbmc", st, detail, t, o['file'],
                                    meta['sha'][o['file']], o['bounded'], o['text']))
        info = dict(
            assumptions=[
                "R5 stub (units/u15_utils/hash_stub.rs): crate::hash::HashMap (= rustc_hash::FxHashMap = std HashMap with "
                "FxBuildHasher) and std::collections::hash_map::Entry are replaced, in the Kani build of id_set.rs only, by an "
                "association list with the API subset {default, clone, len, is_empty, clear, get, entry, OccupiedEntry::{key,get}, "
                "VacantEntry::insert} that decides membership with the key's real Eq and calls the key's real Hash once per lookup; "
                "assumed: std's HashMap implements a finite map w.r.t. Eq when Hash is consistent with Eq "
                "(hashbrown under CBMC: 15 min timeout for 1 element). 2 `use` lines of id_set.rs redirected, nothing else changed.",
                "allocator model for the arena harnesses (#[kani::stub(std::alloc::alloc, any_addr_alloc)], %d stub attributes): "
                "std::alloc::alloc(layout) returns base+k of a fresh zeroed object of size+16 bytes, k symbolic, k < 16, "
                "k a multiple of layout.align(), i.e. any address (mod 16) the GlobalAlloc contract allows; arenas are mem::forget-ed at "
                "the end of these harnesses (Kani's __rust_dealloc cannot free the model's interior pointers)" % meta['kani_stub'],
                "kani::assume occurrences in the harness files: %d; all constrain harness inputs (buffer length <= 64, offset <= len "
                "[= the invariant], capacity <= 64, allocator k, non-null allocation); none constrains a result of the code under test"
                % meta['kani_assume'],
                "arena: old_bufs is empty in the arbitrary pre-state (alloc only pushes onto it; Vec::push is trusted std)",
                "IdSet: T = u8 only (element types with Drop / heap ownership are exercised only by the native Miri replay program, "
                "which uses String); histories bounded as stated per obligation",
                "CBMC does not track uninitialised memory (MaybeUninit contents); Kani does not check the alignment of ptr::write "
                "itself: alignment is checked by the explicit address assertion and by Kani's misaligned-dereference check in Ar::deref",
            ],
            trusted_base=["kani 0.68.0 / CBMC 6.11.0", "rustc include! (module assembly of the scratch crate)",
                          "units/u15_utils/hash_stub.rs (R5 association-list map)",
                          "units/u15_utils/arena_harness.rs::any_addr_alloc (allocator model)",
                          "std Vec / Box / slice and iterator adaptors as compiled by Kani"],
            checker_cmds=["CARGO_NET_OFFLINE=true timeout %d cargo kani -Z function-contracts -Z stubbing --harness <H> --exact "
                          "--output-format regular   (scratch crate u15k = real arena.rs, arena_ref.rs, id_set.rs + R5; %d at a time)"
                          % (timeout, jobs)],
            notes=dict(rewrites=meta['rewrites'], slice_sha=meta['sha'], covers=covers, retried_after_timeout=retried,
                       killed_for_memory=killed, tier=tier,
                       harness_placement="harness files are include!d as child module `u15` of the module whose body is the real "
                                         "file (same privacy scope as appending the text, real file untouched)"),
        )
        return obs, info
    finally:
        sc.cleanup()


# ------------------------------------------------------------------ replay on the real crate (native, under Miri)

REPLAY_TOML = """[package]
name = "u15replay"
version = "0.0.0"
edition = "2024"

[dependencies]
utils = { path = "%s" }

[workspace]
"""


def _miri(sc_path, main_rs, seeds="0..8", timeout=420, flags="-Zmiri-tree-borrows"):
    """Build a tiny binary against the REAL utils crate (path = $ABRA_REPO/utils) and run it under Miri.
    Returns (ub: bool|None, output)."""
    os.makedirs(os.path.join(sc_path, "src"), exist_ok=True)
    with open(os.path.join(sc_path, "Cargo.toml"), "w") as f:
        f.write(REPLAY_TOML % os.path.join(E.REPO, "utils"))
    with open(os.path.join(sc_path, "src", "main.rs"), "w") as f:
        f.write(main_rs)
    env = E.kani_env()
    env["CARGO_TARGET_DIR"] = os.path.join(sc_path, "target")
    env["MIRIFLAGS"] = ("-Zmiri-many-seeds=%s %s" % (seeds, flags)).strip()
    try:
        p = subprocess.run(["timeout", str(timeout), "cargo", "+nightly", "miri", "run", "--offline", "-q"],
                           capture_output=True, text=True, cwd=sc_path, env=env)
    except Exception as ex:  # pragma: no cover
        return None, str(ex)
    out = (p.stdout + "\n" + p.stderr)
    if "Undefined Behavior" in out:
        i = out.find("error: Undefined Behavior")
        return True, out[max(i, 0):][:1800]
    if p.returncode == 124 or "error: could not compile" in out or "error[E" in out:
        return None, out
    return False, out


def _replay_arena(ob):
    t = ob.id.split(".")[3]
    row = [r for r in ARENA_T if r[0] == t]
    if not row:
        return None, dict(note="no replay for %s" % ob.id)
    _, h, rt = row[0]
    sc = E.Scratch("u15r")
    try:
        build(sc)
        hname = "arena::u15::" + h
        res, _, _ = _kani(sc.path, [hname], 300, 1, playback=True)
        r = res[hname]
        info = dict(harness=hname, kani_status=r['status'], kani_failed=r['failed'][:6])
        pb = r.get('playback')
        if r['status'] != E.FAILED or not pb or len(pb) < 2:
            return None, info
        len0, off0 = E.le_int(pb[0], signed=False), E.le_int(pb[1], signed=False)
        info['counterexample'] = dict(current_buf_len=len0, offset=off0, T=rt)
        ob.cex = info['counterexample']
        if off0 > len0 or len0 > 64:
            return None, info
        main = _here("replay_arena.rs").replace("__LEN0__", str(len0)).replace("__OFF0__", str(off0)).replace("__T__", rt)
        ub, out = _miri(os.path.join(sc.path, "replay"), main)
        info['program'] = main
        info['real_output'] = out[:1800] if ub else out[-800:]
        info['oracle'] = ("cargo +nightly miri run (MIRIFLAGS=-Zmiri-many-seeds=0..8) on a binary linking the real utils crate: "
                          "Arena::with_capacity(len); offset x alloc(u8); alloc::<T>")
        if ub is None:
            return None, info
        return (ub or "U15-REPLAY-VIOLATION" in out), info
    finally:
        sc.cleanup()


def _replay_idset(ob):
    sc = E.Scratch("u15r")
    try:
        ub, out = _miri(os.path.join(sc.path, "replay"), _here("replay_idset.rs"), seeds="0..1")
        op = ob.id.split(".")[2]
        info = dict(program="units/u15_utils/replay_idset.rs", real_output=out[:1800] if ub else out[-800:],
                    note="the Kani harnesses of C37 have concrete histories (no symbolic input to play back); the same histories "
                         "are executed on the real crate (real FxHashMap), T = u8 and T = String, under Miri",
                    oracle="cargo +nightly miri run on a binary linking the real utils crate")
        if ub is None:
            return None, info
        bad = re.findall(r'U15-REPLAY-VIOLATION \[(\w+)\]', out)
        info['violations'] = bad
        if ub:
            return True, info
        return (op in bad or ("clone" in bad and op == "clone")), info
    finally:
        sc.cleanup()


def replay(ob):
    if ob.id.startswith("C38.arena.alloc."):
        return _replay_arena(ob)
    if ob.id.startswith("C37.idset."):
        return _replay_idset(ob)
    return None, dict(note="no replay for %s" % ob.id)
