// ===================================================================================
// U19 harness (hand written).  Appended to the same module as the sliced parser text, so
// private items (Parser, its methods, Parser.errors / Parser.index) are visible.
// Text between /*@X@*/ markers is generated on every run by units/u19_seplist/__init__.py
// (token tables from the sliced TokenKind; the `while` statement of parse_file cut verbatim).
// ===================================================================================

// ---- T5: the parser's token vector, instrumented (read high-water mark), same `get` API ----
pub(crate) struct TokVec {
    v: Vec<Token>,
    hw: std::cell::Cell<usize>,
}
impl From<Vec<Token>> for TokVec {
    fn from(v: Vec<Token>) -> Self {
        TokVec { v, hw: std::cell::Cell::new(0) }
    }
}
impl TokVec {
    pub(crate) fn get(&self, i: usize) -> Option<&Token> {
        if i + 1 > self.hw.get() {
            self.hw.set(i + 1);
        }
        self.v.get(i)
    }
    pub(crate) fn high_water(&self) -> usize {
        self.hw.get()
    }
}

thread_local! {
    // S1/S2 variant: does the production stub step over the offending token before returning Err
    // (like the real Parser::expect_ident) or leave the cursor on it (like the `_ =>` arm of the
    // real Parser::parse_expr_term)?  Both variants are enumerated.
    static ADVANCE_ON_ERR: std::cell::Cell<bool> = std::cell::Cell::new(false);
    // progress guard: number of production calls in the current parser run / limit
    static CALLS: std::cell::Cell<usize> = std::cell::Cell::new(0);
    static CALL_LIMIT: std::cell::Cell<usize> = std::cell::Cell::new(0);
}

impl Parser {
    /// S1: production stub.  Consumes exactly one `Ident` token and returns its position;
    /// on any other token returns Err(UnexpectedToken) exactly like the real leaf parsers do.
    fn u19_item(&mut self) -> Result<usize, Box<Error>> {
        let c = CALLS.with(|c| {
            c.set(c.get() + 1);
            c.get()
        });
        if c > CALL_LIMIT.with(|l| l.get()) {
            panic!("no progress: the production parser was called more often than there are tokens");
        }
        let current = self.current_token();
        if let TokenKind::Ident(_) = current.kind {
            self.consume_token();
            Ok(current.span.lo)
        } else {
            if ADVANCE_ON_ERR.with(|a| a.get()) {
                self.consume_token();
            }
            Err(Box::new(Error::UnexpectedToken(String::new(), String::new(), self.current_token_location())))
        }
    }

    /// S2: stub of Parser::parse_item for the toplevel loop of parse_file: one `Ident` = one item.
    /// The real parse_item skips newlines first; so does the stub.
    fn parse_item(&mut self) -> Result<Rc<usize>, Box<Error>> {
        self.skip_newlines();
        self.u19_item().map(Rc::new)
    }
}

/// S3: stand-in for StaticsContext: the toplevel loop only touches `ctx.errors`.
pub(crate) struct Ctx {
    pub(crate) errors: Vec<Error>,
}

/// The `while !parser.done() { ... }` statement of parse_file, cut verbatim on every run.
/// `items`, `parser`, `ctx` are the names the statement uses in parse_file.
fn toplevel_loop(parser: &mut Parser, ctx: &mut Ctx) -> Vec<Rc<usize>> {
    let mut items: Vec<Rc<usize>> = vec![];
    /*@TOP_LOOP@*/
    items
}

pub mod u19 {
    use super::*;

    // ---- generated: TokenTag -> TokenKind with empty payload strings (T2) ----------
    /*@KIND_OF@*/

    pub const MAXN: usize = /*@MAXN@*/; // delimited lists: longest token string
    pub const MAXT: usize = /*@MAXT@*/; // toplevel loop: longest token string
    pub const HAS_TOP: bool = /*@HAS_TOP@*/;
    const CAP: usize = (if MAXN > MAXT { MAXN } else { MAXT }) + 2;

    const ALPHABET: [TokenTag; 7] = [
        TokenTag::Ident,
        TokenTag::Comma,
        TokenTag::Semicolon,
        TokenTag::Newline,
        TokenTag::CloseParen,
        TokenTag::CloseBrace,
        TokenTag::IntLit,
    ];
    const TOP_ALPHABET: [TokenTag; 4] = [TokenTag::Ident, TokenTag::Semicolon, TokenTag::Newline, TokenTag::IntLit];
    const CONFIGS: [(TokenTag, TokenTag); 2] =
        [(TokenTag::CloseParen, TokenTag::Comma), (TokenTag::CloseBrace, TokenTag::Semicolon)];

    fn tok(kind: TokenKind, i: usize) -> Token {
        Token { kind, span: Span { lo: i, hi: i + 1 } }
    }

    fn show(tags: &[TokenTag]) -> String {
        if tags.is_empty() {
            return "<empty>".to_string();
        }
        tags.iter().map(|t| format!("{:?}", t)).collect::<Vec<_>>().join(" ")
    }

    // ================================================================================
    // What the real code did on one token string
    // ================================================================================
    #[derive(Clone, Debug, PartialEq)]
    enum Shape {
        Accepted,        // Ok(..) and no diagnostic recorded
        ProductionErr,   // Err(..) propagated from the production by `?`
        Diagnostics(usize), // Ok(..) but expect_token pushed n UnexpectedToken errors (cursor not advanced)
        Panicked(String),
    }
    #[derive(Clone, Debug)]
    struct Got {
        shape: Shape,
        items: Vec<usize>,
        index: usize,
        hw: usize,
    }
    impl Got {
        fn accepted(&self) -> bool {
            self.shape == Shape::Accepted
        }
        fn describe(&self) -> String {
            match &self.shape {
                Shape::Accepted => format!("accepted, items at {:?}, cursor {}", self.items, self.index),
                Shape::ProductionErr => format!("rejected: Err from the production, cursor {}", self.index),
                Shape::Diagnostics(n) => {
                    format!("rejected: {} UnexpectedToken diagnostic(s) recorded, items at {:?}, cursor {}", n, self.items, self.index)
                }
                Shape::Panicked(m) => format!("panicked: {}", m),
            }
        }
    }

    fn token_vector(tags: &[TokenTag]) -> Vec<Token> {
        let mut tokens: Vec<Token> = tags.iter().enumerate().map(|(i, t)| tok(plain_kind(*t), i)).collect();
        // the real lexer ends every token vector with Eof (lexer.rs: `lexer.emit(TokenKind::Eof)`)
        tokens.push(tok(TokenKind::Eof, tags.len()));
        tokens
    }

    fn panic_text(e: Box<dyn std::any::Any + Send>) -> String {
        if let Some(s) = e.downcast_ref::<&str>() {
            s.to_string()
        } else if let Some(s) = e.downcast_ref::<String>() {
            s.clone()
        } else {
            "panic".to_string()
        }
    }

    /// the REAL parse_delimited_list on `tags ++ [Eof]`, cursor at 0
    fn run_list(tags: &[TokenTag], close: TokenTag, sep: TokenTag) -> Got {
        CALLS.with(|c| c.set(0));
        CALL_LIMIT.with(|l| l.set(tags.len() + 2));
        let mut p = Parser::new(token_vector(tags).into(), 0, CAP + 2);
        let r = std::panic::catch_unwind(std::panic::AssertUnwindSafe(|| p.parse_delimited_list(close, sep, Parser::u19_item)));
        let hw = p.tokens.high_water();
        match r {
            Err(e) => Got { shape: Shape::Panicked(panic_text(e)), items: vec![], index: p.index, hw: usize::MAX },
            Ok(Err(_)) => Got { shape: Shape::ProductionErr, items: vec![], index: p.index, hw },
            Ok(Ok(items)) => {
                let shape = if p.errors.is_empty() { Shape::Accepted } else { Shape::Diagnostics(p.errors.len()) };
                Got { shape, items, index: p.index, hw }
            }
        }
    }

    /// the REAL toplevel loop of parse_file on `tags ++ [Eof]`
    fn run_top(tags: &[TokenTag]) -> Got {
        CALLS.with(|c| c.set(0));
        CALL_LIMIT.with(|l| l.set(tags.len() + 2));
        let mut p = Parser::new(token_vector(tags).into(), 0, CAP + 2);
        let mut ctx = Ctx { errors: vec![] };
        let r = std::panic::catch_unwind(std::panic::AssertUnwindSafe(|| toplevel_loop(&mut p, &mut ctx)));
        let hw = p.tokens.high_water();
        match r {
            Err(e) => Got { shape: Shape::Panicked(panic_text(e)), items: vec![], index: p.index, hw: usize::MAX },
            Ok(items) => {
                let n = ctx.errors.len() + p.errors.len();
                let shape = if n == 0 { Shape::Accepted } else { Shape::Diagnostics(n) };
                Got { shape, items: items.iter().map(|i| **i).collect(), index: p.index, hw }
            }
        }
    }

    // ================================================================================
    // Reference: the grammar, transcribed as a nondeterministic automaton and simulated on
    // state SETS (no backtracking, no cursor: a different algorithm from the parser's loop).
    //
    //   list := NL* ( item ( sep NL* item )* sep? NL* )? close      sep := SEP | NL
    //
    //   Q0  inside the leading NL*                     NL -> Q0     item -> Q1
    //   Q1  just after an item                         SEP -> Q2    NL -> Q2 (NL used as sep)
    //                                                  NL -> Q3 (sep? absent, NL is part of the trailing NL*)
    //   Q2  after a separator, inside its NL*          NL -> Q2     item -> Q1
    //   Q3  inside the trailing NL* (no separator)     NL -> Q3
    //   every state: close -> ACCEPT (Q2 + close is `sep? NL* close` with the separator present)
    // The items are the Ident tokens consumed; the list ends just after `close`.
    // ================================================================================
    const Q0: u8 = 1;
    const Q1: u8 = 2;
    const Q2: u8 = 4;
    const Q3: u8 = 8;

    struct RefOut {
        accept: bool,
        end: usize,
        items: Vec<usize>,
        hw: usize,
    }

    /// `newline_is_sep = false` is the vacuity canary (a deliberately wrong grammar in which a
    /// Newline cannot stand for the separator).
    fn reference_list(tags: &[TokenTag], close: TokenTag, sep: TokenTag, newline_is_sep: bool) -> RefOut {
        let n = tags.len();
        let mut st = Q0;
        let mut items = vec![];
        let mut pos = 0;
        loop {
            let t = if pos < n { tags[pos] } else { TokenTag::Eof };
            let hw = pos + 1;
            if t == close {
                return RefOut { accept: true, end: pos + 1, items, hw };
            }
            let mut nx = 0u8;
            if st & Q0 != 0 {
                if t == TokenTag::Newline { nx |= Q0 }
                if t == TokenTag::Ident { nx |= Q1 }
            }
            if st & Q1 != 0 {
                if t == sep { nx |= Q2 }
                if t == TokenTag::Newline {
                    nx |= Q3;
                    if newline_is_sep { nx |= Q2 }
                }
            }
            if st & Q2 != 0 {
                if t == TokenTag::Newline { nx |= Q2 }
                if t == TokenTag::Ident { nx |= Q1 }
            }
            if st & Q3 != 0 {
                if t == TokenTag::Newline { nx |= Q3 }
            }
            if nx == 0 {
                return RefOut { accept: false, end: 0, items, hw };
            }
            if t == TokenTag::Ident {
                items.push(pos);
            }
            st = nx;
            pos += 1;
        }
    }

    /// Toplevel loop ("optional semicolon between toplevel statements (and items in general)"):
    ///   file := NL* ( item `;`? NL* )* Eof
    ///   T0 (an item or the end may follow)   NL -> T0   item -> T1   Eof -> ACCEPT
    ///   T1 (just after an item)              `;` -> T0  and everything T0 allows
    fn reference_top(tags: &[TokenTag], semicolon_optional_sep: bool) -> RefOut {
        let n = tags.len();
        let mut after_item = false;
        let mut items = vec![];
        for pos in 0..n {
            let t = tags[pos];
            if t == TokenTag::Newline {
                after_item = false;
            } else if t == TokenTag::Ident {
                items.push(pos);
                after_item = true;
            } else if t == TokenTag::Semicolon && after_item && semicolon_optional_sep {
                after_item = false;
            } else {
                return RefOut { accept: false, end: 0, items, hw: n + 1 };
            }
        }
        RefOut { accept: true, end: n, items, hw: n + 1 }
    }

    // ================================================================================
    // Reports
    // ================================================================================
    #[derive(Default, Clone)]
    pub struct Report {
        pub runs: u64,
        pub covered_strings: f64,
        pub accepted: u64,        // strings that ARE a complete list according to the grammar
        pub accepted_2plus: u64,  // ... with at least two items
        pub accepted_maxlen: u64,
        pub rejected: u64,
        pub pairs: u64,           // (string, edited string) pairs compared for separator_choice
        pub n_grammar: u64,
        pub grammar: Vec<String>,
        pub n_choice: u64,
        pub choice: Vec<String>,
        pub n_inconsistent: u64,  // harness self-check: an edit the grammar does not allow was generated
        pub inconsistent: Vec<String>,
    }
    impl Report {
        fn merge(&mut self, r: Report) {
            self.runs += r.runs;
            self.covered_strings += r.covered_strings;
            self.accepted += r.accepted;
            self.accepted_2plus += r.accepted_2plus;
            self.accepted_maxlen += r.accepted_maxlen;
            self.rejected += r.rejected;
            self.pairs += r.pairs;
            self.n_grammar += r.n_grammar;
            self.n_choice += r.n_choice;
            self.n_inconsistent += r.n_inconsistent;
            for m in r.grammar { keep_shortest(&mut self.grammar, m) }
            for m in r.choice { keep_shortest(&mut self.choice, m) }
            for m in r.inconsistent { keep_shortest(&mut self.inconsistent, m) }
        }
    }

    /// keep the 8 examples with the shortest text
    fn keep_shortest(v: &mut Vec<String>, text: String) {
        v.push(text);
        v.sort_by_key(|t| t.len());
        v.truncate(8);
    }

    /// clause (1)+(2): accept exactly the grammar's strings, return exactly the items, stop after `close`
    fn grammar_verdict(got: &Got, want: &RefOut) -> Option<String> {
        let exp = if want.accept {
            format!("accepted, items at {:?}, cursor {}", want.items, want.end)
        } else {
            "rejected (Err, or an UnexpectedToken diagnostic recorded)".to_string()
        };
        let bad = match (&got.shape, want.accept) {
            (Shape::Panicked(_), _) => true,
            (Shape::Accepted, true) => got.items != want.items || got.index != want.end,
            (Shape::Accepted, false) => true,
            (_, true) => true,
            (_, false) => false,
        };
        if bad { Some(format!("got {} | expected {}", got.describe(), exp)) } else { None }
    }

    #[derive(Clone, Copy)]
    enum Mode {
        List(TokenTag, TokenTag),
        Top,
    }
    impl Mode {
        fn run(&self, tags: &[TokenTag]) -> Got {
            match self {
                Mode::List(c, s) => run_list(tags, *c, *s),
                Mode::Top => run_top(tags),
            }
        }
        fn reference(&self, tags: &[TokenTag], canary: bool) -> RefOut {
            match self {
                Mode::List(c, s) => reference_list(tags, *c, *s, !canary),
                Mode::Top => reference_top(tags, !canary),
            }
        }
        fn sep(&self) -> TokenTag {
            match self {
                Mode::List(_, s) => *s,
                Mode::Top => TokenTag::Semicolon,
            }
        }
        fn label(&self) -> String {
            match self {
                Mode::List(c, s) => format!("{:?}/{:?}", c, s),
                Mode::Top => "toplevel".to_string(),
            }
        }
    }

    /// clause (3), checked directly on the REAL code: for a string `tags` that is a complete list,
    /// every single edit  SEP <-> Newline at a separator position  and every single Newline inserted
    /// where the grammar has an NL*  must leave the parse result unchanged (same items, item
    /// positions shifted by the insertion, cursor just after the list).
    /// Separator position = the token right after an item (it is SEP or Newline in a complete list).
    /// NL* positions (insert before token p): p == 0, or token p-1 is not an item, or token p is the
    /// closing delimiter / the end, or token p is a Newline; i.e. everywhere except between an item
    /// and an explicit SEP token.
    fn choice_check(mode: Mode, tags: &[TokenTag], base: &Got, rep: &mut Report) {
        let n = tags.len();
        let sep = mode.sep();
        let is_top = matches!(mode, Mode::Top);
        let mut variant: Vec<TokenTag> = Vec::with_capacity(n + 1);
        for i in 1..n {
            if tags[i - 1] == TokenTag::Ident && (tags[i] == sep || tags[i] == TokenTag::Newline) {
                variant.clear();
                variant.extend_from_slice(tags);
                variant[i] = if tags[i] == sep { TokenTag::Newline } else { sep };
                let edit = format!("{:?} -> {:?} at token {}", tags[i], variant[i], i);
                compare(mode, tags, base, &variant, None, &edit, rep);
            }
        }
        let last = if is_top { n + 1 } else { n }; // lists: never after the closing delimiter
        for p in 0..last {
            let allowed = p == 0
                || tags[p - 1] != TokenTag::Ident
                || p == n
                || tags[p] == TokenTag::Newline
                || (!is_top && p == n - 1)
                || (is_top && tags[p] != sep);
            if !allowed {
                continue;
            }
            variant.clear();
            variant.extend_from_slice(&tags[..p]);
            variant.push(TokenTag::Newline);
            variant.extend_from_slice(&tags[p..]);
            let edit = format!("Newline inserted before token {}", p);
            compare(mode, tags, base, &variant, Some(p), &edit, rep);
        }
    }

    fn compare(mode: Mode, a: &[TokenTag], base: &Got, b: &[TokenTag], inserted: Option<usize>, edit: &str, rep: &mut Report) {
        rep.pairs += 1;
        // harness self-check: the edit must stay inside the grammar
        let rb = mode.reference(b, false);
        if !(rb.accept && rb.end == b.len()) {
            rep.n_inconsistent += 1;
            keep_shortest(&mut rep.inconsistent, format!("{}| {} | {} | {}", mode.label(), show(a), show(b), edit));
            return;
        }
        let gb = mode.run(b);
        let map = |q: usize| match inserted {
            Some(p) if q >= p => q + 1,
            _ => q,
        };
        let same = match (base.accepted(), gb.accepted()) {
            (true, true) => {
                base.items.iter().map(|q| map(*q)).collect::<Vec<_>>() == gb.items
                    && gb.index == base.index + if inserted.is_some() { 1 } else { 0 }
            }
            (false, false) => !matches!(gb.shape, Shape::Panicked(_)) && !matches!(base.shape, Shape::Panicked(_)),
            _ => false,
        };
        if !same {
            rep.n_choice += 1;
            keep_shortest(
                &mut rep.choice,
                format!("{}| A: {} -> {} | B: {} -> {} | edit: {}", mode.label(), show(a), base.describe(), show(b), gb.describe(), edit),
            );
        }
    }

    // ================================================================================
    // Exhaustive enumeration.  A string is not extended when neither the real parser nor the
    // reference read a token at or beyond its end (index >= len, i.e. the Eof): every extension
    // then behaves identically and is covered by the prefix.
    // ================================================================================
    fn visit(mode: Mode, s: &[TokenTag], maxn: usize, canary: bool, rep: &mut Report) -> usize {
        let want = mode.reference(s, canary);
        let got = mode.run(s);
        rep.runs += 1;
        rep.covered_strings += 1.0;
        let complete = want.accept && want.end == s.len();
        if want.accept {
            if complete {
                rep.accepted += 1;
                if want.items.len() >= 2 { rep.accepted_2plus += 1 }
                if s.len() == maxn { rep.accepted_maxlen += 1 }
            }
        } else {
            rep.rejected += 1;
        }
        if let Some(why) = grammar_verdict(&got, &want) {
            rep.n_grammar += 1;
            keep_shortest(&mut rep.grammar, format!("{}| {} | {}", mode.label(), show(s), why));
        }
        if complete && !canary {
            choice_check(mode, s, &got, rep);
        }
        got.hw.max(want.hw)
    }

    fn dfs(mode: Mode, alphabet: &[TokenTag], s: &mut Vec<TokenTag>, maxn: usize, canary: bool, rep: &mut Report) {
        let hw = visit(mode, s, maxn, canary, rep);
        if s.len() == maxn {
            return;
        }
        if hw <= s.len() {
            let a = alphabet.len() as f64;
            let mut pw = a;
            let mut k = 1;
            while s.len() + k <= maxn {
                rep.covered_strings += pw;
                pw *= a;
                k += 1;
            }
            return;
        }
        for t in alphabet.iter() {
            s.push(*t);
            dfs(mode, alphabet, s, maxn, canary, rep);
            s.pop();
        }
    }

    fn json_list(v: &Vec<String>) -> String {
        v.iter().map(|m| format!("{:?}", m)).collect::<Vec<_>>().join(",")
    }

    fn json_report(label: &str, advance: bool, alphabet: usize, maxn: usize, r: &Report) -> String {
        format!(
            "{{\"mode\":{:?},\"advance_on_err\":{},\"alphabet\":{},\"maxn\":{},\"runs\":{},\"covered_strings\":{},\"accepted\":{},\"accepted_2plus\":{},\"accepted_maxlen\":{},\"rejected\":{},\"pairs\":{},\"n_grammar\":{},\"n_choice\":{},\"n_inconsistent\":{},\"grammar\":[{}],\"choice\":[{}],\"inconsistent\":[{}]}}",
            label, advance, alphabet, maxn, r.runs, r.covered_strings, r.accepted, r.accepted_2plus, r.accepted_maxlen, r.rejected, r.pairs,
            r.n_grammar, r.n_choice, r.n_inconsistent, json_list(&r.grammar), json_list(&r.choice), json_list(&r.inconsistent)
        )
    }

    /// args: <maxn> <maxt> [canary]      (at most 4 threads)
    pub fn enumerate_main() {
        let args: Vec<String> = std::env::args().collect();
        let maxn: usize = args.get(1).and_then(|a| a.parse().ok()).unwrap_or(MAXN).min(MAXN);
        let maxt: usize = args.get(2).and_then(|a| a.parse().ok()).unwrap_or(MAXT).min(MAXT);
        let canary = args.get(3).map(|a| a == "canary").unwrap_or(false);
        std::panic::set_hook(Box::new(|_| {})); // panics of the code under test are caught and reported per string
        let mut handles = vec![];
        for (close, sep) in CONFIGS.iter() {
            for advance in [false, true] {
                let (close, sep) = (*close, *sep);
                handles.push(std::thread::spawn(move || {
                    ADVANCE_ON_ERR.with(|a| a.set(advance));
                    let mut out = vec![];
                    let mut rep = Report::default();
                    let mode = Mode::List(close, sep);
                    dfs(mode, &ALPHABET, &mut vec![], maxn, canary, &mut rep);
                    out.push(json_report(&mode.label(), advance, ALPHABET.len(), maxn, &rep));
                    // the toplevel loop shares the two threads of the first configuration
                    if HAS_TOP && close == TokenTag::CloseParen {
                        let mut rep = Report::default();
                        dfs(Mode::Top, &TOP_ALPHABET, &mut vec![], maxt, canary, &mut rep);
                        out.push(json_report("toplevel", advance, TOP_ALPHABET.len(), maxt, &rep));
                    }
                    out
                }));
            }
        }
        let mut all = vec![];
        for h in handles {
            all.extend(h.join().expect("enumeration thread died"));
        }
        println!("{{\"reports\":[{}]}}", all.join(","));
    }
}
