"""U19: separator handling of the parser's list helper (property C29, parser half):
`Parser::parse_delimited_list(closing_delimiter, separator, parse_production)` of
abra_core/src/parse.rs -- argument lists, tuples, arrays, struct fields, type arguments
(separator Comma) and statement blocks (separator Semicolon) -- against the grammar

    list :=  NL*  ( item  ( sep NL* item )*  sep? NL* )?  close        sep := SEPARATOR | Newline

and, as a third obligation, the toplevel item loop of `parse_file` ("optional semicolon between
toplevel statements") against   file := NL* ( item `;`? NL* )* Eof.

Sliced verbatim on every run (by name, tools/slicer.py; same recipe as units/u12_prec):
  lexer.rs : struct Span, struct Token + impl Token, enum TokenKind
  ast.rs   : struct Location, type FileId
  parse.rs : struct Parser; Parser::{new, done, current_token, eof, current_token_location,
             expect_token, consume_token, skip_newlines, parse_delimited_list}; the statement
             `while !parser.done() { ... }` of fn parse_file (cut out of the function body by
             brace matching; the rest of parse_file -- tokenize_file, file_db, FileAst -- needs the
             whole front end and is NOT part of the slice)
Type substitutions / stubs (all listed in info['trusted_base'] / info['assumptions']):
  T1 strum derives on TokenKind -> a generated fieldless `TokenTag` + `discriminant()`;
     `to_string()` on a tag -> empty String (diagnostic text only).
  T2 token payload strings are empty: the sliced functions decide on Token::tag() only.
  T4 statics::Error -> two-variant stub (UnexpectedToken, ProblematicToken).
  T5 Parser.tokens: Vec<Token> -> TokVec (same `get`; records the highest index read, for pruning).
  S1 production parser -> stub `u19_item`: consumes exactly one Ident and returns its position;
     Err(UnexpectedToken) on any other token.  Both behaviours of the real leaf parsers on the
     offending token are enumerated: cursor stepped over it (Parser::expect_ident) / left on it
     (`_ =>` arm of Parser::parse_expr_term).
  S2 Parser::parse_item (toplevel loop only) -> skip_newlines + S1.
  S3 StaticsContext (toplevel loop only) -> struct Ctx { errors: Vec<Error> }, the only field the
     loop touches; `items` is a Vec<Rc<usize>>.

What "reject" looks like, derived from the real code: parse_delimited_list has two failure shapes,
(a) `Err(e)` propagated by `?` from the production, (b) `Ok(productions)` with one
Error::UnexpectedToken pushed on `Parser.errors` by expect_token(closing_delimiter) and the cursor
left ON the offending token.  Acceptance = Ok(..) and `errors` empty; then the cursor must be just
after the closing delimiter and the productions must be exactly the items in order.

Back end: exhaustive native execution of the sliced real code (rustc release build) on EVERY token
string up to the stated length over {Ident , ; Newline ) } IntLit} followed by the Eof token the real
lexer appends, for (close `)`, sep `,`) and (close `}`, sep `;`), against a reference that is the
grammar above transcribed as a nondeterministic automaton simulated on state sets.  A string is not
extended when neither side read a token at or beyond its end.  Vacuity: a canary run with a wrong
grammar (Newline cannot stand for the separator / `;` not allowed at toplevel) must produce
mismatches; complete lists and lists with >= 2 items must have been enumerated.

Side observation (outside C29, not asserted here): parse_file flushes `parser.errors` into
`ctx.errors` only when some parse_item returns Err, so a diagnostic recorded by expect_token in the
LAST item of a file is dropped: the one-line program `println(1` (no `)`, no final newline) runs
and prints 1.
"""
import json
import os
import re
import subprocess
import time

import slicer as S
import engine as E
import abra_cli
from units.u12_prec import enum_variants  # name -> payload list of an enum's variants (tolerant reader)

HERE = os.path.dirname(os.path.abspath(__file__))
UNIT = "U19-seplist"
P = 'abra_core/src/parse.rs'
A = 'abra_core/src/ast.rs'
L = 'abra_core/src/parse/lexer.rs'
BACKEND = "exhaustive native execution of the sliced real code (rustc release build of the slice)"

PARSER_METHODS = ['new', 'done', 'current_token', 'eof', 'current_token_location', 'expect_token',
                  'consume_token', 'skip_newlines', 'parse_delimited_list']
LIST_KEYS = ['Parser::parse_delimited_list', 'Parser::skip_newlines', 'Parser::expect_token',
             'Parser::consume_token', 'Parser::current_token', 'Parser::eof']
USED_TAGS = ['Ident', 'Comma', 'Semicolon', 'Newline', 'CloseParen', 'CloseBrace', 'IntLit', 'Eof']

PRELUDE = """#![allow(dead_code, unused_imports, unused_variables, unused_mut, non_snake_case, clippy::all)]
use std::mem;
use std::rc::Rc;

// ---- T4: statics::Error reduced to the variants the sliced code constructs ----
#[derive(Debug)]
pub(crate) enum Error {
    UnexpectedToken(String, String, Location),
    ProblematicToken(String, Location),
}
"""

CARGO = """[package]
name = "u19"
version = "0.1.0"
edition = "2024"
[dependencies]
[lints.rust]
unexpected_cfgs = { level = "allow" }
[profile.release]
debug = false
[workspace]
"""

MAIN = "fn main() {\n    u19::u19::enumerate_main();\n}\n"

GRAMMAR = "list := NL* ( item ( sep NL* item )* sep? NL* )? close   with sep := SEPARATOR | one Newline"
TEXT_GRAMMAR = (
    "for every token string s of the bounded domain (followed by Eof), for (close, SEPARATOR) in {(`)`, `,`), (`}`, `;`)} and a production "
    "that consumes exactly one Ident: the real parse_delimited_list(close, SEPARATOR, production) started at token 0 returns Ok(v) with no "
    "diagnostic recorded  <=>  a prefix of s is derived by  " + GRAMMAR + " ; and then v is exactly the positions of the items in "
    "order and the cursor is just after `close`. Reject = Err from the production or an UnexpectedToken recorded by expect_token(close).")
TEXT_CHOICE = (
    "for every token string s of the bounded domain that is a complete list of the grammar (" + GRAMMAR + "), and every single edit e of s: "
    "(a) SEPARATOR -> Newline or Newline -> SEPARATOR at a separator position (the token right after an item), (b) one Newline inserted where "
    "the grammar has NL* (at the start, after a separator or Newline, before `close`, before a Newline; i.e. anywhere except between an item "
    "and an explicit SEPARATOR): the real parse_delimited_list gives the same result on s and e(s) (both accepted, same items with positions "
    "shifted by the insertion, cursor just after `close`). Checked on the real code directly; a failure names both token strings.")
TEXT_TOP = (
    "for every token string s over {Ident ; Newline IntLit} followed by Eof and a parse_item that consumes exactly one Ident: the real "
    "`while !parser.done() {..}` loop of parse_file records no error  <=>  s is derived by  file := NL* ( item `;`? NL* )* ; then `items` is "
    "exactly the items in order and the cursor is on Eof; and for every accepted s, replacing the `;` after an item by a Newline (or the "
    "Newline after an item by `;`) or inserting a Newline anywhere except between an item and its `;` gives the same items.")


# ------------------------------------------------------------------ crate assembly

def slice_top_loop():
    """The `while !parser.done() { ... }` statement of parse_file, verbatim."""
    pf = S.item(P, r'pub\(crate\) fn parse_file\(')
    _, body = S.fn_parts(pf)
    ms = list(re.finditer(r'^[ \t]*while !parser\.done\(\) \{', body, re.M))
    if len(ms) != 1:
        raise S.SliceError("parse_file: `while !parser.done() {` found %d times" % len(ms))
    i = body.index('{', ms[0].start())
    return body[ms[0].start():S.match_brace(body, i) + 1]


def build(maxn, maxt, with_top=True):
    sl = {}

    def take(key, text):
        sl[key] = text
        return text

    # --- lexer.rs (T1: strum derives -> generated TokenTag, as in u12_prec)
    tk = take('TokenKind', S.item(L, r'pub\(crate\) enum TokenKind \{'))
    kinds = enum_variants(tk)
    tk2, k = re.subn(r'#\[derive\(Clone, PartialEq, EnumDiscriminants, EnumString\)\]\n(?:#\[strum[^\n]*\]\n)+',
                     '#[derive(Clone, PartialEq)]\n', tk)
    if k != 1:
        raise S.SliceError("TokenKind: strum derive header not found (T1)")
    tk2, k_attr = re.subn(r'^[ \t]*#\[strum\([^\n]*\)\]\n', '', tk2, flags=re.M)
    for t in USED_TAGS:
        if t not in kinds:
            raise S.SliceError("TokenKind::%s not found" % t)
    for v in kinds:
        if kinds[v] and kinds[v] != ['String']:
            raise S.SliceError("TokenKind::%s has a payload other than String" % v)
    token = take('Token', S.item(L, r'pub\(crate\) struct Token \{'))
    token_impl = S.impl_block(L, r'impl Token \{')
    if len(token_impl) != 1:
        raise S.SliceError("impl Token found %d times" % len(token_impl))
    take('impl Token', token_impl[0])
    span = take('Span', S.item(L, r'pub\(crate\) struct Span \{'))
    if not re.search(r'lexer\.emit\(TokenKind::Eof\);', S.read(L)):
        raise S.SliceError("lexer.rs: the lexer no longer ends the token vector with `lexer.emit(TokenKind::Eof)`")
    tag_enum = "#[derive(Debug, Clone, Copy, PartialEq, Eq)]\npub(crate) enum TokenTag {\n%s}\n" % "".join(
        "    %s,\n" % v for v in kinds)
    disc = "impl TokenKind {\n    pub(crate) fn discriminant(&self) -> TokenTag {\n        match self {\n%s        }\n    }\n}\n" % "".join(
        "            TokenKind::%s%s => TokenTag::%s,\n" % (v, "(..)" if kinds[v] else "", v) for v in kinds)
    tag_str = ("impl TokenTag {\n    // T1: Display/IntoStaticStr of a tag is only used for diagnostics text\n"
               "    pub(crate) fn to_string(&self) -> String {\n        String::new()\n    }\n}\n")

    # --- ast.rs
    loc = take('Location', S.item(A, r'pub\(crate\) struct Location \{'))
    fileid = take('FileId', S.item(A, r'pub type FileId = '))

    # --- parse.rs
    parser = take('Parser', S.item(P, r'struct Parser \{'))
    parser, k_t5a = re.subn(r'\btokens: Vec<Token>,', 'tokens: TokVec, // T5', parser)
    methods = []
    k_t5b = 0
    for mname in PARSER_METHODS:
        mt = take('Parser::' + mname, S.method(P, r'impl Parser \{', mname))
        if mname == 'new':
            mt, k_t5b = re.subn(r'\btokens: Vec<Token>,', 'tokens: TokVec,', mt)
        methods.append(mt)
    if k_t5a != 1 or k_t5b != 1:
        raise S.SliceError("Parser.tokens: Vec<Token> not found once in struct Parser / Parser::new (T5)")
    sig = S.fn_parts(sl['Parser::parse_delimited_list'])[0]
    if not re.search(r'closing_delimiter: TokenTag,\s*separator: TokenTag,\s*parse_production: impl Fn\(&mut Self\) -> Result<T, Box<Error>>,\s*\) -> Result<Vec<T>, Box<Error>>', sig):
        raise S.SliceError("parse_delimited_list: signature changed: %s" % " ".join(sig.split()))
    top_loop, top_err = None, None
    if with_top:
        try:
            top_loop = take('parse_file::while', slice_top_loop())
        except S.SliceError as e:
            top_err = str(e)

    klist = list(kinds)
    gen_kind = "fn plain_kind(t: TokenTag) -> TokenKind {\n        match t {\n%s        }\n    }\n" % "".join(
        "            TokenTag::%s => TokenKind::%s%s,\n" % (v, v, "(String::new())" if kinds[v] else "") for v in klist)

    with open(os.path.join(HERE, 'harness.rs')) as f:
        h = f.read()
    for mark, val in (('KIND_OF', gen_kind), ('MAXN', str(maxn)), ('MAXT', str(maxt)),
                      ('HAS_TOP', 'true' if top_loop else 'false'), ('TOP_LOOP', top_loop or '')):
        if ('/*@%s@*/' % mark) not in h:
            raise E.Undecided("harness.rs: marker %s missing" % mark)
        h = h.replace('/*@%s@*/' % mark, val)

    lib = PRELUDE
    lib += "\n// ---- T1/T2: lexer.rs token types (strum derives replaced by generated code) ----\n"
    lib += "\n".join([span, token, token_impl[0], tk2, tag_enum, disc, tag_str])
    lib += "\n// ---- ast.rs ----\n"
    lib += "\n".join([fileid, loc])
    lib += "\n// ---- parse.rs ----\n"
    lib += "\n".join([parser, "impl Parser {\n" + "\n\n".join(methods) + "\n}\n"])
    lib += "\n" + h
    rewrites = dict(T1_strum_header=k, T1_strum_variant_attrs=k_attr, methods_sliced=len(methods),
                    T5_token_vector=k_t5a + k_t5b, toplevel_loop_sliced=bool(top_loop))
    return lib, dict(sl=sl, rewrites=rewrites, top_err=top_err, has_top=bool(top_loop))


def native_build(crate, timeout):
    env = E.kani_env()
    env["CARGO_TARGET_DIR"] = os.path.join(crate, "target-native")
    env["CARGO_BUILD_JOBS"] = "4"
    p = subprocess.run(["timeout", str(timeout), "cargo", "build", "--release", "--offline", "--quiet", "-j", "4"], cwd=crate,
                       capture_output=True, text=True, env=env)
    return p, os.path.join(env["CARGO_TARGET_DIR"], "release", "u19")


def run_exe(exe, argv, timeout):
    t = time.time()
    q = subprocess.run(["timeout", str(timeout), exe] + argv, capture_output=True, text=True)
    if q.returncode == 124:
        raise E.Undecided("u19: enumerator timed out after %d s (%s)" % (timeout, " ".join(argv)))
    if q.returncode != 0:
        raise E.Undecided("u19: enumerator run failed rc=%d\n%s" % (q.returncode, (q.stdout + q.stderr)[-2000:]))
    try:
        out = json.loads(q.stdout.strip().split("\n")[-1])
    except ValueError:
        raise E.Undecided("u19: enumerator output not understood:\n" + q.stdout[-1500:])
    return out["reports"], time.time() - t


def _sum(reports, mode_pred, key):
    return sum(r[key] for r in reports if mode_pred(r["mode"]))


def _examples(reports, mode_pred, key):
    out = []
    for r in reports:
        if mode_pred(r["mode"]):
            for m in r[key]:
                m2 = m + ("   [production stub %s the offending token]" % ("steps over" if r["advance_on_err"] else "stays on"))
                if all(m != x.split("   [production stub")[0] for x in out):
                    out.append(m2)
    out.sort(key=len)
    return out


def run(tier="quick"):
    sel = os.environ.get("ABRA_VERIF_PROP")
    if sel and sel != "C29":
        return [], dict(assumptions=[], trusted_base=[], checker_cmds=[], notes=dict(skipped="ABRA_VERIF_PROP=%s" % sel))
    maxn = int(os.environ.get("U19_MAXN", "16" if tier == "thorough" else "12"))
    maxt = int(os.environ.get("U19_MAXT", "12" if tier == "thorough" else "10"))
    tmo = 1500 if tier == "thorough" else 300
    sc = E.Scratch("u19")
    try:
        t0 = time.time()
        lib, meta = build(maxn, maxt, with_top=True)
        sc.file("Cargo.toml", CARGO)
        sc.file("src/lib.rs", lib)
        sc.file("src/main.rs", MAIN)
        p, exe = native_build(sc.path, tmo)
        top_problem = meta['top_err']
        if p.returncode != 0 and meta['has_top']:
            # the toplevel statement may have drifted out of what the stand-ins S2/S3 cover: retry without it
            first_err = p.stderr[-1500:]
            lib, meta2 = build(maxn, maxt, with_top=False)
            sc.file("src/lib.rs", lib)
            p, exe = native_build(sc.path, tmo)
            if p.returncode == 0:
                top_problem = "the `while !parser.done()` statement of parse_file does not compile against the stand-ins S2/S3 any more:\n" + first_err
                meta['has_top'] = False
                meta['rewrites']['toplevel_loop_sliced'] = False
        if p.returncode != 0:
            raise E.Undecided("u19: native build of the sliced parser failed (drift?):\n" + p.stderr[-3000:])
        build_s = time.time() - t0
        real, real_s = run_exe(exe, [str(maxn), str(maxt)], tmo)
        canary, canary_s = run_exe(exe, [str(min(maxn, 6)), str(min(maxt, 6)), "canary"], tmo)

        is_list = lambda m: m != "toplevel"
        is_top = lambda m: m == "toplevel"
        obs = []
        sha_list = S.sha("\n".join(meta['sl'][k] for k in LIST_KEYS))

        def guard(pred, what, alphabet, n):
            """-> (harness problem or None, vacuity problem or None).  A harness problem makes the obligation
            UNDECIDED whatever was found; a vacuity problem only stops a DISCHARGED verdict (a real parser that
            behaves exactly like the canary's wrong grammar is reported as FAILED by the main comparison)."""
            rs = [r for r in real if pred(r["mode"])]
            if not rs:
                return "no enumeration report for " + what, None
            want_total = sum(alphabet ** k for k in range(n + 1))
            for r in rs:
                if abs(r["covered_strings"] - want_total) > 0.5:
                    return "enumeration (%s) does not cover the domain: %.0f of %d strings" % (r["mode"], r["covered_strings"], want_total), None
                if r["n_inconsistent"]:
                    return "harness self-check (%s): %d generated edits leave the grammar, e.g. %s" % (r["mode"], r["n_inconsistent"], r["inconsistent"][:2]), None
            for r in rs:
                if r["accepted"] == 0 or r["accepted_2plus"] == 0 or r["rejected"] == 0 or r["pairs"] == 0 or r["accepted_maxlen"] == 0:
                    return None, ("vacuity guard (%s): accepted=%d, with >=2 items=%d, accepted of maximal length=%d, rejected=%d, edit pairs=%d must all be > 0"
                                  % (r["mode"], r["accepted"], r["accepted_2plus"], r["accepted_maxlen"], r["rejected"], r["pairs"]))
            for r in canary:
                if pred(r["mode"]) and r["n_grammar"] == 0:
                    return None, "vacuity canary (%s): a grammar without the Newline/`;` separator alternative is not distinguished from the real parser" % r["mode"]
            return None, None

        hprob, vac = guard(is_list, "parse_delimited_list", 7, maxn)
        runs = _sum(real, is_list, "runs")
        bound = ("every token string of length <= %d over the 7-tag alphabet {Ident , ; Newline ) } IntLit} followed by Eof, for (close `)`, sep `,`) and "
                 "(close `}`, sep `;`), each with both variants of the production stub: %d parser runs covering %d strings per configuration (a string is "
                 "not extended when neither the parser nor the reference read a token at or beyond its end); productions reduced to a single Ident "
                 "(stub S1); exhaustive native execution, not symbolic"
                 % (maxn, runs, sum(7 ** k for k in range(maxn + 1))))
        bound_choice = bound + "; edited strings have length <= %d; %d (string, edited string) pairs" % (maxn + 1, _sum(real, is_list, "pairs"))
        for oid, nkey, lkey, text, bnd in (
                ("C29.parse.delimited_list.grammar", "n_grammar", "grammar", TEXT_GRAMMAR, bound),
                ("C29.parse.delimited_list.separator_choice", "n_choice", "choice", TEXT_CHOICE, bound_choice)):
            n_bad = _sum(real, is_list, nkey)
            if hprob:
                st, detail = E.UNDECIDED, hprob
            elif n_bad:
                ex = _examples(real, is_list, lkey)
                st = E.FAILED
                if lkey == "grammar":
                    detail = "%d (token string, configuration) cases differ from the grammar; format `close/sep| tokens | got | expected`; first:\n%s" % (n_bad, "\n".join(ex[:6]))
                else:
                    detail = "%d (string, edited string) pairs parse differently; format `close/sep| A: tokens -> result | B: tokens -> result | edit`; first:\n%s" % (n_bad, "\n".join(ex[:6]))
            elif vac:
                st, detail = E.UNDECIDED, vac
            else:
                st, detail = E.DISCHARGED, ""
            obs.append(E.Obligation(oid, ["C29"], UNIT, "Parser::parse_delimited_list", BACKEND, st, detail, real_s, P, sha_list, bnd, text))

        # ---- toplevel loop of parse_file
        if meta['has_top']:
            hprobt, vact = guard(is_top, "the toplevel loop", 4, maxt)
            n_bad = _sum(real, is_top, "n_grammar") + _sum(real, is_top, "n_choice")
            if hprobt:
                st, detail = E.UNDECIDED, hprobt
            elif n_bad:
                st = E.FAILED
                ex = _examples(real, is_top, "grammar") + _examples(real, is_top, "choice")
                detail = "%d cases; first:\n%s" % (n_bad, "\n".join(ex[:6]))
            elif vact:
                st, detail = E.UNDECIDED, vact
            else:
                st, detail = E.DISCHARGED, ""
            sha_top = S.sha(meta['sl']['parse_file::while'] + meta['sl']['Parser::done'])
            bt = ("every token string of length <= %d over {Ident ; Newline IntLit} followed by Eof (%d strings, no pruning), both variants of the "
                  "item stub; parse_item reduced to a single Ident (stub S2), StaticsContext to its `errors` field (S3); only the `while` statement of "
                  "parse_file is sliced; %d edit pairs; exhaustive native execution, not symbolic"
                  % (maxt, sum(4 ** k for k in range(maxt + 1)), _sum(real, is_top, "pairs")))
        else:
            st, detail, sha_top, bt = E.UNDECIDED, "toplevel loop not sliced: " + (top_problem or "?"), "", "not run"
        obs.append(E.Obligation("C29.parse.toplevel.optional_semicolon", ["C29"], UNIT, "parse_file (item loop)", BACKEND, st, detail, real_s, P,
                                sha_top, bt, TEXT_TOP))

        def brief(r):
            return {k: v for k, v in r.items() if k not in ("grammar", "choice", "inconsistent")}
        info = dict(
            assumptions=[
                "U19/T2: token payload strings are empty; the sliced functions decide on Token::tag() only",
                "U19/S1: the production parser is a stub consuming exactly one Ident (returns its position), Err(UnexpectedToken) otherwise; both the "
                "cursor-stays and the cursor-steps-over variants of the error path are enumerated. Real productions (expressions, statements, types) "
                "that themselves look at Newline tokens are outside this unit",
                "U19/S2: parse_item of the toplevel loop -> skip_newlines + S1",
                "U19/S3: StaticsContext -> struct Ctx { errors }; `items: Vec<Rc<usize>>`; only the `while !parser.done() {..}` statement of parse_file is "
                "sliced (tokenize_file, file_db and FileAst construction are not)",
                "U19: the reference grammars (list := NL* (item (sep NL* item)* sep? NL*)? close; file := NL* (item `;`? NL*)* Eof) are transcribed by hand "
                "into automata in harness.rs (reference_list, reference_top)",
            ],
            trusted_base=["rustc (native release build of the slice)", "tools/slicer.py",
                          "U19/T1: strum EnumDiscriminants/IntoDiscriminant replaced by a generated TokenTag + discriminant(); TokenTag::to_string -> empty String",
                          "U19/T4: statics::Error reduced to UnexpectedToken/ProblematicToken",
                          "U19/T5: Parser.tokens: Vec<Token> -> TokVec (same get(); records the highest index read, used for pruning)",
                          "reference automata and edit generator in units/u19_seplist/harness.rs"],
            checker_cmds=["cargo build --release --offline -j 4 && target/release/u19 <maxn> <maxt> [canary]   "
                          "(crate assembled from parse.rs, ast.rs, parse/lexer.rs by units/u19_seplist)"],
            notes=dict(rewrites=meta['rewrites'], maxn=maxn, maxt=maxt, grammar=GRAMMAR,
                       enumeration=[brief(r) for r in real],
                       accepted_strings=_sum(real, is_list, "accepted"), accepted_with_2plus_items=_sum(real, is_list, "accepted_2plus"),
                       edit_pairs=_sum(real, is_list, "pairs"),
                       canary_mismatches={r["mode"] + ("/advance" if r["advance_on_err"] else "/stay"): r["n_grammar"] for r in canary},
                       toplevel_loop=("sliced" if meta['has_top'] else "NOT sliced: %s" % top_problem),
                       native_build_s=round(build_s, 1), enumerate_s=round(real_s, 1), canary_s=round(canary_s, 1)),
        )
        return obs, info
    finally:
        sc.cleanup()


# ------------------------------------------------------------------ replay on the real CLI

_ANSI = re.compile(r'\x1b\[[0-9;]*m')
_TAGS = r'(?:Ident|Comma|Semicolon|Newline|CloseParen|CloseBrace|IntLit)'


def _tokens(text):
    return [] if text.strip() == "<empty>" else text.split()


def _program(mode, tags, canonical=False):
    """Abra source in which the list `tags` is spelled literally.  Items are 1, 2, 3, ...
    (CloseParen/Comma: arguments of a call; CloseBrace/Semicolon and toplevel: println statements);
    the `other` token IntLit is spelled `]` (neither an item nor a separator in the real grammar)."""
    n_items = 0
    for t in tags:
        if t in ('CloseParen',) and mode.startswith('CloseParen'):
            break
        if t in ('CloseBrace',) and mode.startswith('CloseBrace'):
            break
        if t == 'Ident':
            n_items += 1
    if canonical:
        close = {'CloseParen/Comma': ['CloseParen'], 'CloseBrace/Semicolon': ['CloseBrace'], 'toplevel': []}[mode]
        sep = 'Comma' if mode.startswith('CloseParen') else 'Semicolon'
        tags = []
        for i in range(n_items):
            tags += (['Ident'] if i == 0 else [sep, 'Ident'])
        tags += close
    if mode == 'CloseParen/Comma':
        params = ", ".join("a%d" % i for i in range(1, n_items + 1))
        body = " + ".join("a%d * %d" % (i, 10 ** (i - 1)) for i in range(1, n_items + 1)) or "0"
        head = "fn f(%s) = %s\nprintln(f(" % (params, body)
        spell = {'Comma': ',', 'Semicolon': ';', 'Newline': '\n', 'CloseParen': ')', 'CloseBrace': '}', 'IntLit': ']'}
        item = lambda k: str(k)
        tail = ")\n" if 'CloseParen' in tags else ""
    elif mode == 'CloseBrace/Semicolon':
        head = "fn g() {"
        spell = {'Comma': ',', 'Semicolon': ';', 'Newline': '\n', 'CloseParen': ')', 'CloseBrace': '}', 'IntLit': ']'}
        item = lambda k: "println(%d)" % k
        tail = "\ng()\n" if 'CloseBrace' in tags else ""
    else:
        head = ""
        spell = {'Semicolon': ';', 'Newline': '\n', 'IntLit': ']'}
        item = lambda k: "println(%d)" % k
        tail = ""
    out, k = [], 0
    for t in tags:
        if t == 'Ident':
            k += 1
            out.append(item(k))
        else:
            out.append(spell[t])
    return head + " ".join(out).replace(" \n ", "\n").replace("\n ", "\n").replace(" \n", "\n") + tail


def _cli(src):
    out, err, rc = abra_cli.run_program(src)
    msg = _ANSI.sub('', err).strip()
    first = ""
    for line in msg.split("\n"):
        if 'Found' in line or 'error' in line:
            first = (first + " " + line.strip(" │-")).strip()
            if 'Found' in line:
                break
    return dict(stdout=out, rc=rc, error=first[:200])


def replay(ob):
    """Spell the failing token string(s) as an Abra program and run it on the real CLI.
    grammar: the string as reported vs. the all-separators spelling of the same items (grammar accepts) /
             vs. 'must be a parse error' (grammar rejects).
    separator_choice: the two token strings A and B.  True only if the CLI shows the difference; else None."""
    detail = ob.detail or ""
    tried = []
    for line in detail.split("\n"):
        line = line.split("   [production stub")[0]
        m = re.match(r'^(CloseParen/Comma|CloseBrace/Semicolon|toplevel)\| (.*)$', line)
        if not m:
            continue
        mode, rest = m.group(1), m.group(2)
        parts = [p.strip() for p in rest.split(" | ")]
        if parts[0].startswith("A: "):
            a = _tokens(parts[0][3:].split(" -> ")[0])
            b = _tokens(parts[1][3:].split(" -> ")[0])
            pa, pb = _program(mode, a), _program(mode, b)
            ra, rb = _cli(pa), _cli(pb)
            rec = dict(kind="separator_choice", mode=mode, tokens_A=a, tokens_B=b, program_A=pa, program_B=pb, cli_A=ra, cli_B=rb)
            differ = (ra['rc'] == 0) != (rb['rc'] == 0) or (ra['rc'] == 0 and ra['stdout'] != rb['stdout'])
        else:
            a = _tokens(parts[0])
            expected_accept = any(p.startswith("expected accepted") for p in parts)
            pa = _program(mode, a)
            ra = _cli(pa)
            rec = dict(kind="grammar", mode=mode, tokens=a, program=pa, cli=ra, grammar_accepts=expected_accept)
            if expected_accept:
                pc = _program(mode, a, canonical=True)
                rc_ = _cli(pc)
                rec.update(program_all_separators=pc, cli_all_separators=rc_)
                differ = rc_['rc'] == 0 and (ra['rc'] != 0 or ra['stdout'] != rc_['stdout'])
            else:
                differ = ra['rc'] == 0
        tried.append(rec)
        if differ:
            ob.cex = dict(mode=mode, tokens=a)
            return True, dict(failing_input=rec, tried=len(tried))
        if len(tried) >= 8:
            break
    if not tried:
        return None, dict(note="no token string in the obligation's detail")
    return None, dict(note="the real CLI shows no difference for the %d reported token strings (spelled with single-token items)" % len(tried),
                      tried=tried[:4])
