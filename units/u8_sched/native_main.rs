// driver of the native-exhaustive back end: one JSON line per harness
use std::time::Instant;

fn esc(s: &str) -> String {
    let mut o = String::new();
    for c in s.chars() {
        match c {
            '"' => o.push_str("\\\""),
            '\\' => o.push_str("\\\\"),
            '\n' => o.push_str("\\n"),
            c if (c as u32) < 0x20 => o.push(' '),
            c => o.push(c),
        }
    }
    o
}

fn main() {
    let args: Vec<String> = std::env::args().skip(1).collect();
    let max_runs: u64 = std::env::var("U8_MAX_RUNS").ok().and_then(|s| s.parse().ok()).unwrap_or(200_000_000);
    let maxk: u8 = std::env::var("U8_MAXK").ok().and_then(|s| s.parse().ok()).unwrap_or(4);
    let spawns: u8 = std::env::var("U8_SPAWNS").ok().and_then(|s| s.parse().ok()).unwrap_or(1);
    u8n::vm::u8_native_configure(maxk, spawns);
    let table = u8n::vm::u8_native_table();
    for name in &args {
        let Some((_, f)) = table.iter().find(|(n, _)| n == name) else {
            println!("{{\"harness\":\"{}\",\"error\":\"unknown harness\"}}", esc(name));
            continue;
        };
        let t0 = Instant::now();
        let f = *f;
        let rep = u8n::kani::explore(&move || f(), 3, max_runs);
        let mut fails = String::new();
        for (i, (msg, trail)) in rep.failures.iter().enumerate() {
            if i > 0 {
                fails.push(',');
            }
            let tr: Vec<String> = trail.iter().map(|(v, d)| format!("[{},{}]", v, d)).collect();
            fails.push_str(&format!("{{\"msg\":\"{}\",\"choices\":[{}]}}", esc(msg), tr.join(",")));
        }
        let mut covers = String::new();
        for (i, (k, v)) in rep.covers.iter().enumerate() {
            if i > 0 {
                covers.push(',');
            }
            covers.push_str(&format!("[\"{}\",{}]", esc(k), v));
        }
        println!(
            "{{\"harness\":\"{}\",\"runs\":{},\"discarded\":{},\"max_choices\":{},\"truncated\":{},\"time_s\":{:.3},\"failures\":[{}],\"covers\":[{}]}}",
            esc(name), rep.runs, rep.discarded, rep.max_choices, rep.truncated, t0.elapsed().as_secs_f64(), fails, covers
        );
    }
}
