//! Native build: the REAL std types (nothing is modelled), plus the two items vm.rs
//! imports from translate_bytecode.
#![allow(dead_code)]
pub use std::collections::VecDeque;
pub use std::sync::mpsc::{Receiver, Sender};
pub use std::sync::{Arc, Mutex, mpsc};

pub type BytecodeIndex = u32;

#[derive(Debug, Clone)]
pub struct CompiledProgram {
    pub(crate) instructions: Vec<crate::vm::Instr>,
    pub(crate) int_constants: Vec<i64>,
    pub(crate) float_constants: Vec<f64>,
    pub(crate) static_strings: Vec<String>,
    pub(crate) filename_arena: Vec<String>,
    pub(crate) function_name_arena: Vec<String>,
    pub(crate) filename_table: Vec<(BytecodeIndex, u32)>,
    pub(crate) lineno_table: Vec<(BytecodeIndex, u32)>,
    pub(crate) function_name_table: Vec<(BytecodeIndex, u32)>,
}
