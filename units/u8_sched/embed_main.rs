// tiny embedder on the REAL abra_core (real step()): drives Runtime::run_n_steps with budget sequences and
// service delays; differential check of C10 (slicing independence) and C11 (budget, Done, top, error kind).
// Used by units/u8_sched replay(); hostgen.rs is the host-binding module abra_cli's build.rs generates.
use abra_core::vm::{Runtime, RuntimeStatusKind};
use abra_core::{MockFileProvider, compile_bytecode};
mod hostgen;
use hostgen::*;

#[derive(Debug, PartialEq, Clone)]
struct Outcome {
    out: String,
    status: String,
    total_steps: u64,
    calls: u64,
    budget_violations: u64,
    top_int: Option<i64>,
}

fn service(rt: &mut Runtime, out: &mut String) {
    for thread in rt.iter_threads_mut() {
        if let Some(p) = thread.get_pending_host_func() {
            match HostFunctionArgs::from_vm(&mut *thread, p) {
                HostFunctionArgs::PrintString(s) => {
                    out.push_str(&s);
                    HostFunctionRet::PrintString.into_vm(&mut *thread);
                }
                HostFunctionArgs::EprintString(s) => {
                    out.push_str(&s);
                    HostFunctionRet::EprintString.into_vm(&mut *thread);
                }
                HostFunctionArgs::Readline => HostFunctionRet::Readline("x".into()).into_vm(&mut *thread),
                HostFunctionArgs::GetArgs => HostFunctionRet::GetArgs(vec![]).into_vm(&mut *thread),
            }
        }
    }
}

/// run with the cyclic budget sequence; `delay`: number of extra run_n_steps calls made
/// before a pending host call is serviced (C10: delays in servicing host calls)
fn run(src: &str, budgets: &[u32], delay: u32, want_top: bool, max_calls: u64) -> Outcome {
    let program = compile_bytecode("main.abra", MockFileProvider::single_file(src)).map_err(|_| "compile error").unwrap();
    let mut rt = Runtime::new(program);
    let mut o = Outcome { out: String::new(), status: String::new(), total_steps: 0, calls: 0, budget_violations: 0, top_int: None };
    let mut i = 0usize;
    loop {
        let k = budgets[i % budgets.len()];
        i += 1;
        let st = rt.run_n_steps(k);
        o.calls += 1;
        o.total_steps += st.steps_consumed as u64;
        if st.steps_consumed > k {
            o.budget_violations += 1;
        }
        match &st.kind {
            RuntimeStatusKind::Done => {
                o.status = "Done".into();
                if want_top {
                    o.top_int = Some(rt.top().get_int(rt.main()));
                }
                break;
            }
            RuntimeStatusKind::MainThreadError(e) => {
                o.status = format!("MainThreadError:{}", e);
                break;
            }
            RuntimeStatusKind::PendingHostFunc => {
                for _ in 0..delay {
                    let st = rt.run_n_steps(k);
                    o.calls += 1;
                    o.total_steps += st.steps_consumed as u64;
                }
                service(&mut rt, &mut o.out);
            }
            RuntimeStatusKind::OutOfSteps => {}
        }
        if o.calls > max_calls {
            o.status = "GAVE_UP".into();
            break;
        }
    }
    o
}

fn main() {
    let no_task_programs: Vec<(&str, &str, bool)> = vec![
        ("arith", "var s = 0\nvar i = 0\nwhile i < 50 {\n  s = s + i * i\n  i = i + 1\n}\ns\n", true),
        ("print", "var i = 0\nwhile i < 5 {\n  println(\"line \" .. \"x\" .. \"yz\")\n  i = i + 1\n}\nprintln(\"abc\" == \"abd\")\n7\n", true),
        ("error", "println(\"before\")\nlet a = [1, 2, 3]\nvar i = 0\nwhile i < 10 {\n  println(a[i])\n  i = i + 1\n}\n", false),
        ("divzero", "let z = 0\nprintln(\"x\")\nprintln(10 / z)\n", false),
        ("panic", "println(\"a\")\npanic(\"boom\")\n", false),
    ];
    let mut all_ok = true;
    let mut total_bad = 0;
    let mut total_checked = 0;
    for (name, src, want_top) in &no_task_programs {
        let reference = run(src, &[1_000_000], 0, *want_top, 1_000_000);
        let mut seqs: Vec<Vec<u32>> = (1..=9u32).map(|k| vec![k]).collect();
        seqs.push(vec![1, 2]);
        seqs.push(vec![3, 1, 7]);
        seqs.push(vec![0, 5]);
        seqs.push(vec![100]);
        let mut bad = 0;
        let mut checked = 0;
        for b in &seqs {
            for delay in [0u32, 1, 3] {
                let o = run(src, b, delay, *want_top, 10_000_000);
                checked += 1;
                if o.out != reference.out || o.status != reference.status || o.total_steps != reference.total_steps || o.top_int != reference.top_int || o.budget_violations != 0 {
                    bad += 1;
                    println!("C10/C11 MISMATCH {} budgets {:?} delay {}: {:?} vs {:?}", name, b, delay, o, reference);
                }
            }
        }
        println!("program {:8} status={:?} steps={} top={:?} slicings checked={} mismatches={}", name, reference.status.lines().next().unwrap_or(""), reference.total_steps, reference.top_int, checked, bad);
        all_ok &= bad == 0;
        total_bad += bad;
        total_checked += checked;
    }
    println!("NO_TASK_SLICING_INDEPENDENT={}", all_ok);

    // behaviour after Done with a task still runnable
    let src = "task {\n  var i = 0\n  while i < 1000 { i = i + 1 }\n  println(\"task done\")\n}\n5\n";
    let program = compile_bytecode("main.abra", MockFileProvider::single_file(src)).map_err(|_| "compile error").unwrap();
    let mut rt = Runtime::new(program);
    let mut first_done_steps = None;
    for _ in 0..100 {
        let st = rt.run_n_steps(10);
        if st.is_done() {
            first_done_steps = Some(st.steps_consumed);
            break;
        }
    }
    let again = rt.run_n_steps(10);
    println!(
        "AFTER_DONE first Done steps_consumed={:?}; next run_n_steps(10): kind={:?} steps_consumed={} top={}",
        first_done_steps, again.kind, again.steps_consumed, rt.top().get_int(rt.main())
    );

    // a task errors: what does the embedder see?
    let src = "task {\n  let a = [1]\n  println(a[4])\n}\nvar i = 0\nwhile i < 200 { i = i + 1 }\n9\n";
    let o = run(src, &[10], 0, true, 100_000);
    println!("TASK_ERROR main result: {:?}", o);
    let src = "let c: channel<int> = channel()\ntask {\n  let a = [1]\n  c.write(a[4])\n}\nc.read()\n";
    let o = run(src, &[10], 0, true, 2_000);
    println!("TASK_ERROR main waits: status={} calls={} steps={}", o.status, o.calls, o.total_steps);
    println!("RESULT {{\"slicings_checked\":{},\"mismatches\":{},\"after_done_kind_is_done\":{},\"after_done_steps\":{}}}", total_checked, total_bad, again.is_done(), again.steps_consumed);
}
