// U8: the embedder-facing scheduler `Runtime::{run_n_steps, run_threads_round_robin,
// finish_thread_turn, drain_new_threads, update_status_helper, try_get_main, main, top}` and
// `VmGreenThread::{run_n_steps, validate, can_run, status, top, clear_pending_host_func,
// maybe_gc}` -- REAL text of vm.rs -- driven over a contract-only nondeterministic `step()`.
//
// REPRESENTATION INVARIANT RI(rt) assumed for the initial state and PROVED to be
// established by Runtime::new and preserved by run_n_steps (obligation C11.sched.invariant):
//   RI1  exactly one thread with `is_main` exists, either in `run_queue` or as
//        `finished_main_thread` (never both); without the `ffi` feature the `new_threads`
//        channel only ever carries non-main threads and is empty between calls
//   RI2  finished_main_thread = Some(t)  =>  t.is_main && t.done && no pending host call && no error
//   RI3  every t in run_queue: !t.done  (finish_thread_turn never re-queues a done thread,
//        Runtime::new queues a fresh one), and at most one of
//        {t.pending_host_func.is_some(), t.error.is_some()} holds, t.pending_ffi_call == None
//        (every arm that sets a flag returns false immediately, and `can_run` refuses a
//        thread with any flag set; CallForeign is `fail()` without the ffi feature)
//   RI4  heaps are empty (maybe_gc is neutral) -- abstraction of this unit, GC is unit u6
//   RI5  every thread's `new_threads_sender` feeds rt.new_threads
// Bounds: run_queue length 0..=3 at entry (one harness per length), budget <= 4, at most
// one SpawnTask per run (so <= 4 queued threads).

#[cfg(not(kani))]
fn u8_step(_t: &mut VmGreenThread) -> bool {
    unreachable!()
}

/// ghost state of the step stub
#[cfg(kani)]
pub(crate) struct U8Ghost {
    steps: u32,               // number of step() calls on any thread
    step_while_blocked: bool, // step() entered on a thread that is pending/errored/done
    main_stopped: bool,       // the main thread executed Stop
    main_top_set: bool,       // main's stack was non-empty when it executed Stop
    main_top: Value,          // ... and this was its last slot
    allow_spawn: bool,
    spawns_left: u8,
    stack_ops: bool,
    script_on: bool,
    script: [u8; 8],
}
#[cfg(kani)]
pub(crate) static mut U8G: U8Ghost = U8Ghost {
    steps: 0,
    step_while_blocked: false,
    main_stopped: false,
    main_top_set: false,
    main_top: Value(0, ValueTag::Int),
    allow_spawn: true,
    spawns_left: 1,
    stack_ops: false,
    script_on: false,
    script: [0; 8],
};

#[cfg(kani)]
pub(crate) fn u8_mk_err(kc: u8) -> Box<VmError> {
    let kind = match kc & 3 {
        0 => VmErrorKind::ArrayOutOfBounds,
        1 => VmErrorKind::Panic(String::new()),
        2 => VmErrorKind::IntegerOverflowUnderflow,
        _ => VmErrorKind::DivisionByZero,
    };
    Box::new(VmError {
        kind,
        location: VmErrorLocation { filename: "", lineno: 0, function_name: "" },
        trace: vec![],
    })
}

/// THE STEP CONTRACT (assumption of this unit).  Per-thread ghost step counter: `pc.0`.
/// byte b: low 3 bits = outcome, bits 3..4 = error kind / stack sub-op.
#[cfg(kani)]
fn u8_step(t: &mut VmGreenThread) -> bool {
    unsafe {
        U8G.steps += 1;
        if t.pending_host_func.is_some() || t.error.is_some() || t.done || t.pending_ffi_call.is_some() {
            U8G.step_while_blocked = true;
        }
    }
    let idx = t.pc.0;
    t.pc.0 = idx + 1;
    let scripted = unsafe { U8G.script_on };
    let b: u8 = if scripted { unsafe { U8G.script[(idx as usize) & 7] } } else { kani::any() };
    match b & 7 {
        1 => {
            // like Instr::Stop
            t.done = true;
            if t.is_main {
                unsafe {
                    U8G.main_stopped = true;
                    match t.value_stack.last() {
                        Some(v) => {
                            U8G.main_top_set = true;
                            U8G.main_top = *v;
                        }
                        None => U8G.main_top_set = false,
                    }
                }
            }
            false
        }
        2 => {
            // like every erroring arm: self.error = Some(make_error(kind)); return false
            t.error = Some(u8_mk_err(b >> 3));
            false
        }
        3 => {
            // like Instr::HostFunc(eff)
            let eff: u16 = if scripted { b as u16 } else { kani::any() };
            t.pending_host_func = Some(eff);
            false
        }
        4 => {
            // like Instr::SpawnTask: a fresh thread goes through new_threads_sender
            let ok = unsafe { U8G.allow_spawn && U8G.spawns_left > 0 };
            if ok {
                unsafe { U8G.spawns_left -= 1 };
                let nt = VmGreenThread::new(t.shared.clone(), t.new_threads_sender.clone());
                t.new_threads_sender.send(Box::new(nt)).unwrap();
            }
            true
        }
        5 => {
            // ordinary instruction with a stack effect
            if unsafe { U8G.stack_ops } {
                let v = if scripted { Value(b as u64, ValueTag::Int) } else { hs::any_scalar() };
                let n = t.value_stack.len();
                match (b >> 3) & 3 {
                    0 => {
                        if n > 0 {
                            t.value_stack[n - 1] = v;
                        }
                    }
                    1 => {
                        if n < 3 {
                            t.value_stack.push(v);
                        }
                    }
                    _ => {
                        if n > 0 {
                            t.value_stack.pop();
                        }
                    }
                }
            }
            true
        }
        _ => true, // ordinary instruction, no effect the scheduler can see
    }
}

#[cfg(kani)]
mod u8s {
    use super::hs::*;
    use super::*;

    const MAXK: u32 = 4;

    fn kind_code(k: &VmErrorKind) -> u8 {
        match k {
            VmErrorKind::ArrayOutOfBounds => 0,
            VmErrorKind::Panic(_) => 1,
            VmErrorKind::IntegerOverflowUnderflow => 2,
            VmErrorKind::DivisionByZero => 3,
            _ => 9,
        }
    }
    /// 0 Done, 1 PendingHostFunc, 2 OutOfSteps, 10+kind MainThreadError(kind)
    fn status_code(k: &RuntimeStatusKind) -> u8 {
        match k {
            RuntimeStatusKind::Done => 0,
            RuntimeStatusKind::PendingHostFunc => 1,
            RuntimeStatusKind::OutOfSteps => 2,
            RuntimeStatusKind::MainThreadError(e) => 10 + kind_code(&e.kind),
        }
    }
    fn thread_err_code(t: &VmGreenThread) -> Option<u8> {
        match &t.error {
            None => None,
            Some(e) => Some(kind_code(&e.kind)),
        }
    }

    fn mkbox(shared: &Arc<VmSharedReadonly>, tx: &Sender<Box<VmGreenThread>>) -> Box<VmGreenThread> {
        Box::new(VmGreenThread::new(shared.clone(), tx.clone()))
    }
    /// RI3: runnable | pending host call | errored
    fn any_queue_state(t: &mut VmGreenThread) {
        let s: u8 = kani::any();
        kani::assume(s < 3);
        if s == 1 {
            t.pending_host_func = Some(kani::any());
        } else if s == 2 {
            t.error = Some(u8_mk_err(kani::any()));
        }
    }

    pub struct Scen {
        pub rt: Runtime,
        pub mf: bool, // main already finished (Done was reported earlier)
        pub main_id: u64,
        pub tx: Sender<Box<VmGreenThread>>,
    }

    /// Any Runtime satisfying RI with `nq` queued threads (concrete), main at a symbolic
    /// position or already finished; `stack1`: main's stack holds one symbolic value.
    pub fn any_runtime(nq: usize, stack1: bool) -> Scen {
        let shared = mk_shared(vec![], vec![]);
        let (tx, rx) = mpsc::channel();
        let mf: bool = kani::any();
        let p: usize = kani::any();
        if nq == 0 {
            kani::assume(mf);
        }
        if !mf {
            kani::assume(p < nq);
        }
        let mut main_id = 0;
        let mut mk = |i: usize| {
            let mut t = mkbox(&shared, &tx);
            t.is_main = !mf && p == i;
            if t.is_main {
                main_id = t.id;
                if stack1 {
                    t.value_stack.push(any_scalar());
                }
            }
            any_queue_state(&mut t);
            t
        };
        let q = match nq {
            0 => VecDeque::new(),
            1 => VecDeque::from([mk(0)]),
            2 => VecDeque::from([mk(0), mk(1)]),
            _ => VecDeque::from([mk(0), mk(1), mk(2)]),
        };
        let fin = if mf {
            let mut f = mkbox(&shared, &tx);
            f.is_main = true;
            f.done = true;
            main_id = f.id;
            if stack1 {
                let v = any_scalar();
                f.value_stack.push(v);
                unsafe {
                    U8G.main_top_set = true;
                    U8G.main_top = v;
                }
            }
            Some(f)
        } else {
            None
        };
        std::mem::forget(shared);
        Scen { rt: Runtime { run_queue: q, new_threads: rx, finished_main_thread: fin }, mf, main_id, tx }
    }

    /// the main thread, found WITHOUT the code under test
    fn main_of(rt: &Runtime) -> Option<&VmGreenThread> {
        let mut found: Option<&VmGreenThread> = None;
        let mut i = 0;
        while i < rt.run_queue.len() {
            if rt.run_queue.get(i).unwrap().is_main {
                found = Some(rt.run_queue.get(i).unwrap());
            }
            i += 1;
        }
        match (&found, &rt.finished_main_thread) {
            (None, Some(f)) => Some(f),
            _ => found,
        }
    }
    fn count_main_in_queue(rt: &Runtime) -> usize {
        let mut n = 0;
        let mut i = 0;
        while i < rt.run_queue.len() {
            if rt.run_queue.get(i).unwrap().is_main {
                n += 1;
            }
            i += 1;
        }
        n
    }
    fn any_queue_pending(rt: &Runtime) -> bool {
        let mut r = false;
        let mut i = 0;
        while i < rt.run_queue.len() {
            if rt.run_queue.get(i).unwrap().pending_host_func.is_some() {
                r = true;
            }
            i += 1;
        }
        r
    }
    fn any_queue_runnable(rt: &Runtime) -> bool {
        let mut r = false;
        let mut i = 0;
        while i < rt.run_queue.len() {
            let t = rt.run_queue.get(i).unwrap();
            if t.pending_host_func.is_none() && t.error.is_none() && !t.done && t.pending_ffi_call.is_none() {
                r = true;
            }
            i += 1;
        }
        r
    }
    fn any_nonmain_error(rt: &Runtime) -> bool {
        let mut r = false;
        let mut i = 0;
        while i < rt.run_queue.len() {
            let t = rt.run_queue.get(i).unwrap();
            if !t.is_main && t.error.is_some() {
                r = true;
            }
            i += 1;
        }
        r
    }
    /// RI1..RI3 (+ channel drained) as an executable predicate
    pub fn ri_holds(rt: &Runtime) -> bool {
        let nm = count_main_in_queue(rt);
        let mut ok = true;
        match &rt.finished_main_thread {
            Some(f) => {
                ok = ok && nm == 0 && f.is_main && f.done && f.pending_host_func.is_none() && f.error.is_none();
            }
            None => {
                ok = ok && nm == 1;
            }
        }
        let mut i = 0;
        while i < rt.run_queue.len() {
            let t = rt.run_queue.get(i).unwrap();
            ok = ok && !t.done && t.pending_ffi_call.is_none() && !(t.pending_host_func.is_some() && t.error.is_some());
            i += 1;
        }
        ok && rt.new_threads.in_flight() == 0
    }

    const BUDGET: u8 = 0;
    const DONE_IFF: u8 = 1;
    const ERR: u8 = 2;
    const PENDING: u8 = 3;
    const STARVE: u8 = 4;
    const NOPANIC: u8 = 5;
    const INV: u8 = 6;
    const ALL: u8 = 99;

    /// one call of run_n_steps(k) from any RI state; `c` selects the clause asserted
    fn scenario(nq: usize, c: u8) {
        let mut s = any_runtime(nq, false);
        let k: u32 = kani::any();
        kani::assume(k <= MAXK);
        let st = s.rt.run_n_steps(k);
        let code = status_code(&st.kind);
        let steps = unsafe { U8G.steps };
        let stopped = unsafe { U8G.main_stopped };
        let m = main_of(&s.rt);
        assert!(m.is_some()); // harness sanity
        let m = m.unwrap();

        if c == BUDGET || c == ALL {
            assert!(st.steps_consumed <= k, "C11 budget: steps_consumed <= k");
            assert!(st.steps_consumed == steps, "C11 budget: steps_consumed == number of step() calls made");
            assert!(!unsafe { U8G.step_while_blocked }, "no instruction is executed on a pending/errored/done thread");
            kani::cover!(st.steps_consumed == MAXK, "full budget used");
            kani::cover!(st.steps_consumed < k && code == 0, "Done before the budget is used up");
        }
        if c == DONE_IFF || c == ALL {
            assert!((code == 0) == (s.mf || stopped), "C11: Done <=> the main thread has executed Stop");
            if stopped {
                let f = s.rt.finished_main_thread.as_ref();
                assert!(f.is_some() && f.unwrap().id == s.main_id && f.unwrap().done, "the stopped main thread is kept as finished_main_thread");
                assert!(count_main_in_queue(&s.rt) == 0, "... and is no longer queued");
            }
            kani::cover!(code == 0 && any_queue_runnable(&s.rt), "Done while another task is runnable");
            kani::cover!(code == 0 && any_queue_pending(&s.rt), "Done while another task waits for the host");
            kani::cover!(s.mf && st.steps_consumed > 0, "BEHAVIOUR: after Done, a further run_n_steps executes other tasks' instructions");
            kani::cover!(s.mf && st.steps_consumed == 0 && k > 0, "after Done, nothing runnable: executes nothing");
        }
        if c == ERR || c == ALL {
            match thread_err_code(m) {
                Some(kc) => {
                    assert!(code == 10 + kc, "C11: main error => MainThreadError carrying that kind");
                    assert!(code != 0 && code != 2 && code != 1, "C11: main error is never Done / OutOfSteps / PendingHostFunc");
                }
                None => assert!(code < 10, "MainThreadError only when the main thread has an error"),
            }
            kani::cover!(code >= 10, "main error reachable");
            kani::cover!(any_nonmain_error(&s.rt) && code == 2, "BEHAVIOUR: an error of a non-main task is not reported (OutOfSteps)");
            kani::cover!(any_nonmain_error(&s.rt) && code == 0, "BEHAVIOUR: an error of a non-main task is not reported (Done)");
        }
        if c == PENDING || c == ALL {
            // precedence implemented: main done > main pending > main error > any queued thread pending > OutOfSteps
            let want = if m.done {
                0
            } else if m.pending_host_func.is_some() {
                1
            } else if let Some(kc) = thread_err_code(m) {
                10 + kc
            } else if any_queue_pending(&s.rt) {
                1
            } else {
                2
            };
            assert!(code == want, "C11: status precedence");
            if m.pending_host_func.is_some() {
                assert!(code == 1 && !m.done && m.error.is_none(), "main pending => PendingHostFunc (pending excludes done/error)");
            }
            if code == 1 {
                assert!(any_queue_pending(&s.rt), "PendingHostFunc => some queued thread (reachable through iter_threads_mut) has a pending host call");
            }
            kani::cover!(code == 1 && m.pending_host_func.is_none(), "PendingHostFunc because of a non-main task");
            kani::cover!(code >= 10 && any_queue_pending(&s.rt), "main error wins over another task's pending host call");
        }
        if c == STARVE || c == ALL {
            if code != 0 && st.steps_consumed < k {
                assert!(!any_queue_runnable(&s.rt), "budget left over only when no queued thread can run");
            }
            if code == 2 {
                assert!(st.steps_consumed == k, "OutOfSteps => the whole budget was used");
            }
            kani::cover!(code == 1 && st.steps_consumed == 0 && k > 0, "everything blocked: loop exits at once");
        }
        if c == INV || c == ALL {
            assert!(ri_holds(&s.rt), "RI is preserved by run_n_steps");
            kani::cover!(s.rt.run_queue.len() > nq, "spawned thread queued");
            kani::cover!(s.rt.run_queue.len() < nq, "finished thread removed");
        }
        if c == NOPANIC {
            // oracle = Kani's own panic checks on validate() / main().unwrap() / top()
            let _ = s.rt.main();
            kani::cover!(true, "reachable");
        }
        std::mem::forget(st);
        std::mem::forget(s);
    }

    macro_rules! per_len {
        ($c:expr, $u:expr, $h0:ident, $h1:ident, $h2:ident, $h3:ident) => {
            #[kani::proof]
            #[kani::unwind($u)]
            fn $h0() { scenario(0, $c) }
            #[kani::proof]
            #[kani::unwind($u)]
            fn $h1() { scenario(1, $c) }
            #[kani::proof]
            #[kani::unwind($u)]
            fn $h2() { scenario(2, $c) }
            #[kani::proof]
            #[kani::unwind($u)]
            fn $h3() { scenario(3, $c) }
        };
    }
    per_len!(ALL, 26, all_0, all_1, all_2, all_3);
}
