// U8: the embedder-facing scheduler `Runtime::{new, run_n_steps, run_threads_round_robin,
// finish_thread_turn, drain_new_threads, update_status_helper, try_get_main, main, top,
// iter_threads_mut}` and `VmGreenThread::{run_n_steps, validate, can_run, status, top,
// clear_pending_host_func, maybe_gc}` -- REAL text of vm.rs -- driven over a contract-only
// nondeterministic `step()` (u8_step below).
//
// Two back ends execute THIS file:
//   * native-exhaustive (cfg u8_native): vm.rs compiled natively with the REAL std
//     VecDeque/mpsc/Arc/Mutex, real maybe_gc, real Drop; `kani::choose` enumerates every
//     choice sequence (native_kani.rs).  Used for every obligation.
//   * kani/cbmc: only the harnesses that do not enter the scheduler loop (CBMC needs
//     70 s for THREE iterations of a ONE-thread queue: Box<VmGreenThread> inside a queue).
//
// REPRESENTATION INVARIANT RI(rt), assumed for initial states, PROVED to hold after
// Runtime::new and to be preserved by run_n_steps (obligation C11.sched.invariant):
//   RI1  exactly one thread with `is_main` exists, either in `run_queue` or as
//        `finished_main_thread` (never both); the `new_threads` channel is empty between
//        calls and (feature ffi off) only ever carries non-main threads
//   RI2  finished_main_thread = Some(t) => t.is_main && t.done && no pending host call && no error
//   RI3  every t in run_queue: !t.done (finish_thread_turn never re-queues a done thread,
//        Runtime::new queues a fresh one); at most one of {pending_host_func.is_some(),
//        error.is_some()} (every arm that sets a flag returns false at once and `can_run`
//        refuses a thread with a flag set); pending_ffi_call == None (feature ffi off)
//   RI4  heaps are empty (GC is unit u6's subject)
//   RI5  every thread's `new_threads_sender` feeds rt.new_threads
// Bounds: run_queue length 0..=3 at entry, budget <= 4, at most one SpawnTask per run.

#[cfg(not(kani))]
fn u8_step(_t: &mut VmGreenThread) -> bool {
    unreachable!()
}

// ---------------------------------------------------------------- back-end glue
/// control choice in 0..n (exhaustive in both back ends)
#[cfg(all(kani, not(u8_native)))]
pub(crate) fn u8_pick(n: u8) -> u8 {
    let x: u8 = kani::any();
    kani::assume(x < n);
    x
}
#[cfg(u8_native)]
pub(crate) fn u8_pick(n: u8) -> u8 {
    kani::choose(n as u32) as u8
}
/// error kind 0..4; natively only enumerated where some observer can see it (main thread)
#[cfg(all(kani, not(u8_native)))]
pub(crate) fn u8_kind(_relevant: bool) -> u8 {
    u8_pick(4)
}
#[cfg(u8_native)]
pub(crate) fn u8_kind(relevant: bool) -> u8 {
    if relevant { u8_pick(4) } else { 0 }
}
/// host function id: data the scheduler never inspects (kani: any u16; native: {0, 65535})
#[cfg(kani)]
pub(crate) fn u8_eff() -> u16 {
    kani::any()
}
/// a stack value: data (kani: any scalar; native: three representatives)
#[cfg(all(kani, not(u8_native)))]
pub(crate) fn u8_value() -> Value {
    hs::any_scalar()
}
#[cfg(u8_native)]
pub(crate) fn u8_value() -> Value {
    match kani::choose(3) {
        0 => Value(0, ValueTag::Int),
        1 => Value(0x7fff_ffff_ffff_ffff, ValueTag::Int),
        _ => Value(1, ValueTag::Bool),
    }
}
#[cfg(all(kani, not(u8_native)))]
pub(crate) fn u8_forget<T>(x: T) {
    std::mem::forget(x) // keep drop glue out of the CBMC query
}
#[cfg(u8_native)]
pub(crate) fn u8_forget<T>(x: T) {
    drop(x) // native: run the real Drop impls
}
#[cfg(all(kani, not(u8_native)))]
pub(crate) fn u8_empty_loc() -> VmErrorLocation {
    VmErrorLocation { filename: "", lineno: 0, function_name: "" }
}
#[cfg(u8_native)]
pub(crate) fn u8_empty_loc() -> VmErrorLocation {
    VmErrorLocation { filename: String::new(), lineno: 0, function_name: String::new() }
}

/// ghost state of the step stub
#[cfg(kani)]
pub(crate) struct U8Ghost {
    steps: u32,               // number of step() calls on any thread
    step_while_blocked: bool, // step() entered on a thread that is pending/errored/done
    steps_after_main_stop: u32, // step() calls made after the main thread executed Stop
    main_stopped: bool,       // the main thread executed Stop
    main_top_set: bool,       // main's stack was non-empty when it executed Stop
    main_top: Value,          // ... and this was its last slot
    allow_spawn: bool,
    spawns_left: u8,
    stack_ops: bool,
    script_on: bool,
    script: [u8; 8],
}
#[cfg(kani)]
const U8G0: U8Ghost = U8Ghost {
    steps: 0,
    step_while_blocked: false,
    steps_after_main_stop: 0,
    main_stopped: false,
    main_top_set: false,
    main_top: Value(0, ValueTag::Int),
    allow_spawn: true,
    spawns_left: 1,
    stack_ops: false,
    script_on: false,
    script: [0; 8],
};
#[cfg(kani)]
pub(crate) static mut U8G: U8Ghost = U8G0;
#[cfg(kani)]
pub(crate) fn u8_reset() {
    unsafe { U8G = U8G0 };
    #[cfg(u8_native)]
    unsafe {
        U8G.spawns_left = U8_NATIVE_SPAWNS;
    }
}
// bounds: fixed under Kani (budget <= 4, <= 1 spawn); the native driver may raise them (thorough tier)
#[cfg(u8_native)]
static mut U8_NATIVE_MAXK: u8 = 4;
#[cfg(u8_native)]
static mut U8_NATIVE_SPAWNS: u8 = 1;
#[cfg(u8_native)]
pub fn u8_native_configure(maxk: u8, spawns: u8) {
    assert!(maxk <= 8);
    unsafe {
        U8_NATIVE_MAXK = maxk;
        U8_NATIVE_SPAWNS = spawns;
    }
}
#[cfg(u8_native)]
pub(crate) fn u8_maxk() -> u8 {
    unsafe { U8_NATIVE_MAXK }
}
#[cfg(all(kani, not(u8_native)))]
pub(crate) fn u8_maxk() -> u8 {
    4
}
#[cfg(kani)]
pub(crate) fn u8_arm_script(script: [u8; 8]) {
    unsafe {
        U8G.script_on = true;
        U8G.script = script;
        U8G.allow_spawn = false;
        U8G.stack_ops = true;
    }
}

#[cfg(kani)]
pub(crate) fn u8_mk_err(kc: u8) -> Box<VmError> {
    let kind = match kc & 3 {
        0 => VmErrorKind::ArrayOutOfBounds,
        1 => VmErrorKind::Panic(String::new()),
        2 => VmErrorKind::IntegerOverflowUnderflow,
        _ => VmErrorKind::DivisionByZero,
    };
    Box::new(VmError { kind, location: u8_empty_loc(), trace: vec![] })
}

/// THE STEP CONTRACT (the assumption of this unit; what u1/u2/u3/u4a/u5 prove arm by arm).
/// One call = one instruction.  Per-thread ghost step counter: `pc.0`.
/// Outcome o: 0 ordinary instruction | 1 Stop | 2 runtime error (sub = kind) |
///            3 HostFunc(eff) | 4 SpawnTask | 5 ordinary instruction with a stack effect (sub)
/// In scripted mode (C10 split harness) o/sub come from U8G.script[pc & 7].
#[cfg(kani)]
fn u8_step(t: &mut VmGreenThread) -> bool {
    unsafe {
        U8G.steps += 1;
        if U8G.main_stopped {
            U8G.steps_after_main_stop += 1;
        }
        if t.pending_host_func.is_some() || t.error.is_some() || t.done || t.pending_ffi_call.is_some() {
            U8G.step_while_blocked = true;
        }
    }
    let idx = t.pc.0;
    t.pc.0 = idx + 1;
    let scripted = unsafe { U8G.script_on };
    let sb: u8 = unsafe { U8G.script[(idx as usize) & 7] };
    let o: u8 = if scripted { sb & 7 } else { u8_pick(6) };
    match o {
        1 => {
            // like Instr::Stop
            t.done = true;
            if t.is_main {
                unsafe {
                    U8G.main_stopped = true;
                    match t.value_stack.last() {
                        Some(v) => {
                            U8G.main_top_set = true;
                            U8G.main_top = *v;
                        }
                        None => U8G.main_top_set = false,
                    }
                }
            }
            false
        }
        2 => {
            // like every erroring arm: self.error = Some(make_error(kind)); return false
            let kc = if scripted { (sb >> 3) & 3 } else { u8_kind(t.is_main) };
            t.error = Some(u8_mk_err(kc));
            false
        }
        3 => {
            // like Instr::HostFunc(eff)
            let eff: u16 = if scripted { sb as u16 } else { u8_eff() };
            t.pending_host_func = Some(eff);
            false
        }
        4 => {
            // like Instr::SpawnTask: a fresh thread goes through new_threads_sender
            let ok = unsafe { U8G.allow_spawn && U8G.spawns_left > 0 };
            if ok {
                unsafe { U8G.spawns_left -= 1 };
                let nt = VmGreenThread::new(t.shared.clone(), t.new_threads_sender.clone());
                t.new_threads_sender.send(Box::new(nt)).unwrap();
            }
            true
        }
        5 => {
            // ordinary instruction with a stack effect
            if unsafe { U8G.stack_ops } {
                let sub = if scripted { (sb >> 3) & 3 } else { u8_pick(3) };
                let v = if scripted { Value(sb as u64, ValueTag::Int) } else { u8_value() };
                let n = t.value_stack.len();
                match sub {
                    0 => {
                        if n > 0 {
                            t.value_stack[n - 1] = v;
                        }
                    }
                    1 => {
                        if n < 3 {
                            t.value_stack.push(v);
                        }
                    }
                    _ => {
                        if n > 0 {
                            t.value_stack.pop();
                        }
                    }
                }
            }
            true
        }
        _ => true, // ordinary instruction, no effect the scheduler can see
    }
}

#[cfg(kani)]
pub(crate) mod u8s {
    use super::hs::*;
    use super::*;


    fn kind_code(k: &VmErrorKind) -> u8 {
        match k {
            VmErrorKind::ArrayOutOfBounds => 0,
            VmErrorKind::Panic(_) => 1,
            VmErrorKind::IntegerOverflowUnderflow => 2,
            VmErrorKind::DivisionByZero => 3,
            _ => 9,
        }
    }
    /// 0 Done, 1 PendingHostFunc, 2 OutOfSteps, 10+kind MainThreadError(kind)
    fn status_code(k: &RuntimeStatusKind) -> u8 {
        match k {
            RuntimeStatusKind::Done => 0,
            RuntimeStatusKind::PendingHostFunc => 1,
            RuntimeStatusKind::OutOfSteps => 2,
            RuntimeStatusKind::MainThreadError(e) => 10 + kind_code(&e.kind),
        }
    }
    fn thread_err_code(t: &VmGreenThread) -> Option<u8> {
        match &t.error {
            None => None,
            Some(e) => Some(kind_code(&e.kind)),
        }
    }
    fn runnable(t: &VmGreenThread) -> bool {
        t.pending_host_func.is_none() && t.error.is_none() && !t.done && t.pending_ffi_call.is_none()
    }

    fn mkbox(shared: &Arc<VmSharedReadonly>, tx: &Sender<Box<VmGreenThread>>) -> Box<VmGreenThread> {
        Box::new(VmGreenThread::new(shared.clone(), tx.clone()))
    }
    /// RI3: runnable | pending host call | errored
    fn any_queue_state(t: &mut VmGreenThread) {
        let s = u8_pick(3);
        if s == 1 {
            t.pending_host_func = Some(7);
        } else if s == 2 {
            t.error = Some(u8_mk_err(u8_kind(t.is_main)));
        }
    }

    pub struct Scen {
        pub rt: Runtime,
        pub mf: bool, // main already finished (Done was reported by an earlier call)
        pub main_id: u64,
    }

    /// Any Runtime satisfying RI with `nq` queued threads (concrete), main at any
    /// position or already finished; `stack1`: main's stack holds one value.
    pub fn any_runtime(nq: usize, stack1: bool) -> Scen {
        let shared = mk_shared(vec![], vec![]);
        let (tx, rx) = mpsc::channel();
        // main position: 0..nq = in the queue, nq = already finished
        let p = u8_pick(nq as u8 + 1) as usize;
        let mf = p == nq;
        let mut main_id = 0;
        let mut mk = |i: usize| {
            let mut t = mkbox(&shared, &tx);
            t.is_main = p == i;
            if t.is_main {
                main_id = t.id;
                if stack1 {
                    t.value_stack.push(u8_value());
                }
            }
            any_queue_state(&mut t);
            t
        };
        let q = match nq {
            0 => VecDeque::new(),
            1 => VecDeque::from([mk(0)]),
            2 => VecDeque::from([mk(0), mk(1)]),
            _ => VecDeque::from([mk(0), mk(1), mk(2)]),
        };
        let fin = if mf {
            let mut f = mkbox(&shared, &tx);
            f.is_main = true;
            f.done = true;
            main_id = f.id;
            if stack1 {
                let v = u8_value();
                f.value_stack.push(v);
                unsafe {
                    U8G.main_top_set = true;
                    U8G.main_top = v;
                }
            }
            Some(f)
        } else {
            None
        };
        u8_forget(shared);
        u8_forget(tx);
        Scen { rt: Runtime { run_queue: q, new_threads: rx, finished_main_thread: fin }, mf, main_id }
    }

    /// the main thread, found WITHOUT the code under test
    fn main_of(rt: &Runtime) -> Option<&VmGreenThread> {
        let mut found: Option<&VmGreenThread> = None;
        let mut i = 0;
        while i < rt.run_queue.len() {
            let t = rt.run_queue.get(i).unwrap();
            if t.is_main {
                found = Some(t);
            }
            i += 1;
        }
        match (&found, &rt.finished_main_thread) {
            (None, Some(f)) => Some(f),
            _ => found,
        }
    }
    fn count_queue(rt: &Runtime, f: &dyn Fn(&VmGreenThread) -> bool) -> usize {
        let mut n = 0;
        let mut i = 0;
        while i < rt.run_queue.len() {
            if f(rt.run_queue.get(i).unwrap()) {
                n += 1;
            }
            i += 1;
        }
        n
    }
    fn count_main_in_queue(rt: &Runtime) -> usize {
        count_queue(rt, &|t| t.is_main)
    }
    fn any_queue_pending(rt: &Runtime) -> bool {
        count_queue(rt, &|t| t.pending_host_func.is_some()) > 0
    }
    fn any_queue_runnable(rt: &Runtime) -> bool {
        count_queue(rt, &|t| runnable(t)) > 0
    }
    fn any_nonmain_error(rt: &Runtime) -> bool {
        count_queue(rt, &|t| !t.is_main && t.error.is_some()) > 0
    }
    #[cfg(not(u8_native))]
    fn channel_empty(rt: &Runtime) -> bool {
        rt.new_threads.in_flight() == 0
    }
    #[cfg(u8_native)]
    fn channel_empty(rt: &Runtime) -> bool {
        rt.new_threads.try_recv().is_err() // only used as the last observation of a run
    }
    /// RI1..RI3 (+ channel drained) as an executable predicate
    pub fn ri_holds(rt: &Runtime) -> bool {
        let nm = count_main_in_queue(rt);
        let mut ok = true;
        match &rt.finished_main_thread {
            Some(f) => {
                ok = ok && nm == 0 && f.is_main && f.done && f.pending_host_func.is_none() && f.error.is_none();
            }
            None => {
                ok = ok && nm == 1;
            }
        }
        ok = ok && count_queue(rt, &|t| t.done || t.pending_ffi_call.is_some() || (t.pending_host_func.is_some() && t.error.is_some())) == 0;
        ok && channel_empty(rt)
    }

    /// the status the property demands for a final state; precedence as implemented:
    /// main done > main pending > main error > any queued thread pending > OutOfSteps
    /// (RI makes the first three mutually exclusive, so their order is not observable)
    fn wanted_status(rt: &Runtime, m: &VmGreenThread) -> u8 {
        if m.done {
            0
        } else if m.pending_host_func.is_some() {
            1
        } else if let Some(kc) = thread_err_code(m) {
            10 + kc
        } else if any_queue_pending(rt) {
            1
        } else {
            2
        }
    }

    pub const BUDGET: u8 = 0;
    pub const DONE_IFF: u8 = 1;
    pub const ERR: u8 = 2;
    pub const PENDING: u8 = 3;
    pub const STARVE: u8 = 4;
    pub const NOPANIC: u8 = 5;
    pub const INV: u8 = 6;

    /// one call of run_n_steps(k) from any RI state; `c` selects the clause asserted
    pub fn scenario(nq: usize, c: u8) {
        u8_reset();
        let mut s = any_runtime(nq, false);
        let k = u8_pick(u8_maxk() + 1) as u32;
        let st = s.rt.run_n_steps(k);
        let code = status_code(&st.kind);
        let steps = unsafe { U8G.steps };
        let stopped = unsafe { U8G.main_stopped };
        let m = main_of(&s.rt);
        assert!(m.is_some(), "harness sanity: a main thread exists");
        let m = m.unwrap();

        if c == BUDGET {
            assert!(st.steps_consumed <= k, "C11 budget: steps_consumed <= k");
            assert!(st.steps_consumed == steps, "C11 budget: steps_consumed == number of step() calls made");
            assert!(!unsafe { U8G.step_while_blocked }, "no instruction is executed on a pending/errored/done thread");
            kani::cover!(st.steps_consumed == u8_maxk() as u32, "full budget used");
            kani::cover!(st.steps_consumed < k && code == 0, "Done before the budget is used up");
        }
        if c == DONE_IFF {
            assert!((code == 0) == (s.mf || stopped), "C11: Done <=> the main thread has executed Stop");
            if stopped {
                let f = s.rt.finished_main_thread.as_ref();
                assert!(f.is_some() && f.unwrap().id == s.main_id && f.unwrap().done, "the stopped main thread is kept as finished_main_thread");
                assert!(count_main_in_queue(&s.rt) == 0, "... and is no longer queued");
                assert!(unsafe { U8G.steps_after_main_stop } == 0, "C11: completion is reported as soon as the main thread stops (no instruction of any task runs after it in this call)");
            }
            kani::cover!(code == 0 && any_queue_runnable(&s.rt), "Done while another task is runnable");
            kani::cover!(code == 0 && any_queue_pending(&s.rt), "Done while another task waits for the host");
            kani::cover!(s.mf && st.steps_consumed > 0, "BEHAVIOUR: after Done, a further run_n_steps executes other tasks' instructions");
            kani::cover!(s.mf && st.steps_consumed == 0 && k > 0, "after Done, nothing runnable: executes nothing");
        }
        if c == ERR {
            match thread_err_code(m) {
                Some(kc) => {
                    assert!(code == 10 + kc, "C11: main error => MainThreadError carrying that kind");
                    assert!(code != 0 && code != 2 && code != 1, "C11: main error is never Done / OutOfSteps / PendingHostFunc");
                }
                None => assert!(code < 10, "MainThreadError only when the main thread has an error"),
            }
            kani::cover!(code >= 10, "main error reachable");
            kani::cover!(any_nonmain_error(&s.rt) && code == 2, "BEHAVIOUR: an error of a non-main task is not reported (OutOfSteps)");
            kani::cover!(any_nonmain_error(&s.rt) && code == 0, "BEHAVIOUR: an error of a non-main task is not reported (Done)");
        }
        if c == PENDING {
            assert!(code == wanted_status(&s.rt, m), "C11: status precedence");
            if m.pending_host_func.is_some() {
                assert!(code == 1 && !m.done && m.error.is_none(), "main pending => PendingHostFunc (pending excludes done/error)");
            }
            if code == 1 {
                assert!(any_queue_pending(&s.rt), "PendingHostFunc => a queued thread (reachable through iter_threads_mut) has a pending host call");
            }
            kani::cover!(code == 1 && m.pending_host_func.is_none(), "PendingHostFunc because of a non-main task");
            kani::cover!(code >= 10 && any_queue_pending(&s.rt), "main error wins over another task's pending host call");
        }
        if c == STARVE {
            if code != 0 && st.steps_consumed < k {
                assert!(!any_queue_runnable(&s.rt), "budget left over only when no queued thread can run");
            }
            if code == 2 {
                assert!(st.steps_consumed == k, "OutOfSteps => the whole budget was used");
            }
            kani::cover!(code == 1 && st.steps_consumed == 0 && k > 0, "everything blocked: loop exits at once");
        }
        if c == INV {
            kani::cover!(s.rt.run_queue.len() > nq, "spawned thread queued");
            kani::cover!(s.rt.run_queue.len() < nq, "finished thread removed");
            assert!(ri_holds(&s.rt), "RI is preserved by run_n_steps");
        }
        if c == NOPANIC {
            // oracle = the back end's own panic detection on validate() / main().unwrap()
            let _ = s.rt.main();
            kani::cover!(true, "reachable");
        }
        u8_forget(st);
        u8_forget(s);
    }

    /// C11.top.is_final_value: after Done, Runtime::top() is the last stack slot the main
    /// thread had when it executed Stop (stack effects of every thread enabled)
    pub fn top_scenario(nq: usize) {
        u8_reset();
        unsafe { U8G.stack_ops = true };
        let mut s = any_runtime(nq, true);
        let k = u8_pick(u8_maxk() + 1) as u32;
        let st = s.rt.run_n_steps(k);
        let set = unsafe { U8G.main_top_set };
        if status_code(&st.kind) == 0 && set {
            let want = unsafe { U8G.main_top };
            assert!(s.rt.top() == want, "C11: top() after Done is the finished main thread's last stack slot");
            assert!(s.rt.main().id == s.main_id, "main() after Done is the thread that was main");
            kani::cover!(count_main_in_queue(&s.rt) == 0, "main found through finished_main_thread");
        }
        kani::cover!(status_code(&st.kind) == 0 && !set, "BEHAVIOUR: Done with an empty main stack (top() would panic: void program)");
        u8_forget(st);
        u8_forget(s);
    }

    /// update_status_helper alone on any RI state (no scheduler loop: affordable for CBMC)
    pub fn status_only(nq: usize) {
        u8_reset();
        let s = any_runtime(nq, false);
        let kind = s.rt.update_status_helper();
        let code = status_code(&kind);
        let m = main_of(&s.rt).unwrap();
        assert!(code == wanted_status(&s.rt, m), "C11: status precedence");
        assert!((code == 0) == s.mf, "Done <=> main finished");
        match thread_err_code(m) {
            Some(kc) => assert!(code == 10 + kc, "main error => MainThreadError(kind)"),
            None => assert!(code < 10),
        }
        kani::cover!(true, "reachable");
        kani::cover!(code == 1, "pending reachable");
        kani::cover!(code >= 10, "error reachable");
        u8_forget(kind);
        u8_forget(s);
    }

    /// try_get_main / main / top alone on any RI state (loop-free: affordable for CBMC, all Values)
    pub fn top_only(nq: usize) {
        u8_reset();
        let s = any_runtime(nq, true);
        let m = main_of(&s.rt).unwrap();
        let want = *m.value_stack.last().unwrap();
        assert!(s.rt.main().id == s.main_id, "main() is the main thread, queued or finished");
        assert!(s.rt.top() == want, "top() is the main thread's last stack slot");
        if s.mf {
            assert!(want == unsafe { U8G.main_top }, "harness sanity");
        }
        kani::cover!(s.mf, "main found through finished_main_thread");
        kani::cover!(!s.mf, "main found in the run queue");
        u8_forget(s);
    }

    /// smallest loop case (native only: CBMC needed > 19 GB for this ONE-iteration harness and was killed):
    /// one queued thread in any RI state (main, or a task with main finished), budget <= 1
    pub fn smoke_body() {
        u8_reset();
        unsafe { U8G.allow_spawn = false };
        let mut s = any_runtime(1, false);
        let k = u8_pick(2) as u32;
        let st = s.rt.run_n_steps(k);
        let code = status_code(&st.kind);
        let m = main_of(&s.rt).unwrap();
        assert!(st.steps_consumed <= k && st.steps_consumed == unsafe { U8G.steps }, "budget");
        assert!(code == wanted_status(&s.rt, m), "status precedence");
        assert!((code == 0) == (s.mf || unsafe { U8G.main_stopped }), "Done <=> main stopped");
        kani::cover!(code == 0 && !s.mf, "main stops in this call");
        kani::cover!(code >= 10, "main error");
        u8_forget(st);
        u8_forget(s);
    }

    /// finish_thread_turn's contract on a non-main thread with ANY flag combination
    pub fn finish_turn_contract_body() {
        u8_reset();
        let mut s = any_runtime(1, false);
        let shared = mk_shared(vec![], vec![]);
        let (tx, rx2) = mpsc::channel();
        let mut t = mkbox(&shared, &tx);
        t.done = u8_pick(2) == 1;
        if u8_pick(2) == 1 {
            t.pending_host_func = Some(u8_eff());
        }
        if u8_pick(2) == 1 {
            t.error = Some(u8_mk_err(u8_pick(4)));
        }
        let id = t.id;
        let done = t.done;
        let n0 = s.rt.run_queue.len();
        let r = s.rt.finish_thread_turn(t);
        assert!(!r, "a non-main thread never ends the run");
        if done {
            assert!(s.rt.run_queue.len() == n0, "a done non-main thread is dropped");
        } else {
            assert!(s.rt.run_queue.len() == n0 + 1 && s.rt.run_queue.get(n0).unwrap().id == id, "otherwise it is queued at the back");
        }
        kani::cover!(done, "done reachable");
        u8_forget(s);
        u8_forget(shared);
        u8_forget(tx);
        u8_forget(rx2);
    }
    /// ... and on the main thread
    pub fn finish_turn_main_body() {
        u8_reset();
        let mut s = any_runtime(1, false);
        kani::assume(!s.mf);
        let mut t = s.rt.run_queue.pop_front().unwrap();
        t.done = u8_pick(2) == 1;
        let done = t.done;
        let id = t.id;
        let r = s.rt.finish_thread_turn(t);
        assert!(r == done, "finish_thread_turn returns true exactly for a done main thread");
        if done {
            assert!(s.rt.run_queue.len() == 0 && s.rt.finished_main_thread.as_ref().unwrap().id == id);
        } else {
            assert!(s.rt.run_queue.len() == 1 && s.rt.finished_main_thread.is_none());
        }
        kani::cover!(done, "done reachable");
        u8_forget(s);
    }

    /// RI holds for Runtime::new
    pub fn ri_init_body() {
        u8_reset();
        let prog = CompiledProgram {
            instructions: vec![],
            int_constants: vec![],
            float_constants: vec![],
            static_strings: vec![],
            filename_arena: vec![],
            function_name_arena: vec![],
            filename_table: vec![],
            lineno_table: vec![],
            function_name_table: vec![],
        };
        let rt = Runtime::new(prog);
        assert!(rt.run_queue.len() == 1 && rt.finished_main_thread.is_none());
        let t = rt.run_queue.get(0).unwrap();
        assert!(t.is_main && runnable(t) && t.heap_list.is_empty() && t.value_stack.is_empty());
        assert!(ri_holds(&rt), "RI holds after Runtime::new");
        kani::cover!(true, "reachable");
        u8_forget(rt);
    }

    /// the real maybe_gc is a no-op on an empty-heap thread (justifies its no-op stand-in
    /// in the CBMC build; the native build runs the real one everywhere anyway)
    pub fn gc_neutral_body() {
        let mut t = mk_thread(mk_shared(vec![], vec![]));
        t.value_stack.push(u8_value());
        #[cfg(not(u8_native))]
        t.maybe_gc_real();
        #[cfg(u8_native)]
        t.maybe_gc();
        assert!(matches!(t.gc_state, GcState::Idle) && t.heap_list.is_empty() && t.gray_stack.is_empty());
        assert!(t.heap_size == 0 && t.gc_debt == 0 && t.value_stack.len() == 1 && runnable(&t) && t.pc.0 == 0);
        kani::cover!(true, "reachable");
        u8_forget(t);
    }

    // ---------------------------------------------------------------- C10
    fn one_thread_runtime() -> Runtime {
        let shared = mk_shared(vec![], vec![]);
        let (tx, rx) = mpsc::channel();
        let mut t = mkbox(&shared, &tx);
        t.is_main = true;
        t.value_stack.push(Value(0, ValueTag::Int));
        u8_forget(shared);
        u8_forget(tx);
        Runtime { run_queue: VecDeque::from([t]), new_threads: rx, finished_main_thread: None }
    }
    struct Obs {
        pc: u32,
        code: u8,
        total: u32,
        pending: Option<u16>,
        top: Option<Value>,
        depth: usize,
    }
    fn observe(rt: &Runtime, code: u8, total: u32) -> Obs {
        let m = main_of(rt).unwrap();
        Obs { pc: m.pc.0, code, total, pending: m.pending_host_func, top: m.value_stack.last().copied(), depth: m.value_stack.len() }
    }
    /// C10.sched.single_thread.split: ONE thread, no spawns, the stub made deterministic by
    /// a script indexed by the thread's own step counter: budgets k1 then k2 == budget k1+k2
    pub fn split_scenario() {
        u8_reset();
        let mut script = [0u8; 8];
        let mut i = 0;
        while i < u8_maxk() as usize {
            let o = u8_pick(6);
            let sub = if o == 2 { u8_pick(4) } else if o == 5 { u8_pick(3) } else { 0 };
            script[i] = o | (sub << 3);
            i += 1;
        }
        let k1 = u8_pick(u8_maxk() + 1) as u32;
        let k2 = u8_pick(u8_maxk() + 1) as u32;
        kani::assume(k1 + k2 <= u8_maxk() as u32);
        // run A: k1 then k2 (the embedder does not touch the runtime in between)
        u8_arm_script(script);
        let mut a = one_thread_runtime();
        let a1 = a.run_n_steps(k1);
        let a2 = a.run_n_steps(k2);
        let oa = observe(&a, status_code(&a2.kind), a1.steps_consumed + a2.steps_consumed);
        let steps_a = unsafe { U8G.steps };
        // run B: k1 + k2
        u8_reset();
        u8_arm_script(script);
        let mut b = one_thread_runtime();
        let b1 = b.run_n_steps(k1 + k2);
        let ob = observe(&b, status_code(&b1.kind), b1.steps_consumed);
        let steps_b = unsafe { U8G.steps };
        assert!(oa.pc == ob.pc && steps_a == steps_b && oa.total == ob.total, "C10: same number of instructions executed");
        assert!(oa.code == ob.code, "C10: same final status (Done / PendingHostFunc / OutOfSteps / MainThreadError(kind))");
        assert!(oa.pending == ob.pending && oa.top == ob.top && oa.depth == ob.depth, "C10: same thread state (pending call, stack)");
        // a status other than OutOfSteps is sticky: the second slice executes nothing
        if status_code(&a1.kind) != 2 {
            assert!(a2.steps_consumed == 0 && status_code(&a2.kind) == status_code(&a1.kind), "a non-OutOfSteps status is stable under further budget");
        }
        kani::cover!(k1 > 0 && k2 > 0 && oa.code == 0, "Done in the second slice");
        kani::cover!(oa.code == 1, "host call reachable");
        u8_forget(a1);
        u8_forget(a2);
        u8_forget(b1);
        u8_forget(a);
        u8_forget(b);
    }

    /// C10.sched.host_call.blocks_only_caller: a thread with a pending host call gets no
    /// step, the others are served in queue order; after clear_pending_host_func it runs
    pub fn host_call_scenario(nq: usize) {
        u8_reset();
        let mut s = any_runtime(nq, false);
        // choose a queued thread that is pending
        let j = u8_pick(nq as u8) as usize;
        kani::assume(s.rt.run_queue.get(j).unwrap().pending_host_func.is_some());
        let pid = s.rt.run_queue.get(j).unwrap().id;
        let others_runnable = count_queue(&s.rt, &|t| runnable(t));
        let first_runnable_id = {
            let mut r = None;
            let mut i = 0;
            while i < s.rt.run_queue.len() {
                let t = s.rt.run_queue.get(i).unwrap();
                if r.is_none() && runnable(t) {
                    r = Some(t.id);
                }
                i += 1;
            }
            r
        };
        let k = u8_pick(u8_maxk() + 1) as u32;
        let st = s.rt.run_n_steps(k);
        // the caller did not move and is still waiting
        let mut seen = false;
        let mut first_moved = false;
        let mut i = 0;
        while i < s.rt.run_queue.len() {
            let t = s.rt.run_queue.get(i).unwrap();
            if t.id == pid {
                seen = true;
                assert!(t.pc.0 == 0 && t.pending_host_func.is_some(), "C10: the waiting thread executes nothing and keeps waiting");
            }
            if Some(t.id) == first_runnable_id && t.pc.0 > 0 {
                first_moved = true;
            }
            i += 1;
        }
        assert!(seen, "the waiting thread stays queued (reachable through iter_threads_mut)");
        if k > 0 && others_runnable > 0 {
            assert!(st.steps_consumed > 0, "C10: a pending host call does not stop the other threads");
            // the first runnable thread in queue order got the first step (it may have finished and left the queue)
            let gone = count_queue(&s.rt, &|t| Some(t.id) == first_runnable_id) == 0;
            assert!(first_moved || gone, "C10: the first runnable thread is served first");
        }
        if others_runnable == 0 {
            assert!(st.steps_consumed == 0, "nothing runnable: nothing executed");
        }
        let done1 = status_code(&st.kind) == 0;
        // the host answers: exactly what abra_cli does (iter_threads_mut + clear_pending_host_func)
        for t in s.rt.iter_threads_mut() {
            if t.id == pid {
                t.clear_pending_host_func();
            }
        }
        let qlen = s.rt.run_queue.len() as u32;
        let st2 = s.rt.run_n_steps(qlen);
        let ended_in_2 = !done1 && status_code(&st2.kind) == 0;
        if !ended_in_2 {
            // unless the run ended (main stopped) before its turn, the thread ran within one round
            let moved = count_queue(&s.rt, &|t| t.id == pid && t.pc.0 > 0) > 0;
            let left = count_queue(&s.rt, &|t| t.id == pid) == 0; // it executed Stop and was dropped
            assert!(moved || left, "C10: after clear_pending_host_func the thread runs again within one round");
        }
        kani::cover!(st.steps_consumed > 0, "others ran while one thread waited");
        kani::cover!(!ended_in_2, "second round completed without the main thread stopping in it");
        u8_forget(st);
        u8_forget(st2);
        u8_forget(s);
    }

    /// embedder keeps calling run_n_steps without servicing anything: never a panic, and
    /// Done / MainThreadError are stable
    pub fn repeat_scenario(nq: usize, c: u8) {
        u8_reset();
        let mut s = any_runtime(nq, false);
        let k = u8_pick(3) as u32;
        let st1 = s.rt.run_n_steps(k);
        let c1 = status_code(&st1.kind);
        let st2 = s.rt.run_n_steps(k);
        let c2 = status_code(&st2.kind);
        if c == DONE_IFF && c1 == 0 {
            assert!(c2 == 0, "C11: once Done, always Done");
        }
        if c == ERR && c1 >= 10 {
            assert!(c2 == c1, "C11: a main error stays reported (never turns into Done)");
        }
        kani::cover!(c1 == 0 && st2.steps_consumed > 0, "BEHAVIOUR: after Done a further call still executes other tasks");
        kani::cover!(true, "reachable");
        u8_forget(st1);
        u8_forget(st2);
        u8_forget(s);
    }

    macro_rules! harnesses {
        ($( ($name:ident, $unw:literal, $body:expr) ),* $(,)?) => {
            $(
                #[cfg_attr(not(u8_native), kani::proof)]
                #[cfg_attr(not(u8_native), kani::unwind($unw))]
                pub fn $name() { $body }
            )*
            #[cfg(u8_native)]
            pub fn native_table() -> Vec<(&'static str, fn())> {
                vec![ $( (stringify!($name), $name as fn()) ),* ]
            }
        };
    }
    harnesses! {
        (budget_0, 8, scenario(0, BUDGET)), (budget_1, 12, scenario(1, BUDGET)), (budget_2, 18, scenario(2, BUDGET)), (budget_3, 26, scenario(3, BUDGET)),
        (done_iff_0, 8, scenario(0, DONE_IFF)), (done_iff_1, 12, scenario(1, DONE_IFF)), (done_iff_2, 18, scenario(2, DONE_IFF)), (done_iff_3, 26, scenario(3, DONE_IFF)),
        (err_0, 8, scenario(0, ERR)), (err_1, 12, scenario(1, ERR)), (err_2, 18, scenario(2, ERR)), (err_3, 26, scenario(3, ERR)),
        (pending_0, 8, scenario(0, PENDING)), (pending_1, 12, scenario(1, PENDING)), (pending_2, 18, scenario(2, PENDING)), (pending_3, 26, scenario(3, PENDING)),
        (starve_0, 8, scenario(0, STARVE)), (starve_1, 12, scenario(1, STARVE)), (starve_2, 18, scenario(2, STARVE)), (starve_3, 26, scenario(3, STARVE)),
        (nopanic_0, 8, scenario(0, NOPANIC)), (nopanic_1, 12, scenario(1, NOPANIC)), (nopanic_2, 18, scenario(2, NOPANIC)), (nopanic_3, 26, scenario(3, NOPANIC)),
        (inv_0, 8, scenario(0, INV)), (inv_1, 12, scenario(1, INV)), (inv_2, 18, scenario(2, INV)), (inv_3, 26, scenario(3, INV)),
        (top_0, 8, top_scenario(0)), (top_1, 12, top_scenario(1)), (top_2, 18, top_scenario(2)), (top_3, 26, top_scenario(3)),
        (repeat_done_1, 12, repeat_scenario(1, DONE_IFF)), (repeat_done_2, 18, repeat_scenario(2, DONE_IFF)), (repeat_done_3, 26, repeat_scenario(3, DONE_IFF)),
        (repeat_err_1, 12, repeat_scenario(1, ERR)), (repeat_err_2, 18, repeat_scenario(2, ERR)), (repeat_err_3, 26, repeat_scenario(3, ERR)),
        (repeat_nopanic_1, 12, repeat_scenario(1, NOPANIC)), (repeat_nopanic_2, 18, repeat_scenario(2, NOPANIC)), (repeat_nopanic_3, 26, repeat_scenario(3, NOPANIC)),
        (host_call_1, 12, host_call_scenario(1)), (host_call_2, 18, host_call_scenario(2)), (host_call_3, 26, host_call_scenario(3)),
        (split, 12, split_scenario()),
        (status_only_0, 6, status_only(0)), (status_only_1, 6, status_only(1)), (status_only_2, 6, status_only(2)), (status_only_3, 6, status_only(3)),
        (finish_turn_contract, 6, finish_turn_contract_body()), (finish_turn_main, 6, finish_turn_main_body()),
        (ri_init, 6, ri_init_body()), (gc_neutral, 6, gc_neutral_body()),
        (top_only_0, 6, top_only(0)), (top_only_1, 6, top_only(1)), (top_only_2, 6, top_only(2)), (top_only_3, 6, top_only(3)),
        (smoke, 3, smoke_body()),
    }
}

#[cfg(u8_native)]
pub fn u8_native_table() -> Vec<(&'static str, fn())> {
    u8s::native_table()
}
