"""U8: the embedder-facing scheduler (Runtime::run_n_steps and everything below it except
step()) on the REAL text of vm.rs, driven over a contract-only nondeterministic step()
(Kani, bounded: <= 3 queued threads at entry, budget <= 4, <= 1 spawn per run).
Serves C11 (truthful status / budget / top) and the scheduler half of C10."""
import os
import re
from units import vmk
import slicer as S
import engine as E

HERE = os.path.dirname(os.path.abspath(__file__))
UNIT = "U8-sched"
V = vmk.V

NOOP_GC = "    pub fn maybe_gc(&mut self) {}\n"
NOOP_DROP = "impl Drop for VmGreenThread {\n    fn drop(&mut self) {}\n}"
LOC_OLD = ("#[derive(Clone, Debug)]\npub struct VmErrorLocation {\n    filename: String,\n    lineno: u32,\n"
           "    function_name: String,\n}")
LOC_NEW = ("#[derive(Clone, Copy, Debug)]\npub struct VmErrorLocation {\n    filename: &'static str,\n    lineno: u32,\n"
           "    function_name: &'static str,\n}")
LOCV_OLD = "            filename: String::new(),\n            lineno: 0,\n            function_name: String::new(),\n"
LOCV_NEW = "            filename: \"\",\n            lineno: 0,\n            function_name: \"\",\n"

U8_ASSUMED = [
    "kani/U8: VmGreenThread::step replaced by a contract-only nondeterministic stub (harness.rs `u8_step`): one call = one "
    "instruction; outcome in {continue, Stop, error of one of the 4 documented kinds, HostFunc(any id), SpawnTask (<= 1 per run), "
    "stack push/pop/overwrite}; every outcome that sets a status flag sets exactly one and returns false (what u1/u2/u3/u4a/u5 prove arm by arm)",
    "kani/U8: maybe_gc replaced by a no-op in the scheduler harnesses; the real text is kept as maybe_gc_real and proved to be a no-op on "
    "an empty-heap thread (obligation C11.sched.gc_neutral) - heaps are empty in this unit (RI4)",
    "kani/U8: `impl Drop for VmGreenThread` (frees the thread's heap objects) replaced by an empty body: heaps are empty in this unit",
    "kani/U8: VmErrorLocation's two String fields retyped to &'static str (+Copy): the scheduler only moves/clones Box<VmError>; "
    "String/Vec drop-and-clone loops at every possible drop site made CBMC's symex 4x slower; all locations are empty here",
    "kani/U8: own shim (units/u8_sched/shim.rs): VecDeque and mpsc channel are fixed-capacity (8) FIFO ring buffers, Sender/Arc never free "
    "their shared cell (no recursive drop glue); FIFO semantics assumed for std's VecDeque/mpsc",
    "kani/U8: initial Runtime states are exactly those satisfying the representation invariant RI1-RI5 stated at the top of harness.rs; "
    "RI is proved to hold after Runtime::new and to be preserved by run_n_steps (C11.sched.invariant), and is preserved by the embedder "
    "API clear_pending_host_func/push_*/pop_* (they touch neither done, error nor the queue)",
    "kani/U8: feature `ffi` off (default build): pending_ffi_call is always None, new_threads carries only spawned (non-main) threads",
]


def _rep1(text, old, new, what, counts):
    k = text.count(old)
    if k != 1:
        raise S.SliceError("u8: anchor for %s found %d times" % (what, k))
    counts[what] = 1
    return text.replace(old, new)


def build(dirpath, arms=(), harness_src="", stub_loc=True, replace_methods=None):
    """vmk.build + the U8 replacements (each anchored and counted)."""
    stub = open(os.path.join(HERE, 'step_stub.rs')).read().rstrip('\n')
    gc = S.method(V, r'impl VmGreenThread \{', 'maybe_gc', with_attrs=False)
    if gc.count('pub fn maybe_gc(&mut self)') != 1:
        raise S.SliceError("u8: maybe_gc header not found")
    gc2 = NOOP_GC + gc.replace('pub fn maybe_gc(&mut self)', 'pub fn maybe_gc_real(&mut self)')
    rm = dict(replace_methods or {})
    rm.update({'step': stub, 'maybe_gc': gc2})
    info = _ORIG_BUILD(dirpath, arms=arms, harness_src=harness_src, stub_loc=stub_loc, replace_methods=rm)
    counts = info['rewrites']
    p = os.path.join(dirpath, 'src', 'vm.rs')
    src = open(p).read()
    drop = S.item(V, r'impl Drop for VmGreenThread \{')
    src = _rep1(src, drop, NOOP_DROP, "U8:drop", counts)
    src = _rep1(src, LOC_OLD, LOC_NEW, "U8:loc_type", counts)
    src = _rep1(src, LOCV_OLD, LOCV_NEW, "U8:loc_value", counts)
    with open(p, 'w') as f:
        f.write(src)
    with open(os.path.join(dirpath, 'src', 'shim.rs'), 'w') as f:
        f.write(open(os.path.join(HERE, 'shim.rs')).read())
    counts["U8:shim"] = 1
    return info


_ORIG_BUILD = vmk.build

T = []


def run(tier="quick"):
    vmk.build = build
    try:
        return vmk.run_table(UNIT, "u8", [], os.path.join(HERE, "harness.rs"), T, timeout=600, jobs=3,
                             extra_info=dict(assumptions=U8_ASSUMED))
    finally:
        vmk.build = _ORIG_BUILD


def replay(ob):
    return None, dict(note="no replay")
