"""U8: the embedder-facing scheduler (Runtime::{new, run_n_steps, run_threads_round_robin,
finish_thread_turn, drain_new_threads, update_status_helper, try_get_main, main, top} and
VmGreenThread::{run_n_steps, validate, can_run, status}) on the REAL text of vm.rs, driven
over a contract-only nondeterministic step() (harness.rs `u8_step`).
Serves C11 (truthful status / budget / top) and the scheduler half of C10.

Back ends (both execute harness.rs):
  * native-exhaustive: vm.rs compiled natively on the real std, every resolution of the
    harness's nondeterminism executed (native_kani.rs) - all obligations; bounds: <= 3 queued
    threads at entry, budget <= 4 (5 thorough), <= 1 SpawnTask per run (2 thorough).
  * kani/cbmc through vmk.run_table: the loop-free calls only.  MEASURED: with
    Box<VmGreenThread> inside a queue CBMC needs 26 s / 40 s / 70 s for 1 / 2 / 3 unrolled
    iterations of the scheduler loop over a ONE-thread queue and > 19 GB for the smallest
    symbolic-state loop harness; the recursive drop glue Box<thread> -> Sender -> queue of
    Box<thread> and the String/Vec loops of VmError at every drop site had to be cut first.
"""
import os
import re
from units import vmk
import slicer as S
import engine as E

HERE = os.path.dirname(os.path.abspath(__file__))
UNIT = "U8-sched"
V = vmk.V

NOOP_GC = "    pub fn maybe_gc(&mut self) {}\n"
NOOP_DROP = "impl Drop for VmGreenThread {\n    fn drop(&mut self) {}\n}"
LOC_OLD = ("#[derive(Clone, Debug)]\npub struct VmErrorLocation {\n    filename: String,\n    lineno: u32,\n"
           "    function_name: String,\n}")
LOC_NEW = ("#[derive(Clone, Copy, Debug)]\npub struct VmErrorLocation {\n    filename: &'static str,\n    lineno: u32,\n"
           "    function_name: &'static str,\n}")
LOCV_OLD = "            filename: String::new(),\n            lineno: 0,\n            function_name: String::new(),\n"
LOCV_NEW = "            filename: \"\",\n            lineno: 0,\n            function_name: \"\",\n"

U8_ASSUMED = [
    "kani/U8: VmGreenThread::step replaced by a contract-only nondeterministic stub (harness.rs `u8_step`): one call = one "
    "instruction; outcome in {continue, Stop, error of one of the 4 documented kinds, HostFunc(any id), SpawnTask (<= 1 per run), "
    "stack push/pop/overwrite}; every outcome that sets a status flag sets exactly one and returns false (what u1/u2/u3/u4a/u5 prove arm by arm)",
    "kani/U8: maybe_gc replaced by a no-op in the scheduler harnesses; the real text is kept as maybe_gc_real and proved to be a no-op on "
    "an empty-heap thread (obligation C11.sched.gc_neutral) - heaps are empty in this unit (RI4)",
    "kani/U8: `impl Drop for VmGreenThread` (frees the thread's heap objects) replaced by an empty body: heaps are empty in this unit",
    "kani/U8: VmErrorLocation's two String fields retyped to &'static str (+Copy): the scheduler only moves/clones Box<VmError>; "
    "String/Vec drop-and-clone loops at every possible drop site made CBMC's symex 4x slower; all locations are empty here",
    "kani/U8: own shim (units/u8_sched/shim.rs): VecDeque and mpsc channel are fixed-capacity (8) FIFO ring buffers, Sender/Arc never free "
    "their shared cell (no recursive drop glue); FIFO semantics assumed for std's VecDeque/mpsc",
    "kani/U8: initial Runtime states are exactly those satisfying the representation invariant RI1-RI5 stated at the top of harness.rs; "
    "RI is proved to hold after Runtime::new and to be preserved by run_n_steps (C11.sched.invariant), and is preserved by the embedder "
    "API clear_pending_host_func/push_*/pop_* (they touch neither done, error nor the queue)",
    "kani/U8: feature `ffi` off (default build): pending_ffi_call is always None, new_threads carries only spawned (non-main) threads",
]


def _rep1(text, old, new, what, counts):
    k = text.count(old)
    if k != 1:
        raise S.SliceError("u8: anchor for %s found %d times" % (what, k))
    counts[what] = 1
    return text.replace(old, new)


def build(dirpath, arms=(), harness_src="", stub_loc=True, replace_methods=None):
    """vmk.build + the U8 replacements (each anchored and counted)."""
    stub = open(os.path.join(HERE, 'step_stub.rs')).read().rstrip('\n')
    gc = S.method(V, r'impl VmGreenThread \{', 'maybe_gc', with_attrs=False)
    if gc.count('pub fn maybe_gc(&mut self)') != 1:
        raise S.SliceError("u8: maybe_gc header not found")
    gc2 = NOOP_GC + gc.replace('pub fn maybe_gc(&mut self)', 'pub fn maybe_gc_real(&mut self)')
    rm = dict(replace_methods or {})
    rm.update({'step': stub, 'maybe_gc': gc2})
    info = _ORIG_BUILD(dirpath, arms=arms, harness_src=harness_src, stub_loc=stub_loc, replace_methods=rm)
    counts = info['rewrites']
    p = os.path.join(dirpath, 'src', 'vm.rs')
    src = open(p).read()
    drop = S.item(V, r'impl Drop for VmGreenThread \{')
    src = _rep1(src, drop, NOOP_DROP, "U8:drop", counts)
    src = _rep1(src, LOC_OLD, LOC_NEW, "U8:loc_type", counts)
    src = _rep1(src, LOCV_OLD, LOCV_NEW, "U8:loc_value", counts)
    with open(p, 'w') as f:
        f.write(src)
    with open(os.path.join(dirpath, 'src', 'shim.rs'), 'w') as f:
        f.write(open(os.path.join(HERE, 'shim.rs')).read())
    counts["U8:shim"] = 1
    return info


_ORIG_BUILD = vmk.build

# ----------------------------------------------------------------------------- native-exhaustive back end
NATIVE_CARGO = """[package]
name = "u8n"
version = "0.1.0"
edition = "2024"
[lib]
path = "src/lib.rs"
[[bin]]
name = "u8n"
path = "src/main.rs"
[dependencies]
[lints.rust]
unexpected_cfgs = { level = "allow" }
[profile.release]
opt-level = 2
overflow-checks = true
debug-assertions = true
debug = false
[workspace]
"""
NATIVE_LIB = """#![allow(dead_code, unused_imports, unused_variables, non_snake_case, unused_mut, unused_macros, static_mut_refs, private_interfaces, clippy::all)]
pub mod kani;
pub mod shim;
pub mod vm;
"""


def build_native(dirpath):
    """vm.rs verbatim with K1/K2 (imports -> crate::shim which re-exports the REAL std types), K3
    (fail -> bare panic), step -> stub.  Real maybe_gc, real Drop, real VmErrorLocation."""
    stub = open(os.path.join(HERE, 'step_stub.rs')).read().rstrip('\n')
    hsrc = open(os.path.join(HERE, 'harness.rs')).read()
    info = _ORIG_BUILD(dirpath, arms=[], harness_src=hsrc, stub_loc=False, replace_methods={'step': stub})
    counts = info['rewrites']
    p = os.path.join(dirpath, 'src', 'vm.rs')
    src = open(p).read()
    src = _rep1(src, "use crate::shim::{BytecodeIndex, CompiledProgram};",
                "use crate::kani;\nuse crate::shim::{BytecodeIndex, CompiledProgram};", "N:use_kani", counts)
    with open(p, 'w') as f:
        f.write(src)
    for name, text in (("Cargo.toml", NATIVE_CARGO), ("src/lib.rs", NATIVE_LIB)):
        with open(os.path.join(dirpath, name), 'w') as f:
            f.write(text)
    for name, srcname in (("src/shim.rs", "native_shim.rs"), ("src/kani.rs", "native_kani.rs"), ("src/main.rs", "native_main.rs")):
        with open(os.path.join(dirpath, name), 'w') as f:
            f.write(open(os.path.join(HERE, srcname)).read())
    os.makedirs(os.path.join(dirpath, ".cargo"), exist_ok=True)
    with open(os.path.join(dirpath, ".cargo", "config.toml"), 'w') as f:
        f.write('[build]\nrustflags = ["--cfg", "kani", "--cfg", "u8_native"]\n')
    return info


def run_native(dirpath, names, timeout=900):
    """-> {name: dict(runs, discarded, failures=[{msg, choices}], covers=[[msg, hits]], time_s, truncated)} or raises Undecided"""
    import json
    import subprocess
    env = dict(os.environ)
    env["CARGO_NET_OFFLINE"] = "true"
    env["CARGO_TARGET_DIR"] = os.path.join(dirpath, "target-native")
    p = subprocess.run(["timeout", "600", "cargo", "build", "--release", "--offline", "--quiet"], cwd=dirpath, env=env,
                       capture_output=True, text=True)
    if p.returncode != 0:
        raise E.Undecided("u8 native crate does not compile:\n" + p.stderr[-4000:])
    exe = os.path.join(env["CARGO_TARGET_DIR"], "release", "u8n")
    out = {}
    p = subprocess.run(["timeout", str(timeout), exe] + list(names), cwd=dirpath, capture_output=True, text=True)
    for line in p.stdout.split("\n"):
        line = line.strip()
        if line.startswith("{"):
            try:
                j = json.loads(line)
                out[j["harness"]] = j
            except Exception:
                pass
    return out, p.returncode, p.stderr[-2000:]


# ----------------------------------------------------------------------------- obligations
P11 = ["C11"]
BN = ("exhaustive explicit-state execution of the natively compiled real scheduler: run_queue length 0..3 at entry (every RI "
      "state: main at any position or already finished, every thread runnable / waiting for the host / errored), budget 0..%d, "
      "<= %d SpawnTask per run; control choices exhaustive; data the scheduler never inspects (host-function id, stack values, "
      "error kind of non-main tasks) from representative sets")
BK = "Kani/CBMC, run_queue length <= %d at entry (all flag combinations of RI, all u16 ids / Values symbolic); loop-free call"


HEAVY = ("host_call_3", "top_3")  # > 10^8 executions at the thorough bounds: kept at the quick bounds


def _hl(prefix, lo, hi):
    return ["%s_%d" % (prefix, n) for n in range(lo, hi + 1)]


# native-exhaustive table: id, props, fn, harnesses, text
NT = [
    dict(id="C11.run_n_steps.budget", props=P11, fn="Runtime::run_n_steps / run_threads_round_robin", h=_hl("budget", 0, 3),
         text="run_n_steps(k).steps_consumed <= k and == number of step() calls actually made (ghost counter), on every scheduling path; "
              "no step() on a thread that is pending/errored/done"),
    dict(id="C11.status.done_iff_main_done", props=P11, fn="Runtime::run_n_steps / finish_thread_turn / update_status_helper",
         h=_hl("done_iff", 0, 3) + _hl("repeat_done", 1, 3),
         text="kind == Done <=> the main thread has executed Stop (now or in an earlier call), whatever the other threads do; the stopped "
              "main thread is kept as finished_main_thread and leaves the queue; once Done, every further call reports Done"),
    dict(id="C11.status.error_never_done", props=P11, fn="Runtime::update_status_helper / VmGreenThread::status", h=_hl("err", 0, 3) + _hl("repeat_err", 1, 3),
         text="main.error.is_some() => MainThreadError carrying that error's kind (never Done / OutOfSteps / PendingHostFunc), and it stays "
              "reported on further calls; MainThreadError only if the main thread has an error"),
    dict(id="C11.status.pending_host", props=P11 + ["C10"], fn="Runtime::update_status_helper / VmGreenThread::status", h=_hl("pending", 0, 3),
         text="status = Done if main stopped, else PendingHostFunc if main waits for the host, else MainThreadError(kind) if main errored, else "
              "PendingHostFunc if any queued task waits, else OutOfSteps; PendingHostFunc => a waiting thread is reachable through iter_threads_mut"),
    dict(id="C11.top.is_final_value", props=P11, fn="Runtime::top / main / try_get_main", h=_hl("top", 0, 3),
         text="after Done, Runtime::top() == the last stack slot the main thread had when it executed Stop (main found through "
              "finished_main_thread), with stack pushes/pops/overwrites on every thread"),
    dict(id="C10.sched.single_thread.split", props=["C10"], fn="Runtime::run_n_steps", h=["split"],
         text="one thread, no tasks, step() made deterministic by a script indexed by the thread's own step counter: run_n_steps(k1); "
              "run_n_steps(k2) executes the same number of instructions, ends in the same status and thread state as run_n_steps(k1+k2); "
              "a status other than OutOfSteps is stable under further budget"),
    dict(id="C10.sched.host_call.blocks_only_caller", props=["C10", "C11"], fn="Runtime::run_threads_round_robin / VmGreenThread::can_run / clear_pending_host_func",
         h=_hl("host_call", 1, 2), h_thorough=["host_call_3"],
         text="a thread with pending_host_func executes nothing and keeps waiting while every runnable thread is served in queue order; after "
              "iter_threads_mut + clear_pending_host_func it runs again within one round"),
    dict(id="C11.sched.no_starvation_accounting", props=P11 + ["C10"], fn="Runtime::run_threads_round_robin (skipped_threads)", h=_hl("starve", 0, 3),
         text="the loop terminates; budget is left over only if Done or no queued thread can run; OutOfSteps => steps_consumed == k"),
    dict(id="C11.validate.no_panic", props=P11, fn="VmGreenThread::validate / Runtime::main", h=_hl("nopanic", 0, 3) + _hl("repeat_nopanic", 1, 3),
         text="run_n_steps (also called repeatedly without servicing anything) never reaches the panics of validate() and main() never "
              "unwraps None, from every RI state; overflow checks on"),
    dict(id="C11.sched.invariant", props=P11 + ["C10"], fn="Runtime::new / run_n_steps", h=_hl("inv", 0, 3) + ["ri_init"],
         text="the representation invariant RI1-RI3 (harness.rs) holds after Runtime::new and is preserved by run_n_steps; the new_threads "
              "channel is empty on return"),
    dict(id="C11.sched.aux_contracts.native", props=P11, fn="update_status_helper / finish_thread_turn / top / maybe_gc",
         h=_hl("status_only", 0, 3) + _hl("top_only", 0, 3) + ["finish_turn_contract", "finish_turn_main", "gc_neutral", "smoke"],
         text="native twins of the Kani harnesses below (same source text): cross-check of the two back ends"),
]
# kani table (loop-free calls only; quick tier: queue length <= 2)
KT = [
    dict(h="status_only", hi=3, hi_quick=1, id="C11.status.update_status_helper.kani", props=P11, fn="Runtime::update_status_helper",
         text="on every RI state: status precedence as in C11.status.pending_host; Done <=> main finished; main error => MainThreadError(kind)"),
    dict(h="top_only", hi=1, hi_quick=0, id="C11.top.main_lookup.kani", props=P11, fn="Runtime::top / main / try_get_main",
         text="on every RI state with a non-empty main stack: main() is the main thread (queued or finished) and top() its last slot (all Values)"),
    dict(h=["finish_turn_contract", "finish_turn_main"], id="C11.sched.finish_thread_turn.kani", props=P11 + ["C10"], fn="Runtime::finish_thread_turn",
         text="returns true exactly for a done main thread (stored as finished_main_thread); a done non-main thread is dropped; any other "
              "thread is queued at the back (all flag combinations)"),
    dict(h=["ri_init"], id="C11.sched.invariant.init.kani", props=P11, fn="Runtime::new", text="RI holds after Runtime::new (empty program)"),
    dict(h=["gc_neutral"], id="C11.sched.gc_neutral.kani", props=P11, fn="VmGreenThread::maybe_gc",
         text="the real maybe_gc is a no-op on an empty-heap thread (justifies the no-op stand-in of the CBMC build)"),
]


def _kani_table(tier):
    t = []
    for r in KT:
        r = dict(r)
        if isinstance(r['h'], str):
            n = r.pop('hi') if tier == "thorough" else r.pop('hi_quick')
            r.pop('hi', None)
            r.pop('hi_quick', None)
            r['bounded'] = BK % n
            r['h'] = ["vm::u8s::%s_%d" % (r['h'], k) for k in range(0, n + 1)]
        else:
            r['bounded'] = {"C11.sched.invariant.init.kani": "empty CompiledProgram (the queue set-up of Runtime::new does not depend on the program)",
                            "C11.sched.gc_neutral.kani": "fresh thread with one (symbolic) stack value"}.get(r['id'], BK % 1)
            r['h'] = ["vm::u8s::" + x for x in r['h']]
        t.append(r)
    return t


def check_flag_sites():
    """Syntactic bridge between the stub contract and the real text: in `fn step`, every statement that sets
    error / done / pending_host_func / pending_ffi_call is immediately followed by `return false;`."""
    body = S.method(V, r'impl VmGreenThread \{', 'step', with_attrs=False)
    sites, bad = 0, []
    for m in re.finditer(r'self\.(?:error|pending_host_func|pending_ffi_call)\s*=\s*Some\(|self\.done\s*=\s*true', body):
        i, depth = m.start(), 0
        while i < len(body):
            c = body[i]
            if c in '([{':
                depth += 1
            elif c in ')]}':
                depth -= 1
            elif c == ';' and depth == 0:
                break
            i += 1
        rest = body[i + 1:]
        rest = re.sub(r'^(?:\s|//[^\n]*\n)+', '', rest)
        sites += 1
        if not rest.startswith("return false;"):
            bad.append(body[m.start():i + 1].split("\n")[0][:120])
    return sites, bad, S.sha(body)


def _native_obligations(tier, sc, want):
    table = [r for r in NT if (not want or want in r['props'])]
    table = [dict(r, h=r['h'] + (r.get('h_thorough', []) if tier == 'thorough' else [])) for r in table]
    if not table:
        return [], {}
    maxk, spawns = (5, 2) if tier == "thorough" else (4, 1)
    build_native(sc)
    names = []
    for r in table:
        for h in r['h']:
            if h not in names:
                names.append(h)
    heavy = [h for h in names if h in HEAVY] if tier == "thorough" else []
    res, rc, err = {}, 0, ""
    for group, (mk, sp) in (([h for h in names if h not in heavy], (maxk, spawns)), (heavy, (4, 1))):
        if not group:
            continue
        os.environ["U8_MAXK"], os.environ["U8_SPAWNS"] = str(mk), str(sp)
        try:
            r1, rc1, err1 = run_native(sc, group, timeout=1800 if tier == "thorough" else 600)
        finally:
            os.environ.pop("U8_MAXK", None)
            os.environ.pop("U8_SPAWNS", None)
        res.update(r1)
        rc, err = rc or rc1, err + err1
    sha = S.sha(S.item(V, r'impl Runtime \{') + S.method(V, r'impl VmGreenThread \{', 'run_n_steps') + S.method(V, r'impl VmGreenThread \{', 'validate')
                + S.method(V, r'impl VmGreenThread \{', 'can_run') + S.method(V, r'impl VmGreenThread \{', 'status'))
    obs, notes = [], {}
    for r in table:
        parts = [res.get(h) for h in r['h']]
        st, detail, cex = E.DISCHARGED, "", None
        t = sum(p['time_s'] for p in parts if p)
        runs = sum(p['runs'] for p in parts if p)
        if any(p is None or p.get('error') for p in parts):
            st, detail = E.UNDECIDED, "no result from the native driver for %s (rc=%s) %s" % ([h for h, p in zip(r['h'], parts) if not p], rc, err[-600:])
        else:
            fails = [(h, f) for h, p in zip(r['h'], parts) for f in p['failures']]
            if fails:
                st = E.FAILED
                detail = "\n".join("%s: %s  choices=%s" % (h, f['msg'], f['choices']) for h, f in fails[:4])
                cex = dict(harness=fails[0][0], message=fails[0][1]['msg'], choices=fails[0][1]['choices'])
            elif any(p['truncated'] for p in parts):
                st, detail = E.UNDECIDED, "enumeration truncated (U8_MAX_RUNS)"
            elif not any(hits > 0 for p in parts for _, hits in p['covers']):
                st, detail = E.UNDECIDED, "vacuity guard: no cover statement reached"
        notes[r['id']] = dict(executions=runs, covers={h: p['covers'] for h, p in zip(r['h'], parts) if p})
        bound = BN % (maxk, spawns)
        if any(h in heavy for h in r['h']):
            bound += "; the 3-thread case of this obligation with budget <= 4 and <= 1 spawn"
        obs.append(E.Obligation(r['id'], r['props'], UNIT, r['fn'], "native-exhaustive", st, detail, t, V, sha,
                                bound, r['text'], cex=cex))
    return obs, notes


def run(tier="quick"):
    want = os.environ.get("ABRA_VERIF_PROP")
    obs, notes = [], {}
    # 1. syntactic bridge stub <-> real step()
    if not want or want in ("C11", "C10"):
        sites, bad, sha = check_flag_sites()
        st = E.DISCHARGED if (sites >= 10 and not bad) else (E.FAILED if bad else E.UNDECIDED)
        obs.append(E.Obligation("C11.step.flag_sites_return_false", ["C11", "C10"], UNIT, "VmGreenThread::step", "syntactic", st,
                                "\n".join(bad[:6]) if bad else ("" if sites >= 10 else "only %d flag sites found (anchor lost?)" % sites),
                                0.0, V, sha, None,
                                "every statement of step() that sets error / done / pending_host_func / pending_ffi_call is immediately followed "
                                "by `return false;` (%d sites) - the shape the step stub assumes" % sites))
        notes["flag_sites"] = sites
    # 2. native-exhaustive back end (all obligations)
    sc = E.Scratch("u8n")
    try:
        o2, n2 = _native_obligations(tier, sc.path, want)
        obs += o2
        notes["native"] = n2
    finally:
        sc.cleanup()
    # 3. Kani on the loop-free calls
    if os.environ.get("ABRA_U8_NO_KANI"):
        return obs, dict(assumptions=U8_ASSUMED, trusted_base=[], checker_cmds=[], notes=notes)
    vmk.build = build
    try:
        o3, info = vmk.run_table(UNIT, "u8", [], os.path.join(HERE, "harness.rs"), _kani_table(tier), timeout=600, jobs=3,
                                 extra_info=dict(assumptions=U8_ASSUMED))
    finally:
        vmk.build = _ORIG_BUILD
    obs += o3
    info.setdefault('notes', {}).update(notes)
    info['assumptions'] = list(info.get('assumptions', [])) + [
        "native/U8: same step stub and RI as the Kani build; everything else is the real vm.rs text on the real std (VecDeque, mpsc, Arc, "
        "Mutex), real maybe_gc, real Drop; only rewrites: imports K1/K2 (-> re-exports of std), K3 (fail -> bare panic), step -> stub",
        "native/U8: exhaustiveness of the enumeration rests on units/u8_sched/native_kani.rs (odometer over choice points, replay determinism "
        "checked at run time) - cross-checked against CBMC on the harnesses both back ends run",
    ]
    info['trusted_base'] = list(info.get('trusted_base', [])) + ["rustc 1.95 native build (release, overflow-checks + debug-assertions on)",
                                                               "units/u8_sched/native_kani.rs (170-line exhaustive enumerator)"]
    info['checker_cmds'] = list(info.get('checker_cmds', [])) + [
        "cargo build --release --offline && ./u8n <harness>...   (crate = vm.rs verbatim + step stub + harness.rs; cfg kani,u8_native)"]
    return obs, info


CANNED = {
    # behaviour reports (not violations of C11): replayed on the real CLI
    "task_error_is_silent": ('task {\n  let a = [1,2,3]\n  println(a[5])\n  println("task after error")\n}\nvar i = 0\n'
                             'while i < 2000 { i = i + 1 }\nprintln("main done")\n'),
    "main_error_reported": 'task {\n  var i = 0\n  while i < 100000 { i = i + 1 }\n}\nlet a = [1]\nprintln(a[3])\nprintln("unreachable")\n',
}


EMBED_CARGO = """[package]
name = "u8embed"
version = "0.1.0"
edition = "2024"
[dependencies]
abra_core = { path = "%s/abra_core" }
[workspace]
"""


def run_embedder(timeout=1500):
    """Build units/u8_sched/embed_main.rs against the REAL abra_core crate of the current tree (real step()) and run it:
    5 task-free programs x 13 budget sequences x 3 service delays must agree on output / status / error / total
    steps_consumed / top(); steps_consumed <= k on every call.  -> dict or None"""
    import json
    import subprocess
    sc = E.Scratch("u8e")
    try:
        os.makedirs(os.path.join(sc.path, "src"))
        with open(os.path.join(sc.path, "Cargo.toml"), "w") as f:
            f.write(EMBED_CARGO % E.REPO)
        for dst, src in (("src/main.rs", "embed_main.rs"), ("src/hostgen.rs", "embed_hostgen.rs")):
            with open(os.path.join(sc.path, dst), "w") as f:
                f.write(open(os.path.join(HERE, src)).read())
        env = dict(os.environ, CARGO_NET_OFFLINE="true", CARGO_TARGET_DIR=os.path.join(sc.path, "target"))
        b = subprocess.run(["timeout", str(timeout), "cargo", "build", "--offline", "--quiet"], cwd=sc.path, env=env, capture_output=True, text=True)
        if b.returncode != 0:
            return dict(error="embedder does not build: " + b.stderr[-800:])
        r = subprocess.run(["timeout", "300", os.path.join(sc.path, "target", "debug", "u8embed")], capture_output=True, text=True)
        out = dict(stdout=r.stdout[-2500:], exit_code=r.returncode)
        m = re.search(r'^RESULT (\{.*\})$', r.stdout, re.M)
        if m:
            out.update(json.loads(m.group(1)))
        return out
    finally:
        sc.cleanup()


def replay(ob):
    """native obligations: the counterexample IS a concrete execution of the natively compiled real scheduler; re-run it.
    status obligations additionally get the real CLI's view of a main-thread error."""
    import abra_cli
    extra = {}
    confirmed = None
    if ob.backend == "native-exhaustive" and ob.cex:
        sc = E.Scratch("u8r")
        try:
            build_native(sc.path)
            res, rc, err = run_native(sc.path, [ob.cex['harness']], timeout=600)
            r = res.get(ob.cex['harness'])
            if r is not None:
                confirmed = True if r['failures'] else False
                extra['native_rerun'] = dict(failures=r['failures'][:2], runs=r['runs'])
        finally:
            sc.cleanup()
    if ob.status != E.DISCHARGED and ob.id in ("C11.run_n_steps.budget", "C10.sched.single_thread.split", "C11.status.done_iff_main_done",
                                               "C11.top.is_final_value", "C11.status.error_never_done"):
        # differential run on the real crate (real step()); can only strengthen a confirmation, never refute one
        r = run_embedder()
        extra['real_crate_embedder'] = r
        if r and (r.get('mismatches', 0) > 0 or r.get('exit_code', 0) not in (0, None)):
            confirmed = True
    if ob.id.startswith("C11.status.error"):
        out, err, rc = abra_cli.run_program(CANNED["main_error_reported"], timeout=20)
        extra['cli_main_error'] = dict(stdout=out[:200], stderr=err[:300], exit_code=rc)
        if confirmed is None and (rc == 0 or "indexed past the end" not in err):
            confirmed = True
    return confirmed, extra
