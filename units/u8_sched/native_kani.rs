//! Native stand-in for the `kani` crate: EXHAUSTIVE explicit-state enumeration.
//! Every `choose(n)` is a choice point with a finite domain; `explore(f)` re-executes
//! `f` once per complete choice sequence (depth-first, odometer order), so every
//! resolution of the harness's nondeterminism within its bounds is executed on the
//! natively compiled real code.  `assume(false)` discards the current run; a panic
//! (assert!, unwrap, panic!) is a counterexample and is reported with its choice
//! sequence.  `cover!` records that a condition was hit at least once.
#![allow(dead_code)]
use std::cell::RefCell;
use std::collections::BTreeMap;

pub struct AssumeFailed;

#[derive(Default)]
pub struct State {
    pub trail: Vec<(u32, u32)>, // (chosen value, domain size)
    pub pos: usize,
    pub covers: BTreeMap<&'static str, u64>,
    pub last_panic: Option<String>,
}
thread_local! {
    pub static ST: RefCell<State> = RefCell::new(State::default());
}

/// the choice point: a value in 0..n
pub fn choose(n: u32) -> u32 {
    assert!(n > 0);
    ST.with(|s| {
        let mut s = s.borrow_mut();
        let p = s.pos;
        if p == s.trail.len() {
            s.trail.push((0, n));
        } else if s.trail[p].1 != n {
            // the program is deterministic given the choices: same prefix => same domain
            panic!("native_kani: non-deterministic replay");
        }
        s.pos += 1;
        s.trail[p].0
    })
}

pub trait Arbitrary: Sized {
    fn any() -> Self;
}
impl Arbitrary for bool {
    fn any() -> Self {
        choose(2) == 1
    }
}
// integers: representative values only (data the scheduler never inspects);
// control-relevant choices must go through `choose`/`u8_pick`
impl Arbitrary for u8 {
    fn any() -> Self {
        [0u8, 1, 255][choose(3) as usize]
    }
}
impl Arbitrary for u16 {
    fn any() -> Self {
        [0u16, 65535][choose(2) as usize]
    }
}
impl Arbitrary for u32 {
    fn any() -> Self {
        [0u32, 1, u32::MAX][choose(3) as usize]
    }
}
impl Arbitrary for u64 {
    fn any() -> Self {
        [0u64, 1, u64::MAX][choose(3) as usize]
    }
}
impl Arbitrary for i64 {
    fn any() -> Self {
        [0i64, -1, i64::MIN, i64::MAX][choose(4) as usize]
    }
}
impl Arbitrary for usize {
    fn any() -> Self {
        [0usize, 1, usize::MAX][choose(3) as usize]
    }
}
pub fn any<T: Arbitrary>() -> T {
    T::any()
}
pub fn assume(c: bool) {
    if !c {
        std::panic::resume_unwind(Box::new(AssumeFailed));
    }
}
pub fn cover_hit(name: &'static str, c: bool) {
    ST.with(|s| {
        let mut s = s.borrow_mut();
        let e = s.covers.entry(name).or_insert(0);
        if c {
            *e += 1;
        }
    })
}
macro_rules! cover {
    ($c:expr, $m:expr) => {
        $crate::kani::cover_hit($m, $c)
    };
    ($c:expr) => {
        $crate::kani::cover_hit("cover", $c)
    };
}
pub(crate) use cover;

pub struct Report {
    pub runs: u64,
    pub discarded: u64,
    pub failures: Vec<(String, Vec<(u32, u32)>)>,
    pub covers: BTreeMap<&'static str, u64>,
    pub max_choices: usize,
    pub truncated: bool,
}

/// run `f` under every choice sequence; stop after `max_fail` counterexamples or `max_runs`
pub fn explore(f: &dyn Fn(), max_fail: usize, max_runs: u64) -> Report {
    std::panic::set_hook(Box::new(|info| {
        let msg = if let Some(s) = info.payload().downcast_ref::<&str>() {
            s.to_string()
        } else if let Some(s) = info.payload().downcast_ref::<String>() {
            s.clone()
        } else {
            "panic".to_string()
        };
        let loc = info.location().map(|l| format!(" @ {}:{}", l.file(), l.line())).unwrap_or_default();
        ST.with(|s| s.borrow_mut().last_panic = Some(format!("{}{}", msg, loc)));
    }));
    ST.with(|s| *s.borrow_mut() = State::default());
    let mut rep = Report { runs: 0, discarded: 0, failures: vec![], covers: BTreeMap::new(), max_choices: 0, truncated: false };
    loop {
        ST.with(|s| {
            let mut s = s.borrow_mut();
            s.pos = 0;
            s.last_panic = None;
        });
        let r = std::panic::catch_unwind(std::panic::AssertUnwindSafe(|| f()));
        rep.runs += 1;
        match r {
            Ok(()) => {}
            Err(e) => {
                if e.downcast_ref::<AssumeFailed>().is_some() {
                    rep.discarded += 1;
                } else {
                    let (msg, trail) = ST.with(|s| {
                        let s = s.borrow();
                        (s.last_panic.clone().unwrap_or_else(|| "panic".into()), s.trail[..s.pos].to_vec())
                    });
                    rep.failures.push((msg, trail));
                    if rep.failures.len() >= max_fail {
                        rep.truncated = true;
                        break;
                    }
                }
            }
        }
        // advance the odometer: drop unused suffix, increment last digit with carry
        let more = ST.with(|s| {
            let mut s = s.borrow_mut();
            let used = s.pos;
            s.trail.truncate(used);
            if used > rep.max_choices {
                rep.max_choices = used;
            }
            loop {
                match s.trail.last_mut() {
                    None => return false,
                    Some(last) => {
                        if last.0 + 1 < last.1 {
                            last.0 += 1;
                            return true;
                        }
                    }
                }
                s.trail.pop();
            }
        });
        if !more {
            break;
        }
        if rep.runs >= max_runs {
            rep.truncated = true;
            break;
        }
    }
    rep.covers = ST.with(|s| s.borrow().covers.clone());
    let _ = std::panic::take_hook();
    rep
}
