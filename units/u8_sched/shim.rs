//! U8 variant of units/vmk/shim.rs: same API, but
//!  * VecDeque and the mpsc channel are FIXED-CAPACITY ring buffers (CAP slots, no
//!    reallocation, no memmove): CBMC's cost per scheduler-loop iteration roughly doubled
//!    with the Vec-backed shim (26 s / 40 s / 70 s for 1 / 2 / 3 unrolled iterations of a
//!    ONE-thread queue).  Overflow of CAP is an assertion failure (never reached within
//!    the unit's bounds: <= 4 queued threads, <= 1 spawned thread in flight);
//!  * dropping a Sender / Arc never frees the shared cell (ManuallyDrop): otherwise the
//!    drop glue of Box<VmGreenThread> -> Sender -> queue of Box<VmGreenThread> is
//!    recursive and CBMC unwinds it at every place a thread may be dropped.
//! ASSUMPTION (listed in evidence): std's Arc is a shared pointer, Mutex::lock gives
//! exclusive access, VecDeque and mpsc channels are FIFO, and none of them fails
//! within these capacities.
#![allow(dead_code)]
use std::cell::{RefCell, RefMut};
use std::marker::PhantomData;
use std::mem::ManuallyDrop;
use std::ops::Deref;
use std::rc::Rc;

pub type BytecodeIndex = u32;

#[derive(Debug, Clone)]
pub struct CompiledProgram {
    pub(crate) instructions: Vec<crate::vm::Instr>,
    pub(crate) int_constants: Vec<i64>,
    pub(crate) float_constants: Vec<f64>,
    pub(crate) static_strings: Vec<String>,
    pub(crate) filename_arena: Vec<String>,
    pub(crate) function_name_arena: Vec<String>,
    pub(crate) filename_table: Vec<(BytecodeIndex, u32)>,
    pub(crate) lineno_table: Vec<(BytecodeIndex, u32)>,
    pub(crate) function_name_table: Vec<(BytecodeIndex, u32)>,
}

pub struct Arc<T>(ManuallyDrop<Rc<T>>);
impl<T> Arc<T> {
    pub fn new(t: T) -> Self {
        Arc(ManuallyDrop::new(Rc::new(t)))
    }
    pub fn ptr_eq(a: &Self, b: &Self) -> bool {
        Rc::ptr_eq(&a.0, &b.0)
    }
    // further std::sync::Arc API an edit of vm.rs may plausibly use (counts: handles are never released in this shim)
    pub fn strong_count(a: &Self) -> usize {
        Rc::strong_count(&a.0)
    }
    pub fn as_ptr(a: &Self) -> *const T {
        Rc::as_ptr(&a.0)
    }
}
impl<T> Clone for Arc<T> {
    fn clone(&self) -> Self {
        Arc(ManuallyDrop::new(Rc::clone(&self.0)))
    }
}
impl<T> Deref for Arc<T> {
    type Target = T;
    fn deref(&self) -> &T {
        &self.0
    }
}

pub struct Mutex<T>(RefCell<T>);
impl<T> Mutex<T> {
    pub fn new(t: T) -> Self {
        Mutex(RefCell::new(t))
    }
    pub fn lock(&self) -> Result<RefMut<'_, T>, ()> {
        Ok(self.0.borrow_mut())
    }
    pub fn try_lock(&self) -> Result<RefMut<'_, T>, ()> {
        self.0.try_borrow_mut().map_err(|_| ())
    }
}

pub const CAP: usize = 8;

/// FIFO queue with the VecDeque API subset vm.rs uses; fixed capacity ring buffer.
pub struct VecDeque<T> {
    slots: [Option<T>; CAP],
    head: usize,
    len: usize,
}
impl<T> std::fmt::Debug for VecDeque<T> {
    fn fmt(&self, _f: &mut std::fmt::Formatter<'_>) -> std::fmt::Result {
        Ok(())
    }
}
#[inline]
fn wrap(i: usize) -> usize {
    if i >= CAP { i - CAP } else { i }
}
impl<T> VecDeque<T> {
    pub fn new() -> Self {
        VecDeque { slots: [const { None }; CAP], head: 0, len: 0 }
    }
    pub fn from<const N: usize>(a: [T; N]) -> Self {
        let mut q = Self::new();
        for t in a {
            q.push_back(t);
        }
        q
    }
    pub fn push_back(&mut self, t: T) {
        assert!(self.len < CAP, "u8 shim: FIFO capacity exceeded");
        let i = wrap(self.head + self.len);
        self.slots[i] = Some(t);
        self.len += 1;
    }
    pub fn pop_front(&mut self) -> Option<T> {
        if self.len == 0 {
            None
        } else {
            let v = self.slots[self.head].take();
            self.head = wrap(self.head + 1);
            self.len -= 1;
            v
        }
    }
    pub fn len(&self) -> usize {
        self.len
    }
    pub fn is_empty(&self) -> bool {
        self.len == 0
    }
    /// i-th element in FIFO order (std's VecDeque::get)
    pub fn get(&self, i: usize) -> Option<&T> {
        if i < self.len { self.slots[wrap(self.head + i)].as_ref() } else { None }
    }
    pub fn get_mut(&mut self, i: usize) -> Option<&mut T> {
        if i < self.len { self.slots[wrap(self.head + i)].as_mut() } else { None }
    }
    pub fn front(&self) -> Option<&T> {
        self.get(0)
    }
    pub fn back(&self) -> Option<&T> {
        if self.len == 0 { None } else { self.get(self.len - 1) }
    }
    pub fn front_mut(&mut self) -> Option<&mut T> {
        self.get_mut(0)
    }
    pub fn push_front(&mut self, t: T) {
        assert!(self.len < CAP, "u8 shim: FIFO capacity exceeded");
        self.head = wrap(self.head + CAP - 1);
        self.slots[self.head] = Some(t);
        self.len += 1;
    }
    pub fn pop_back(&mut self) -> Option<T> {
        if self.len == 0 {
            None
        } else {
            let v = self.slots[wrap(self.head + self.len - 1)].take();
            self.len -= 1;
            v
        }
    }
    pub fn iter(&self) -> Iter<'_, T> {
        Iter { q: self, i: 0 }
    }
    pub fn iter_mut(&mut self) -> IterMut<'_, T> {
        IterMut { head: self.head, len: self.len, i: 0, slots: &mut self.slots as *mut [Option<T>; CAP], _m: PhantomData }
    }
}
pub struct Iter<'a, T> {
    q: &'a VecDeque<T>,
    i: usize,
}
impl<'a, T> Iterator for Iter<'a, T> {
    type Item = &'a T;
    fn next(&mut self) -> Option<&'a T> {
        if self.i < self.q.len {
            let r = self.q.slots[wrap(self.q.head + self.i)].as_ref();
            self.i += 1;
            r
        } else {
            None
        }
    }
}
pub struct IterMut<'a, T> {
    slots: *mut [Option<T>; CAP],
    head: usize,
    len: usize,
    i: usize,
    _m: PhantomData<&'a mut T>,
}
impl<'a, T> Iterator for IterMut<'a, T> {
    type Item = &'a mut T;
    fn next(&mut self) -> Option<&'a mut T> {
        if self.i < self.len {
            let k = wrap(self.head + self.i);
            self.i += 1;
            // distinct slots on every call: no aliasing
            unsafe { (&mut (*self.slots))[k].as_mut() }
        } else {
            None
        }
    }
}

pub mod mpsc {
    use super::VecDeque;
    use std::cell::RefCell;
    use std::mem::ManuallyDrop;
    use std::rc::Rc;
    pub struct Sender<T>(pub ManuallyDrop<Rc<RefCell<VecDeque<T>>>>);
    pub struct Receiver<T>(pub Rc<RefCell<VecDeque<T>>>);
    impl<T> Clone for Sender<T> {
        fn clone(&self) -> Self {
            Sender(ManuallyDrop::new(Rc::clone(&self.0)))
        }
    }
    impl<T> Sender<T> {
        pub fn send(&self, t: T) -> Result<(), ()> {
            self.0.borrow_mut().push_back(t);
            Ok(())
        }
    }
    impl<T> Receiver<T> {
        pub fn try_recv(&self) -> Result<T, ()> {
            match self.0.borrow_mut().pop_front() {
                Some(t) => Ok(t),
                None => Err(()),
            }
        }
        /// harness-only observer
        pub fn in_flight(&self) -> usize {
            self.0.borrow().len()
        }
    }
    pub fn channel<T>() -> (Sender<T>, Receiver<T>) {
        let q = Rc::new(RefCell::new(VecDeque::new()));
        (Sender(ManuallyDrop::new(q.clone())), Receiver(q))
    }
}
pub use mpsc::{Receiver, Sender};
