    fn step(&mut self) -> bool {
        // U8 ASSUMPTION: contract-only stand-in for the real `step()` (Kani ICEs on the real
        // one).  One call = one instruction.  The outcome is chosen nondeterministically among
        // the behaviours the real arms can have AS SEEN BY THE SCHEDULER (what units u1..u5,
        // u3_str, u4a_ctrl prove arm by arm): continue (true), Stop, runtime error (one of
        // the four documented kinds), HostFunc, SpawnTask, optional stack push/pop/overwrite.
        // Text of the chooser: `u8_step` in units/u8_sched/harness.rs.
        u8_step(self)
    }
