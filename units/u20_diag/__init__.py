"""U20: bounded stand-in for the part of C33 that no contract reaches: the primary range of PARSER and TYPE-CHECKER
diagnostics (AST node locations are built inside the Pratt parser and carried through Rc nodes and the checker's maps).
A fixed table of pure-ASCII programs with one leading diagnostic each is run on the real CLI; the expected range is
given by construction as the source text of the construct the message describes.  Labelled bounded; never counted as proof."""
import os
import re
import time
import engine as E
import abra_cli

UNIT = "U20-diag"
HEAD = "fn add(a: int, b: int) -> int = a + b\n"
# (program, message fragment, construct whose source text the primary range must cover exactly)
TABLE = [
    (HEAD + "let q = foo + 1\n", "Could not resolve identifier", "foo"),
    (HEAD + "let q = 1 + foo\n", "Could not resolve identifier", "foo"),
    (HEAD + "let w = add(1, 2).nope\n", "member access", "add(1, 2)"),
    ("let y = 1 + \"abc\"\n", "Operands must have the same type", "1 + \"abc\""),
    ("let y = (1 + 2) * \"abc\"\n", "Operands must have the same type", "(1 + 2) * \"abc\""),
    ("let k = 1 + 2 * \"s\"\n", "Operands must have the same type", "2 * \"s\""),
    ("let a = [1, 2, 3]\nlet s = (a).len() + \"x\"\n", "Operands must have the same type", "(a).len() + \"x\""),
    (HEAD + "let z = add(1)\n", "Missing argument", "add(1)"),
    (HEAD + "let z = (add)(1)\n", "Missing argument", "(add)(1)"),
    ("let n: int = (1 + 2)(3)\n", "Wrong argument type", "(1 + 2)(3)"),
    ("let t = [1, 2][0] + \"u\"\n", "Operands must have the same type", "[1, 2][0] + \"u\""),
]
ANSI = re.compile(r'\x1b\[[0-9;]*m')


def first_range(text):
    """(message, line, col, length) of the first diagnostic's primary label in codespan's rendering"""
    lines = ANSI.sub('', text).split("\n")
    for i, l in enumerate(lines):
        if l.startswith("error"):
            msg = l
            m = None
            for j in range(i + 1, min(i + 4, len(lines))):
                m = re.search(r'┌─ [^:]+:(\d+):(\d+)', lines[j])
                if m:
                    break
            if not m:
                return msg, None, None, None
            ln, col = int(m.group(1)), int(m.group(2))
            # the underline row follows the source row `ln │ ...`
            for k in range(j + 1, min(j + 8, len(lines))):
                sm = re.match(r'\s*%d │ ?(.*)$' % ln, lines[k])
                if sm and k + 1 < len(lines):
                    off = lines[k].index('│') + 2
                    under = lines[k + 1]
                    seg = under[off + col - 1:] if len(under) > off + col - 1 else ""
                    run = re.match(r'[-^]+', seg)
                    return msg, ln, col, (len(run.group(0)) if run else 0)
            return msg, ln, col, None
    return None, None, None, None


def run(tier="quick"):
    t0 = time.time()
    mism = []
    unknown = []   # the expected diagnostic was not the first one / its wording changed: that row cannot be judged (never an alarm)
    for prog, frag, construct in TABLE:
        out, err, rc = abra_cli.run_program(prog)
        msg, ln, col, length = first_range(out + err)
        want_line = next(i + 1 for i, l in enumerate(prog.split("\n")) if construct in l)
        want_col = prog.split("\n")[want_line - 1].index(construct) + 1
        if "panicked at" in (out + err):
            mism.append("host panic on %r" % prog)
        elif msg is None or frag not in msg:
            unknown.append("%r: expected a diagnostic containing %r first, got %r" % (prog.strip().split("\n")[-1], frag, msg))
        elif ln is None or length is None:
            unknown.append("%r: rendering of the diagnostic not understood" % prog.strip().split("\n")[-1])
        elif (ln, col, length) != (want_line, want_col, len(construct)):
            mism.append("%r (%s): primary range is line %s col %s length %s, the construct `%s` is line %d col %d length %d" % (
                prog.strip().split("\n")[-1], frag, ln, col, length, construct, want_line, want_col, len(construct)))
    ob = E.Obligation("C33.cli.diagnostic_ranges.sampled", ["C33"], UNIT, "parser / type-checker diagnostics via the real CLI", "bounded: run on the real CLI",
                      E.FAILED if mism else (E.UNDECIDED if len(unknown) > len(TABLE) // 2 else E.DISCHARGED),
                      "; ".join(mism[:4]) or ("diagnostic wording not recognised for %d of %d programs: %s" % (len(unknown), len(TABLE), "; ".join(unknown[:2])) if unknown else ""),
                      time.time() - t0, "abra_core/src/parse.rs", "",
                      "%d pure-ASCII programs with one leading diagnostic each (unresolved identifier, member access on a call result, operand type mismatch "
                      "incl. parenthesized / indexed / method-call left operands, missing argument, call of a non-function); black-box stand-in, not a proof" % len(TABLE),
                      "the primary range of the diagnostic covers exactly the source text of the construct the message describes")
    info = dict(assumptions=["U20: black-box bounded stand-in (not a contract on a function); codespan's rendering is parsed to recover the primary range"],
                trusted_base=["the real CLI built from the tree under check", "codespan-reporting's rendering"],
                checker_cmds=["target/debug/abra main.abra (programs of units/u20_diag TABLE)"], notes={})
    return [ob], info


def replay(ob):
    return (True if ob.status == E.FAILED else None), dict(failing=ob.detail)
