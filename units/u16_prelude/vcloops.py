"""U16, array part with LOOPS (property C26): BOUNDED stand-in for the members of the prelude that contain loops
    extend array<T>        :: fn clear            (while)
    extend array<T Equal>  :: fn find, fn contains (for i in self.len(), early return, match)
    extend array<T Clone>  :: fn filled           (for _ in n)
    implement Clone for array<T Clone>            (for x in arr)
    implement Iterable for array<T> / implement Iterator for ArrayIterator<V>   (the meaning of `for x in arr`)
against the reference LIST MODEL.  Everything is cut from the REAL modules/prelude.abra by name on every run and parsed by
abra_subset.Parser in `loops` mode; nothing here is a hand-copied model of those functions.

Method = bounded symbolic execution ("bounded unrolling"), never a proof for all lengths:
  * concrete list SHAPES (every length 0..N), SYMBOLIC element values (an uninterpreted sort with an uninterpreted,
    lawful `==` for the generic members; Z3 Int/Bool/uninterpreted float,string values for clone/filled), SYMBOLIC n for filled;
  * a small-step interpreter over the parsed AST with a heap of objects (arrays = Python lists of Z3 terms, structs =
    field maps), so aliasing is modelled by object identity;
  * every branch on a symbolic condition FORKS the path (both sides explored when Z3 says both are feasible); each
    loop may run its body at most N+1 times on a path, one more is an UNWINDING-ASSERTION failure => UNDECIDED;
  * at the end of every path ONE Z3 query: axioms AND path-condition AND NOT(spec) must be UNSAT.
Meaning of the loop forms: `while c { b }` as usual; `for p in e { b }` exactly as translate_bytecode.rs::translate_stmt
(StmtKind::ForLoop) lowers it: evaluate e once; it = Iterable.make_iterator(e) once; loop { r = Iterator.next(it);
if tag(r) == 0 (first variant of `option` = some) { bind p to the payload; b } else leave }; `continue` jumps to the next
next(), `break` leaves.  `for i in n` therefore gets its meaning from the real `implement Iterable for int` /
`implement Iterator for RangeIterator` text, `for x in arr` from `implement Iterable for array<T>` /
`implement Iterator for ArrayIterator<V>`.
"""
import itertools
import time

import z3

import abra_subset as AS
from abra_subset import Unsupported
import loopmodel as LM

DISCHARGED, FAILED, UNDECIDED = "discharged", "failed", "undecided"
I64_MIN, I64_MAX = -(1 << 63), (1 << 63) - 1
OOB, OVERFLOW = 'ArrayOutOfBounds', 'IntegerOverflow'
FAST_PATH = {'len': 'array_length', 'push': 'array_push', 'pop': 'array_pop'}
NESTED_OUTER, NESTED_INNER = 3, 2        # clone/filled on array<array<int>>: outer length <= 3, inner lengths <= 2

Elem = z3.DeclareSort('Elem')            # the generic element type T
FloatV = z3.DeclareSort('FloatV')        # float / string values: only ever copied and compared for identity
StringV = z3.DeclareSort('StringV')
EQ = z3.Function('equal_Elem', Elem, Elem, z3.BoolSort())     # T's own Equal.equal: uninterpreted, lawful (see axioms)
HASH = z3.Function('hash_Elem', Elem, z3.IntSort())           # T's own Hash.hash: uninterpreted, respects T's equal (see axioms)
WADD = z3.Function('wrapping_add', z3.IntSort(), z3.IntSort(), z3.IntSort())    # only their being FUNCTIONS is used
WMUL = z3.Function('wrapping_mul', z3.IntSort(), z3.IntSort(), z3.IntSort())
NILV = "nil"


class Ref:
    __slots__ = ('id',)

    def __init__(self, id_):
        self.id = id_

    def __repr__(self):
        return "<obj %d>" % self.id


class Variant:
    __slots__ = ('enum', 'name', 'idx', 'payload')

    def __init__(self, enum, name, idx, payload):
        self.enum, self.name, self.idx, self.payload = enum, name, idx, payload


class ArrObj:
    def __init__(self, items):
        self.items = list(items)


class StructObj:
    def __init__(self, tname, fields):
        self.tname, self.fields = tname, dict(fields)


class OpaqueObj:
    """A value of an arbitrary REFERENCE element type R with a lawful Clone: an object identity + an (immutable) content."""

    def __init__(self, content):
        self.content = content


class AbraError(Exception):
    """A runtime error of the Abra program (ends the program)."""

    def __init__(self, kind):
        Exception.__init__(self, kind)
        self.kind = kind


class Unwind(Exception):
    """Unwinding assertion not met: a loop wants to run more often than the bound allows."""


class SolverUnknown(Exception):
    pass


class ReturnEx(Exception):
    def __init__(self, value):
        Exception.__init__(self)
        self.value = value


class BreakEx(Exception):
    pass


class ContinueEx(Exception):
    pass


# ----------------------------------------------------------------------------- paths

class Path:
    """One execution path: the decisions taken at symbolic branches, replayed from a prefix."""

    def __init__(self, prefix, facts):
        self.prefix = list(prefix)
        self.trace = []
        self.alts = []
        self.pc = []
        self.solver = z3.Solver()
        self.solver.set('timeout', 20000)
        for f in facts:
            self.solver.add(f)

    def _sat(self, c):
        self.solver.push()
        self.solver.add(c)
        r = self.solver.check()
        self.solver.pop()
        if r == z3.unknown:
            raise SolverUnknown(self.solver.reason_unknown())
        return r == z3.sat

    def decide(self, cond):
        c = z3.simplify(cond)
        if z3.is_true(c):
            return True
        if z3.is_false(c):
            return False
        k = len(self.trace)
        if k < len(self.prefix):
            v = self.prefix[k]
        else:
            can_t, can_f = self._sat(c), self._sat(z3.Not(c))
            if can_t and can_f:
                self.alts.append(self.trace + [False])
                v = True
            elif can_t or can_f:
                v = can_t
            else:
                raise SolverUnknown("path condition became unsatisfiable")
        self.trace.append(v)
        lit = c if v else z3.Not(c)
        self.pc.append(lit)
        self.solver.add(lit)
        return v


# ----------------------------------------------------------------------------- interpreter

class Interp:
    MAX_DEPTH = 10

    def __init__(self, prelude, path, unwind):
        self.p = prelude
        self.path = path
        self.unwind = unwind          # a loop body may run this many times on one path
        self.heap = {}
        self.next_id = 1
        self.used = {}
        self.prims = set()
        self.max_iter = 0
        self.clone_log = []           # (argument id, result id) of every Clone.clone on the opaque reference type R

    def new_opaque(self, content):
        r = Ref(self.next_id)
        self.next_id += 1
        self.heap[r.id] = OpaqueObj(content)
        return r

    # -- heap
    def new_array(self, items):
        r = Ref(self.next_id)
        self.next_id += 1
        self.heap[r.id] = ArrObj(items)
        return r

    def new_struct(self, tname, fields):
        r = Ref(self.next_id)
        self.next_id += 1
        self.heap[r.id] = StructObj(tname, fields)
        return r

    def arr(self, v, what):
        if not isinstance(v, Ref) or not isinstance(self.heap[v.id], ArrObj):
            raise Unsupported("%s: not an array" % what)
        return self.heap[v.id]

    def kind(self, v):
        if v is NILV:
            return 'void'
        if isinstance(v, Ref):
            o = self.heap[v.id]
            if isinstance(o, OpaqueObj):
                return 'R'
            return 'array' if isinstance(o, ArrObj) else 'struct:' + o.tname
        if isinstance(v, Variant):
            return 'enum:' + v.enum
        s = v.sort()
        if s == z3.IntSort():
            return 'int'
        if s == z3.BoolSort():
            return 'bool'
        if s == Elem:
            return 'T'
        if s == FloatV:
            return 'float'
        if s == StringV:
            return 'string'
        raise Unsupported("value of unexpected sort %s" % s)

    def use(self, d):
        self.used[d['header']] = d['sha']
        return d

    # -- primitives (contracts proved for the VM arms in units/u5_array, u5v_array and u1_int)
    def prim(self, name, args):
        if name == 'array_length':
            if len(args) != 1:
                raise Unsupported("array_length arity")
            self.prims.add('ArrayLength')
            return z3.IntVal(len(self.arr(args[0], name).items))
        if name == 'array_push':
            if len(args) != 2 or isinstance(args[1], Variant):
                raise Unsupported("array_push arity / element kind")
            self.prims.add('ArrayPush')
            self.arr(args[0], name).items.append(args[1])
            return NILV
        if name == 'array_pop':
            if len(args) != 1:
                raise Unsupported("array_pop arity")
            self.prims.add('ArrayPop')
            a = self.arr(args[0], name)
            if not a.items:
                raise AbraError(OOB)
            return a.items.pop()
        raise Unsupported("call to `%s`: not a struct constructor of the prelude and not an array intrinsic the evaluator interprets" % name)

    def concretize(self, i, candidates):
        s = z3.simplify(i)
        if z3.is_int_value(s):
            return s.as_long()
        for k in candidates:
            if self.path.decide(i == k):
                return k
        raise Unsupported("index did not reduce to a value")

    def index(self, a, i, what):
        obj = self.arr(a, what)
        if self.kind(i) != 'int':
            raise Unsupported("%s: index is not int" % what)
        n = len(obj.items)
        if not self.path.decide(z3.And(i >= 0, i < n)):
            raise AbraError(OOB)
        return obj, self.concretize(i, range(n))

    def arith(self, op, l, r):
        v = z3.simplify(l + r if op == '+' else l - r)
        self.prims.add('AddInt' if op == '+' else 'SubtractInt')
        if not self.path.decide(z3.And(v >= I64_MIN, v <= I64_MAX)):
            raise AbraError(OVERFLOW)
        return v

    def equal(self, l, r, via, depth=0):
        kl, kr = self.kind(l), self.kind(r)
        if kl != kr:
            raise Unsupported("`==` on operands of different types")
        if kl == 'array':
            # translate_bytecode.rs: `==` on any type other than int/float/bool/string calls prelude Equal.equal
            # (syntactic obligation C24.codegen.equal_not_equal.dispatch)
            impl = self.use(self.p.impl_for('Equal', 'array'))
            fn = impl['fns'].get('equal')
            if fn is None:
                raise Unsupported("%s has no method equal" % impl['header'])
            v = self.apply(fn, [l, r], depth + 1, impl['header'])
            if self.kind(v) != 'bool':
                raise Unsupported("Equal.equal did not return bool")
            return v
        if kl == 'T':
            self.prims.add("T's Equal.equal (assumed contract)")
            return EQ(l, r)
        if kl == 'int':
            self.prims.add('EqualInt')
            return l == r
        if kl == 'bool':
            self.prims.add('EqualBool')
            return l == r
        if kl == 'void':
            return z3.BoolVal(True)
        raise Unsupported("`==` on %s operands is not modelled" % kl)

    # -- calls
    def apply(self, fn, args, depth, where):
        if depth > self.MAX_DEPTH:
            raise Unsupported("call depth exceeded (recursion?) in %s" % where)
        if len(fn.params) != len(args):
            raise Unsupported("%s: arity mismatch" % where)
        env = {}
        for p_, t, a in zip(fn.params, fn.ptypes, args):
            if t in ('int', 'bool', 'void', 'float', 'string') and self.kind(a) != t:
                raise Unsupported("%s: argument `%s` is not %s" % (where, p_, t))
            if isinstance(t, tuple) and t[0] == 'named' and t[1] == 'array' and self.kind(a) != 'array':
                raise Unsupported("%s: argument `%s` is not an array" % (where, p_))
            env[p_] = [a, False]
        try:
            if fn.body[0] == 'block':
                v = self.exec_block(fn.body[1], env, depth)
            else:
                v = self.eval(fn.body, env, depth)
        except ReturnEx as r:
            v = r.value
        except (BreakEx, ContinueEx):
            raise Unsupported("%s: break/continue outside a loop" % where)
        if fn.ret in ('int', 'bool', 'float', 'string') and self.kind(v) != fn.ret:
            raise Unsupported("%s: result is %s, declared %s" % (where, self.kind(v), fn.ret))
        if fn.ret == 'void':
            v = NILV
        return v

    def iface_call(self, iface, method, args, depth):
        if iface == 'Equal' and method == 'equal' and len(args) == 2:
            return self.equal(args[0], args[1], 'Equal.equal', depth)
        if iface == 'Hash' and method == 'hash' and len(args) == 1:
            k = self.kind(args[0])
            if k == 'T':
                self.prims.add("T's Hash.hash (assumed contract)")
                return HASH(args[0])
            if k not in ('array', 'int', 'bool', 'void'):
                raise Unsupported("Hash.hash on a value of kind %s is not modelled here" % k)
            impl = self.use(self.p.impl_for('Hash', k))
            fn = impl['fns'].get('hash')
            if fn is None:
                raise Unsupported("%s has no method hash" % impl['header'])
            v = self.apply(fn, args, depth + 1, impl['header'])
            if self.kind(v) != 'int':
                raise Unsupported("Hash.hash did not return int")
            return v
        if iface not in ('Clone', 'Iterable', 'Iterator') or len(args) != 1:
            raise Unsupported("call %s.%s(%d args) is outside the subset" % (iface, method, len(args)))
        k = self.kind(args[0])
        if k == 'R' and iface == 'Clone' and method == 'clone':
            # ASSUMED contract of R's own Clone: a FRESH object with equal contents
            self.prims.add("R's Clone.clone (assumed contract: fresh object, equal contents)")
            r = self.new_opaque(self.heap[args[0].id].content)
            self.clone_log.append((args[0].id, r.id))
            return r
        ctor = k[7:] if k.startswith('struct:') else k if k in ('array', 'int', 'bool', 'void', 'float', 'string') else None
        if ctor is None:
            raise Unsupported("%s.%s on a value of kind %s (its own impl is not modelled)" % (iface, method, k))
        impl = self.use(self.p.impl_for(iface, ctor))
        fn = impl['fns'].get(method)
        if fn is None:
            raise Unsupported("%s has no method %s" % (impl['header'], method))
        return self.apply(fn, args, depth + 1, impl['header'])

    def method_call(self, recv, name, args, depth):
        k = self.kind(recv)
        if k != 'array':
            raise Unsupported("method call `.%s(...)` on a value of kind %s" % (name, k))
        if name in FAST_PATH:
            # translate_bytecode.rs::handle_func_call inlines direct calls of array.len/push/pop to the instruction
            # (syntactic obligation C26.codegen.array_members.fast_path)
            return self.prim(FAST_PATH[name], [recv] + args)
        f = self.use(self.p.extend_fn_any('array', name))
        if not f['fn'].params or f['fn'].params[0] != 'self':
            raise Unsupported("%s is not a method (no `self`)" % f['header'])
        return self.apply(f['fn'], [recv] + args, depth + 1, f['header'])

    def static_call(self, ctor, name, args, depth):
        f = self.use(self.p.extend_fn_any(ctor, name))
        return self.apply(f['fn'], args, depth + 1, f['header'])

    def variant(self, name, args):
        en = self.use(self.p.enum_variants('option'))
        names = [v for v, _ in en['variants']]
        if name not in names:
            raise Unsupported("variant `.%s` is not a variant of prelude `option`" % name)
        idx = names.index(name)
        if len(args) != en['variants'][idx][1]:
            raise Unsupported("variant `.%s` applied to %d arguments" % (name, len(args)))
        return Variant('option', name, idx, args[0] if args else None)

    def iterate(self, v, depth):
        """Generator: the items `for p in v` binds, exactly as StmtKind::ForLoop is lowered (see module docstring)."""
        en = self.use(self.p.enum_variants('option'))
        if [x for x, _ in en['variants']][:1] != ['some'] or en['variants'][0][1] != 1:
            raise Unsupported("`type option`: the first variant (tag 0, the one a for-loop takes as `has an item`) is not some(T)")
        it = self.iface_call('Iterable', 'make_iterator', [v], depth)
        n = 0
        while True:
            r = self.iface_call('Iterator', 'next', [it], depth)
            if not isinstance(r, Variant) or r.enum != 'option':
                raise Unsupported("Iterator.next did not return an option")
            if r.idx != 0:
                return
            n += 1
            if n > self.unwind:
                raise Unwind("a `for` loop wants to run more than %d times" % self.unwind)
            self.max_iter = max(self.max_iter, n)
            yield r.payload

    # -- statements
    def exec_block(self, stmts, env, depth):
        env = dict(env)
        value = NILV
        for s in stmts:
            value = self.exec_stmt(s, env, depth)
        return value

    def bind(self, pat, v, env):
        if pat[0] == 'pvar':
            env[pat[1]] = [v, False]
        elif pat[0] != 'pwild':
            raise Unsupported("tuple pattern")

    def exec_stmt(self, s, env, depth):
        k = s[0]
        if k == 'let':
            v = self.eval(s[3], env, depth)
            if s[2][0] == 'pvar':
                env[s[2][1]] = [v, s[1]]
            elif s[2][0] != 'pwild':
                raise Unsupported("tuple pattern")
            return NILV
        if k == 'assign':
            if s[1] not in env or not env[s[1]][1]:
                raise Unsupported("assignment to `%s`, which is not a `var` in scope" % s[1])
            v = self.eval(s[2], env, depth)
            if self.kind(v) != self.kind(env[s[1]][0]):
                raise Unsupported("assignment changes the type of `%s`" % s[1])
            env[s[1]][0] = v
            return NILV
        if k == 'assign_field':
            o = self.eval(s[1], env, depth)
            if not isinstance(o, Ref) or not isinstance(self.heap[o.id], StructObj):
                raise Unsupported("field assignment on a non-struct")
            v = self.eval(s[3], env, depth)
            f = self.heap[o.id].fields
            if s[2] not in f or self.kind(f[s[2]]) != self.kind(v):
                raise Unsupported("field `%s` unknown or of another type" % s[2])
            f[s[2]] = v
            return NILV
        if k == 'assign_index':
            # translate_bytecode.rs: array, index, rvalue are evaluated in this order, then SetIndex
            a = self.eval(s[1], env, depth)
            i = self.eval(s[2], env, depth)
            v = self.eval(s[3], env, depth)
            self.prims.add('SetIndex')
            obj, j = self.index(a, i, "index assignment")
            obj.items[j] = v
            return NILV
        if k == 'return':
            raise ReturnEx(self.eval(s[1], env, depth))
        if k == 'break':
            raise BreakEx()
        if k == 'continue':
            raise ContinueEx()
        if k == 'while':
            n = 0
            while True:
                c = self.eval(s[1], env, depth)
                if self.kind(c) != 'bool':
                    raise Unsupported("`while` condition is not bool")
                if not self.path.decide(c):
                    break
                n += 1
                if n > self.unwind:
                    raise Unwind("a `while` loop wants to run more than %d times" % self.unwind)
                self.max_iter = max(self.max_iter, n)
                try:
                    self.exec_block(s[2], env, depth)
                except BreakEx:
                    break
                except ContinueEx:
                    continue
            return NILV
        if k == 'for':
            v = self.eval(s[2], env, depth)
            for item in self.iterate(v, depth):
                inner = dict(env)
                self.bind(s[1], item, inner)
                try:
                    self.exec_block(s[3], inner, depth)
                except BreakEx:
                    break
                except ContinueEx:
                    continue
            return NILV
        if k == 'expr':
            return self.eval(s[1], env, depth)
        raise Unsupported("statement form %s" % k)

    # -- expressions
    def eval(self, e, env, depth):
        k = e[0]
        if k == 'var':
            if e[1] not in env:
                raise Unsupported("unknown identifier `%s`" % e[1])
            return env[e[1]][0]
        if k == 'int':
            if not (I64_MIN <= e[1] <= I64_MAX):
                raise Unsupported("integer literal out of range")
            return z3.IntVal(e[1])
        if k == 'bool':
            return z3.BoolVal(e[1])
        if k == 'nil':
            return NILV
        if k == 'not':
            v = self.eval(e[1], env, depth)
            if self.kind(v) != 'bool':
                raise Unsupported("`not` on non-bool")
            return z3.Not(v)
        if k == 'binop':
            op = e[1]
            l = self.eval(e[2], env, depth)
            if op in ('and', 'or'):
                if self.kind(l) != 'bool':
                    raise Unsupported("`%s` on non-bool" % op)
                lv = self.path.decide(l)
                if (op == 'and') != lv:          # short circuit
                    return z3.BoolVal(lv)
                r = self.eval(e[3], env, depth)
                if self.kind(r) != 'bool':
                    raise Unsupported("`%s` on non-bool" % op)
                return r
            r = self.eval(e[3], env, depth)
            if op == '==':
                return self.equal(l, r, '==', depth)
            if op == '!=':
                return z3.Not(self.equal(l, r, '!=', depth))      # NotEqual = the code for Equal followed by Instr::Not
            if self.kind(l) != 'int' or self.kind(r) != 'int':
                raise Unsupported("`%s` on %s operands" % (op, self.kind(l)))
            if op in ('+', '-'):
                return self.arith(op, l, r)
            self.prims.add({'<': 'LessThanInt', '<=': 'LessThanOrEqualInt', '>': 'GreaterThanInt', '>=': 'GreaterThanOrEqualInt'}[op])
            return {'<': l < r, '<=': l <= r, '>': l > r, '>=': l >= r}[op]
        if k == 'index':
            a = self.eval(e[1], env, depth)
            i = self.eval(e[2], env, depth)
            self.prims.add('GetIndex')
            obj, j = self.index(a, i, "indexing")
            return obj.items[j]
        if k == 'member':
            o = self.eval(e[1], env, depth)
            if not isinstance(o, Ref) or not isinstance(self.heap[o.id], StructObj) or e[2] not in self.heap[o.id].fields:
                raise Unsupported("field access `.%s` on something that is not a struct with that field" % e[2])
            return self.heap[o.id].fields[e[2]]
        if k == 'array':
            return self.new_array([self.eval(x, env, depth) for x in e[1]])
        if k == 'dotvariant':
            return self.variant(e[1], [])
        if k == 'variant':
            return self.variant(e[1], [self.eval(a, env, depth) for a in e[2]])
        if k == 'call':
            if e[1] in env:
                raise Unsupported("call of a local value `%s`" % e[1])
            args = [self.eval(a, env, depth) for a in e[2]]
            if e[1] in ('array_length', 'array_push', 'array_pop'):
                return self.prim(e[1], args)
            if e[1] in ('wrapping_add', 'wrapping_mul'):
                if len(args) != 2 or any(self.kind(a) != 'int' for a in args):
                    raise Unsupported("intrinsic %s on non-int operands" % e[1])
                self.prims.add(e[1] + " (as an uninterpreted function)")
                return (WADD if e[1] == 'wrapping_add' else WMUL)(*args)
            if e[1] == 'hash_combine':
                f = self.p.free_fn(e[1])
                self.used['fn ' + e[1]] = f['sha']
                return self.apply(f['fn'], args, depth + 1, 'fn ' + e[1])
            try:
                sd = self.p.struct_fields(e[1])
            except Unsupported:
                return self.prim(e[1], args)          # raises the explanatory Unsupported
            self.use(sd)
            if len(args) != len(sd['fields']):
                raise Unsupported("constructor %s applied to %d arguments" % (e[1], len(args)))
            return self.new_struct(e[1], zip(sd['fields'], args))
        if k == 'icall':
            args = [self.eval(a, env, depth) for a in e[3]]
            if e[1] in env:
                return self.method_call(env[e[1]][0], e[2], args, depth)
            if e[1] == 'option':
                return self.variant(e[2], args)
            if e[1] == 'array':
                return self.static_call('array', e[2], args, depth)
            return self.iface_call(e[1], e[2], args, depth)
        if k == 'mcall':
            recv = self.eval(e[1], env, depth)
            args = [self.eval(a, env, depth) for a in e[3]]
            return self.method_call(recv, e[2], args, depth)
        if k == 'if':
            c = self.eval(e[1], env, depth)
            if self.kind(c) != 'bool':
                raise Unsupported("`if` condition is not bool")
            if self.path.decide(c):
                v = self.exec_stmt(e[2], dict(env), depth)
                return v if e[3] is not None else NILV
            if e[3] is not None:
                return self.exec_stmt(e[3], dict(env), depth)
            return NILV
        if k == 'match':
            v = self.eval(e[1], env, depth)
            if not isinstance(v, Variant):
                raise Unsupported("`match` on a value that is not an enum variant")
            en = self.p.enum_variants(v.enum)
            for pat, stmt in e[2]:
                inner = dict(env)
                if pat[0] == 'pvariant':
                    hit = [a for n_, a in en['variants'] if n_ == pat[1]]
                    if not hit or (pat[2] is not None) != bool(hit[0]):
                        raise Unsupported("pattern `.%s` does not fit `type %s`" % (pat[1], v.enum))
                    if pat[1] != v.name:
                        continue
                    if pat[2] is not None:
                        self.bind(pat[2], v.payload, inner)
                return self.exec_stmt(stmt, inner, depth)
            raise Unsupported("no match arm applies")
        if k == 'block':
            return self.exec_block(e[1], env, depth)
        raise Unsupported("expression form %s" % k)


# ----------------------------------------------------------------------------- symbolic inputs

def sym(ek, name):
    """-> (value, preconditions)"""
    if ek == 'T':
        return z3.Const(name, Elem), []
    if ek == 'int':
        v = z3.Int(name)
        return v, [v >= I64_MIN, v <= I64_MAX]
    if ek == 'bool':
        return z3.Bool(name), []
    if ek == 'void':
        return NILV, []
    if ek == 'float':
        return z3.Const(name, FloatV), []
    if ek == 'string':
        return z3.Const(name, StringV), []
    raise ValueError(ek)


def equal_axioms(consts):
    """The ASSUMED contract on T's Equal.equal (C24): an equivalence.  Ground instances over every T-sorted term of the
    query: the code creates no new T terms (it only moves elements), so these instances are equivalent to the quantified
    laws for this query and a model of them is a genuine counter-model."""
    ax = []
    for a in consts:
        ax.append(EQ(a, a))
    for a, b in itertools.product(consts, repeat=2):
        ax.append(EQ(a, b) == EQ(b, a))
    for a, b, c in itertools.product(consts, repeat=3):
        ax.append(z3.Implies(z3.And(EQ(a, b), EQ(b, c)), EQ(a, c)))
    return ax


def same_value(it, a, b):
    """identity of two element VALUES (not Equal.equal): z3 formula"""
    if a is NILV or b is NILV:
        return z3.BoolVal(a is b)
    if isinstance(a, (Ref, Variant)) or isinstance(b, (Ref, Variant)):
        return z3.BoolVal(False)
    if a.sort() != b.sort():
        return z3.BoolVal(False)
    return a == b


def same_items(it, items, orig):
    if len(items) != len(orig):
        return z3.BoolVal(False)
    return z3.And([same_value(it, a, b) for a, b in zip(items, orig)] + [z3.BoolVal(True)])


# ----------------------------------------------------------------------------- cases (one per member and shape)

class Case:
    """A member run on one concrete SHAPE with symbolic values.  setup() builds the inputs in a fresh heap, run() drives the
    interpreter over the REAL parsed text, spec()/wrong() give the list-model clause / a deliberately wrong clause."""
    fn = None
    ek = 'T'

    def facts(self):
        return []

    def setup(self, it):
        raise NotImplementedError

    def run(self, it):
        raise NotImplementedError

    def spec(self, it, ok, res):
        raise NotImplementedError

    def wrong(self, it, ok, res):
        raise NotImplementedError

    # replay / message support
    def cex(self, it, ok, err, res, m):
        raise NotImplementedError


class Namer:
    """Model values -> small ints: T values by class of the model's Equal.equal (10, 20, ...), ints as themselves."""

    def __init__(self, m):
        self.m = m
        self.reps = []

    def py(self, it, v):
        if v is NILV:
            return 'nil'
        if isinstance(v, Variant):
            return v.name if v.payload is None else "%s(%s)" % (v.name, self.py(it, v.payload))
        if isinstance(v, Ref):
            o = it.heap[v.id]
            if isinstance(o, OpaqueObj):
                return [self.py(it, o.content)]       # realised on the real CLI by a one-element array<int>
            if isinstance(o, ArrObj):
                return [self.py(it, x) for x in o.items]
            return "%s(%s)" % (o.tname, ", ".join("%s=%s" % (f, self.py(it, x)) for f, x in o.fields.items()))
        s = v.sort()
        mv = self.m.eval(v, model_completion=True)
        if s == z3.IntSort():
            return mv.as_long()
        if s == z3.BoolSort():
            return bool(z3.is_true(mv))
        if s == Elem:
            for r, num in self.reps:
                if r.sort() == Elem and z3.is_true(self.m.eval(z3.Or(v == r, EQ(v, r)), model_completion=True)):
                    return num
            self.reps.append((v, 10 * (len(self.reps) + 1)))
            return self.reps[-1][1]
        for r, num in self.reps:             # float / string: identity classes
            if r.sort() == s and z3.is_true(self.m.eval(v == r, model_completion=True)):
                return num
        self.reps.append((v, 10 * (len(self.reps) + 1)))
        return self.reps[-1][1]


def outcome_of(ok, err):
    return "ok" if ok else "error " + str(err)


class ListCase(Case):
    """receiver list of n symbolic elements"""

    def __init__(self, n, ek='T'):
        self.n, self.ek = n, ek
        self.elems, self.pre = [], []
        for j in range(n):
            v, pre = sym(ek, 'a%d' % j)
            self.elems.append(v)
            self.pre += pre
        self.x, pre = sym(ek, 'x') if self.needs_x else (None, [])
        self.pre += pre

    needs_x = False

    def shape(self):
        return "|L|=%d%s" % (self.n, "" if self.ek == 'T' else " of " + self.ek)

    def facts(self):
        ts = [v for v in self.elems + [self.x] if v is not None and v is not NILV and v.sort() == Elem]
        return self.pre + equal_axioms(ts)

    def setup(self, it):
        self.L = it.new_array(self.elems)
        self.pre_ids = set(it.heap)

    def unchanged(self, it):
        return same_items(it, it.heap[self.L.id].items, self.elems)

    def prefs(self):
        """prefer counterexamples whose list elements are pairwise different (more telling), small ints"""
        out = []
        if self.ek == 'T':
            out += [z3.Not(EQ(a, b)) for a, b in itertools.combinations(self.elems, 2)]
        if self.ek == 'int':
            out += [z3.And(v >= 0, v <= 60) for v in self.elems + ([self.x] if self.x is not None else [])]
            out += [a != b for a, b in itertools.combinations(self.elems, 2)]
        return out

    def base_cex(self, it, nm):
        d = dict(fn=self.fn, elem=self.ek, list=[nm.py(it, v) for v in self.elems], args={})
        if self.x is not None:
            d['args']['x'] = nm.py(it, self.x)
        return d


class ClearCase(ListCase):
    fn = 'clear'

    def run(self, it):
        return it.method_call(self.L, 'clear', [], 0)

    def spec(self, it, ok, res):
        return z3.BoolVal(bool(ok and res is NILV and len(it.heap[self.L.id].items) == 0))

    def wrong(self, it, ok, res):
        return z3.BoolVal(bool(ok and len(it.heap[self.L.id].items) == self.n and self.n > 0))

    def cex(self, it, ok, err, res, m):
        nm = Namer(m)
        d = self.base_cex(it, nm)
        d['code'] = dict(outcome=outcome_of(ok, err), result='nil' if ok else None, final_list=nm.py(it, self.L))
        return d


class FindCase(ListCase):
    fn = 'find'
    needs_x = True

    def expected(self):
        """list model, Z3 side: the first index whose element equals x (T's ==), -1 if none"""
        e = z3.IntVal(-1)
        for j in reversed(range(self.n)):
            e = z3.If(EQ(self.elems[j], self.x), z3.IntVal(j), e)
        return e

    def run(self, it):
        return it.method_call(self.L, self.fn, [self.x], 0)

    def spec(self, it, ok, res):
        if not ok or not isinstance(res, Variant) or res.enum != 'option':
            return z3.BoolVal(False)
        exp = self.expected()
        if res.name == 'some':
            if it.kind(res.payload) != 'int':
                return z3.BoolVal(False)
            return z3.And(self.unchanged(it), exp >= 0, res.payload == exp)
        return z3.And(self.unchanged(it), exp == -1)

    def wrong(self, it, ok, res):
        return z3.BoolVal(bool(ok and isinstance(res, Variant) and res.name == 'none'))

    def cex(self, it, ok, err, res, m):
        nm = Namer(m)
        d = self.base_cex(it, nm)
        d['code'] = dict(outcome=outcome_of(ok, err), result=nm.py(it, res) if ok else None, final_list=nm.py(it, self.L))
        return d


class ContainsCase(FindCase):
    fn = 'contains'

    def spec(self, it, ok, res):
        if not ok or isinstance(res, (Ref, Variant)) or res is NILV or it.kind(res) != 'bool':
            return z3.BoolVal(False)
        return z3.And(self.unchanged(it), res == (self.expected() >= 0))

    def wrong(self, it, ok, res):
        if not ok or isinstance(res, (Ref, Variant)) or res is NILV or it.kind(res) != 'bool':
            return z3.BoolVal(False)
        return z3.Not(res)


class IterationCase(ListCase):
    fn = 'iteration'

    def run(self, it):
        return list(it.iterate(self.L, 0))          # make_iterator once, next() until .none

    def spec(self, it, ok, res):
        if not ok:
            return z3.BoolVal(False)
        return z3.And(self.unchanged(it), same_items(it, res, self.elems))

    def wrong(self, it, ok, res):
        return z3.BoolVal(bool(ok and len(res) == 0 and self.n > 0))

    def cex(self, it, ok, err, res, m):
        nm = Namer(m)
        d = self.base_cex(it, nm)
        d['code'] = dict(outcome=outcome_of(ok, err), visited=[nm.py(it, v) for v in res] if ok else None, final_list=nm.py(it, self.L))
        return d


class CloneCase(ListCase):
    fn = 'clone'

    def run(self, it):
        return it.iface_call('Clone', 'clone', [self.L], 0)

    def fresh_copy(self, it, res):
        """res is an array object that did not exist before the call (in particular it is not L itself)"""
        return isinstance(res, Ref) and isinstance(it.heap.get(res.id), ArrObj) and res.id not in self.pre_ids

    def spec(self, it, ok, res):
        if not ok or not self.fresh_copy(it, res):
            return z3.BoolVal(False)
        return z3.And(self.unchanged(it), same_items(it, it.heap[res.id].items, self.elems))

    def wrong(self, it, ok, res):
        return z3.BoolVal(bool(ok and isinstance(res, Ref) and res.id == self.L.id))

    def cex(self, it, ok, err, res, m):
        nm = Namer(m)
        d = self.base_cex(it, nm)
        d['code'] = dict(outcome=outcome_of(ok, err), returned=nm.py(it, res) if ok else None, final_list=nm.py(it, self.L),
                         returned_is_receiver=bool(ok and isinstance(res, Ref) and res.id == self.L.id))
        return d


class NestedCloneCase(Case):
    """array<array<int>>: the copy must be deep (one level)"""
    fn = 'clone'
    ek = 'array<int>'

    def __init__(self, inner_lens):
        self.lens = list(inner_lens)
        self.vals, self.pre = [], []
        for i, ln in enumerate(self.lens):
            row = []
            for j in range(ln):
                v, pre = sym('int', 'b%d_%d' % (i, j))
                row.append(v)
                self.pre += pre
            self.vals.append(row)

    def shape(self):
        return "array<array<int>> with inner lengths %s" % self.lens

    def facts(self):
        return self.pre

    def setup(self, it):
        self.inner = [it.new_array(r) for r in self.vals]
        self.L = it.new_array(self.inner)
        self.pre_ids = set(it.heap)

    def run(self, it):
        return it.iface_call('Clone', 'clone', [self.L], 0)

    def spec(self, it, ok, res):
        if not ok or not isinstance(res, Ref) or not isinstance(it.heap.get(res.id), ArrObj) or res.id in self.pre_ids:
            return z3.BoolVal(False)
        items = it.heap[res.id].items
        if len(items) != len(self.inner) or [x for x in it.heap[self.L.id].items] != self.inner:
            return z3.BoolVal(False)
        cl = []
        seen = set()
        for new, old, vals in zip(items, self.inner, self.vals):
            if not isinstance(new, Ref) or not isinstance(it.heap.get(new.id), ArrObj) or new.id in self.pre_ids or new.id in seen:
                return z3.BoolVal(False)          # an inner array is shared with the original (or between rows): not deep
            seen.add(new.id)
            cl.append(same_items(it, it.heap[new.id].items, vals))
            cl.append(same_items(it, it.heap[old.id].items, vals))
        return z3.And(cl + [z3.BoolVal(True)])

    def wrong(self, it, ok, res):
        return z3.BoolVal(bool(ok and isinstance(res, Ref) and res.id == self.L.id))

    def prefs(self):
        return [z3.And(v >= 0, v <= 60) for r in self.vals for v in r]

    def cex(self, it, ok, err, res, m):
        nm = Namer(m)
        shared = []
        if ok and isinstance(res, Ref) and isinstance(it.heap.get(res.id), ArrObj):
            shared = [i for i, x in enumerate(it.heap[res.id].items) if isinstance(x, Ref) and x.id in self.pre_ids]
        return dict(fn='clone', elem=self.ek, list=[[nm.py(it, v) for v in r] for r in self.vals], args={},
                    code=dict(outcome=outcome_of(ok, err), returned=nm.py(it, res) if ok else None, final_list=nm.py(it, self.L),
                              returned_is_receiver=bool(ok and isinstance(res, Ref) and res.id == self.L.id),
                              rows_shared_with_original=shared))


def clones_of(it, src_id):
    return [r for a, r in it.clone_log if a == src_id]


def independent_copies(it, items, sources, contents, pre_ids):
    """every item is an opaque object that (a) did not exist before the call (so it is neither its source nor any other
    input), (b) is pairwise distinct from the other items, (c) is the RESULT of a Clone.clone call on its source;
    -> z3 formula on the contents, or None when (a)-(c) fail"""
    seen = set()
    cl = []
    for v, src, c in zip(items, sources, contents):
        if not isinstance(v, Ref) or not isinstance(it.heap.get(v.id), OpaqueObj) or v.id in pre_ids or v.id in seen:
            return None
        if v.id not in clones_of(it, src.id):
            return None
        seen.add(v.id)
        cl.append(it.heap[v.id].content == c)
    return z3.And(cl + [z3.BoolVal(True)])


class CloneRefCase(Case):
    """array<R>, R an arbitrary reference type with a lawful Clone (opaque objects)"""
    fn = 'clone'
    ek = 'R'

    def __init__(self, n):
        self.n = n
        self.contents = [z3.Const('c%d' % j, Elem) for j in range(n)]

    def shape(self):
        return "|L|=%d of an opaque reference type R" % self.n

    def setup(self, it):
        self.objs = [it.new_opaque(c) for c in self.contents]
        self.L = it.new_array(self.objs)
        self.pre_ids = set(it.heap)

    def run(self, it):
        return it.iface_call('Clone', 'clone', [self.L], 0)

    def spec(self, it, ok, res):
        if not ok or not isinstance(res, Ref) or not isinstance(it.heap.get(res.id), ArrObj) or res.id in self.pre_ids:
            return z3.BoolVal(False)
        if it.heap[self.L.id].items != self.objs or len(it.heap[res.id].items) != self.n:
            return z3.BoolVal(False)
        f = independent_copies(it, it.heap[res.id].items, self.objs, self.contents, self.pre_ids)
        return z3.BoolVal(False) if f is None else f

    def wrong(self, it, ok, res):
        return z3.BoolVal(bool(ok and isinstance(res, Ref) and res.id == self.L.id))

    def prefs(self):
        return [a != b for a, b in itertools.combinations(self.contents, 2)]

    def cex(self, it, ok, err, res, m):
        nm = Namer(m)
        shared = []
        if ok and isinstance(res, Ref) and isinstance(it.heap.get(res.id), ArrObj):
            shared = [i for i, x in enumerate(it.heap[res.id].items) if isinstance(x, Ref) and x.id in self.pre_ids]
        return dict(fn='clone', elem='array<int>', realises='R', list=[nm.py(it, o) for o in self.objs], args={},
                    code=dict(outcome=outcome_of(ok, err), returned=nm.py(it, res) if ok else None, final_list=nm.py(it, self.L),
                              returned_is_receiver=bool(ok and isinstance(res, Ref) and res.id == self.L.id),
                              rows_shared_with_original=shared))


class FilledRefCase(Case):
    """array.filled(x, n) with x of an opaque reference type R with a lawful Clone"""
    fn = 'filled'
    ek = 'R'

    def __init__(self, bound):
        self.bound = bound
        self.nv = z3.Int('n')
        self.content = z3.Const('cx', Elem)
        self.pre = [self.nv >= I64_MIN, self.nv <= bound]

    def shape(self):
        return "x of an opaque reference type R, n symbolic in [i64::MIN, %d]" % self.bound

    def facts(self):
        return self.pre

    def setup(self, it):
        self.x = it.new_opaque(self.content)
        self.pre_ids = set(it.heap)

    def run(self, it):
        return it.static_call('array', 'filled', [self.x, self.nv], 0)

    def spec(self, it, ok, res):
        if not ok or not isinstance(res, Ref) or not isinstance(it.heap.get(res.id), ArrObj) or res.id in self.pre_ids:
            return z3.BoolVal(False)
        items = it.heap[res.id].items
        f = independent_copies(it, items, [self.x] * len(items), [self.content] * len(items), self.pre_ids)
        if f is None:
            return z3.BoolVal(False)
        return z3.And(z3.IntVal(len(items)) == z3.If(self.nv > 0, self.nv, 0), f)

    def wrong(self, it, ok, res):
        if not ok or not isinstance(res, Ref) or not isinstance(it.heap.get(res.id), ArrObj):
            return z3.BoolVal(False)
        return z3.IntVal(len(it.heap[res.id].items)) == self.nv + 1

    def prefs(self):
        return [self.nv >= -2]

    def cex(self, it, ok, err, res, m):
        nm = Namer(m)
        shared = []
        if ok and isinstance(res, Ref) and isinstance(it.heap.get(res.id), ArrObj):
            items = it.heap[res.id].items
            shared = [i for i, v in enumerate(items) if isinstance(v, Ref) and (v.id in self.pre_ids or any(isinstance(w, Ref) and w.id == v.id for w in items[:i]))]
        return dict(fn='filled', elem='array<int>', realises='R', list=None,
                    args=dict(x=nm.py(it, self.x), n=m.eval(self.nv, model_completion=True).as_long()),
                    code=dict(outcome=outcome_of(ok, err), returned=nm.py(it, res) if ok else None, elements_shared=shared,
                              clone_calls=len(it.clone_log)))


class FilledCase(Case):
    fn = 'filled'

    def __init__(self, ek, bound, inner_len=None):
        self.ek, self.bound, self.inner_len = ek, bound, inner_len
        self.nv = z3.Int('n')
        self.pre = [self.nv >= I64_MIN, self.nv <= bound]
        if inner_len is None:
            self.x, pre = sym(ek, 'x')
            self.pre += pre
        else:
            self.xvals = []
            for j in range(inner_len):
                v, pre = sym('int', 'x%d' % j)
                self.xvals.append(v)
                self.pre += pre

    def shape(self):
        return "x: %s, n symbolic in [i64::MIN, %d]" % (self.ek if self.inner_len is None else "array<int> of length %d" % self.inner_len, self.bound)

    def facts(self):
        return self.pre

    def setup(self, it):
        if self.inner_len is not None:
            self.x = it.new_array(self.xvals)
        self.pre_ids = set(it.heap)

    def run(self, it):
        return it.static_call('array', 'filled', [self.x, self.nv], 0)

    def spec(self, it, ok, res):
        if not ok or not isinstance(res, Ref) or not isinstance(it.heap.get(res.id), ArrObj) or res.id in self.pre_ids:
            return z3.BoolVal(False)
        items = it.heap[res.id].items
        cl = [z3.IntVal(len(items)) == z3.If(self.nv > 0, self.nv, 0)]
        if self.inner_len is None:
            cl += [same_value(it, v, self.x) for v in items]
        else:
            seen = set()
            for v in items:
                if not isinstance(v, Ref) or not isinstance(it.heap.get(v.id), ArrObj) or v.id in self.pre_ids or v.id in seen:
                    return z3.BoolVal(False)      # the copies share an object with x or with each other
                seen.add(v.id)
                cl.append(same_items(it, it.heap[v.id].items, self.xvals))
            cl.append(same_items(it, it.heap[self.x.id].items, self.xvals))
        return z3.And(cl)

    def wrong(self, it, ok, res):
        if not ok or not isinstance(res, Ref) or not isinstance(it.heap.get(res.id), ArrObj):
            return z3.BoolVal(False)
        return z3.IntVal(len(it.heap[res.id].items)) == self.nv + 1

    def prefs(self):
        vs = [self.x] if (self.inner_len is None and self.ek == 'int') else (self.xvals if self.inner_len is not None else [])
        return [self.nv >= -2] + [z3.And(v >= 0, v <= 60) for v in vs]

    def cex(self, it, ok, err, res, m):
        nm = Namer(m)
        shared = []
        if ok and self.inner_len is not None and isinstance(res, Ref) and isinstance(it.heap.get(res.id), ArrObj):
            items = it.heap[res.id].items
            shared = [i for i, v in enumerate(items) if isinstance(v, Ref) and (v.id in self.pre_ids or any(isinstance(w, Ref) and w.id == v.id for w in items[:i]))]
        return dict(fn='filled', elem=self.ek if self.inner_len is None else 'array<int>', list=None,
                    args=dict(x=nm.py(it, self.x), n=m.eval(self.nv, model_completion=True).as_long()),
                    code=dict(outcome=outcome_of(ok, err), returned=nm.py(it, res) if ok else None, elements_shared=shared))


# ----------------------------------------------------------------------------- exploration

def explore(prelude, case, unwind, clause):
    """All paths of one case.  -> dict(status, detail, cex, paths, used, prims, max_iter)"""
    facts = case.facts()
    pending = [[]]
    out = dict(status=DISCHARGED, detail="", cex=None, paths=0, used={}, prims=set(), max_iter=0)
    while pending:
        prefix = pending.pop()
        path = Path(prefix, facts)
        it = Interp(prelude, path, unwind)
        ok, err, res = True, None, None
        try:
            case.setup(it)
            try:
                res = case.run(it)
            except AbraError as e:
                ok, err = False, e.kind
            except (ReturnEx, BreakEx, ContinueEx):
                raise Unsupported("return/break/continue escaped the function")
            goal = getattr(case, clause)(it, ok, res)
        except Unwind as e:
            out.update(status=UNDECIDED, detail="unwinding assertion not met on %s: %s (bounded unrolling cannot decide this)" % (case.shape(), e))
            return out
        except SolverUnknown as e:
            out.update(status=UNDECIDED, detail="z3 returned unknown while exploring %s: %s" % (case.shape(), e))
            return out
        finally:
            out['used'].update(it.used)
            out['prims'] |= it.prims
            out['max_iter'] = max(out['max_iter'], it.max_iter)
        out['paths'] += 1
        pending += path.alts
        s = path.solver
        s.push()
        s.add(z3.Not(goal))
        r = s.check()
        if r == z3.sat:
            m = s.model()
            prefs = case.prefs() if hasattr(case, 'prefs') else []
            if prefs:
                s.push()
                for p_ in prefs:
                    s.add(p_)
                if s.check() == z3.sat:
                    m = s.model()
                s.pop()
            out.update(status=FAILED, cex=case.cex(it, ok, err, res, m))
            s.pop()
            return out
        s.pop()
        if r != z3.unsat:
            out.update(status=UNDECIDED, detail="z3 returned unknown on %s: %s" % (case.shape(), s.reason_unknown()))
            return out
    return out


def cases_for(member, N):
    if member == 'clear':
        return [ClearCase(n) for n in range(N + 1)]
    if member == 'find':
        return [FindCase(n) for n in range(N + 1)]
    if member == 'contains':
        return [ContainsCase(n) for n in range(N + 1)]
    if member == 'iteration':
        return [IterationCase(n) for n in range(N + 1)]
    if member == 'clone':
        cs = [CloneCase(n, ek) for n in range(N + 1) for ek in ('int', 'bool', 'float', 'string', 'void')]
        cs += [CloneRefCase(n) for n in range(N + 1)]
        for outer in range(min(N, NESTED_OUTER) + 1):
            cs += [NestedCloneCase(lens) for lens in itertools.product(range(NESTED_INNER + 1), repeat=outer)]
        return cs
    if member == 'filled':
        cs = [FilledCase(ek, N) for ek in ('int', 'bool', 'float', 'string', 'void')]
        cs.append(FilledRefCase(N))
        cs += [FilledCase('array<int>', min(N, NESTED_OUTER), inner_len=k) for k in range(NESTED_INNER + 1)]
        return cs
    raise ValueError(member)


STATEMENTS = {
    'clear': "L.clear(): no error, result nil, afterwards L is the empty list",
    'find': "L.find(x): no error, L unchanged; result = .some(i) for the FIRST index i with L[i] == x (T's Equal), .none when no element equals x",
    'contains': "L.contains(x): no error, L unchanged; result <=> some element of L equals x (i.e. find is .some)",
    'filled': "array.filled(x, n), n >= 0: no error, a NEW list of exactly n elements each identical to x (x: int/bool/float/string/void).  "
              "INDEPENDENCE for reference elements (x of an opaque reference type R with a lawful Clone, and structurally x: array<int>): "
              "every one of the n elements is a distinct object, different from x and from each other, with x's contents: each slot holds the "
              "RESULT of its own Clone.clone(x) call, no slot holds x itself; x is unchanged.  " + LM.FILLED_NEGATIVE_NOTE,
    'clone': "Clone.clone(L): no error, L unchanged; the result is a DIFFERENT array object (mutating one cannot affect the other: "
             "objects are distinct in the heap model) with the same length and identical elements (element types int/bool/float/string/void, "
             "whose own `implement Clone` is cut from the prelude and evaluated too; elements of an opaque reference type R with a lawful "
             "Clone: slot j holds the RESULT of a Clone.clone call on L[j], a fresh object distinct from every input and from the other slots; "
             "array<array<int>> structurally: every row is again a distinct new object with the same contents: deep copy)",
    'iteration': "`for v in L` visits L[0], L[1], ..., L[|L|-1] in this order, each exactly once, and leaves L unchanged: "
                 "Iterable.make_iterator(L) once, then Iterator.next until .none, as the for-loop is lowered",
}


def bounded_text(member, N):
    b = ("BOUNDED UNROLLING, not a proof: symbolic element values, every CONCRETE list length 0..%d; each loop may run its body at most %d "
         "times per path (unwinding assertion; a longer run => UNDECIDED)" % (N, N + 1))
    if member == 'filled':
        b += "; n symbolic over [i64::MIN, %d]; x: array<int> only for inner length <= %d and n <= %d" % (N, NESTED_INNER, min(N, NESTED_OUTER))
    if member == 'clone':
        b += "; array<array<int>> only for outer length <= %d and inner lengths <= %d" % (min(N, NESTED_OUTER), NESTED_INNER)
    return b


def clone_identity(prelude):
    """SYNTACTIC side note: is `implement Clone for <prim>` literally `fn clone(x) = x`?  (The symbolic run decides; this is
    reported in the obligation text.)"""
    out = {}
    for ty in ('int', 'bool', 'float', 'string', 'void'):
        try:
            fn = prelude.impl_for('Clone', ty)['fns'].get('clone')
            body = fn.body if fn else None
            if body and body[0] == 'block' and len(body[1]) == 1 and body[1][0][0] in ('expr', 'return'):
                body = body[1][0][1]
            out[ty] = bool(fn and len(fn.params) == 1 and body == ('var', fn.params[0]))
        except Unsupported as e:
            out[ty] = "not parsed: %s" % str(e)[:80]
    return out


def describe_failure(member, cex):
    c = cex['code']
    args = dict(cex['args'])
    want = LM.loop_model(member, cex['list'] if member != 'filled' else None, args)
    got = c['outcome']
    for k in ('result', 'returned', 'visited'):
        if c.get(k) is not None:
            got += ", %s %s" % (k, c[k])
    if c.get('final_list') is not None and member != 'filled':
        got += ", L afterwards %s" % c['final_list']
    if c.get('returned_is_receiver'):
        got += " (the returned array IS the receiver: aliased, not a copy)"
    if c.get('elements_shared'):
        got += " (elements %s of the result are the SAME object as x or as an earlier element: not independent copies)" % c['elements_shared']
    if c.get('rows_shared_with_original'):
        got += " (rows %s of the copy are the SAME objects as the original's rows: shallow copy)" % c['rows_shared_with_original']
    exp = "ok"
    for k in ('result', 'returned', 'visited'):
        if want.get(k) is not None and not (k == 'result' and want[k] == 'array'):
            exp += ", %s %s" % (k, want[k])
    if member != 'filled':
        exp += ", L afterwards %s" % want['final']
    if member == 'clone':
        exp += ", a different object"
    inp = ("L=%s (%s)" % (cex['list'], cex['elem'])) if member != 'filled' else "(%s)" % cex['elem']
    if args:
        inp += ", " + ", ".join("%s=%s" % kv for kv in args.items())
    return "list model refuted by z3 (sat): %s: the prelude code gives %s; the list model says %s" % (inp, got, exp)


def check_member(prelude, member, N):
    t0 = time.time()
    rec = dict(id="C26.prelude.array.%s.model" % member, fn=member, statement=STATEMENTS[member], bounded=bounded_text(member, N),
               N=N, blocks={}, prims=[], paths=0, shapes=0, status=DISCHARGED, detail="")
    prims = set()
    try:
        for case in cases_for(member, N):
            r = explore(prelude, case, N + 1, 'spec')
            rec['blocks'].update(r['used'])
            prims |= r['prims']
            rec['paths'] += r['paths']
            rec['shapes'] += 1
            rec['max_loop_iterations'] = max(rec.get('max_loop_iterations', 0), r['max_iter'])
            if r['status'] == FAILED:
                rec['status'], rec['cex'] = FAILED, r['cex']
                rec['detail'] = describe_failure(member, r['cex'])
                break
            if r['status'] == UNDECIDED:
                rec['status'], rec['detail'] = UNDECIDED, r['detail']
                break
    except Unsupported as e:
        rec['status'] = UNDECIDED
        rec['detail'] = "outside the accepted Abra subset / block not found: %s" % e
    if member == 'clone':
        rec['clone_is_literally_identity'] = clone_identity(prelude)
    rec['prims'] = sorted(prims)
    rec['time_s'] = time.time() - t0
    return rec


def canary(prelude, member, N):
    """A deliberately WRONG clause must be refuted on some shape (vacuity guard)."""
    try:
        for case in cases_for(member, min(N, 2)):
            r = explore(prelude, case, N + 1, 'wrong')
            if r['status'] == FAILED:
                return dict(fn=member, status=FAILED)
            if r['status'] == UNDECIDED:
                return dict(fn=member, status=UNDECIDED, detail=r['detail'])
    except Unsupported as e:
        return dict(fn=member, status=UNDECIDED, detail=str(e)[:200])
    return dict(fn=member, status=DISCHARGED)


ASSUMPTIONS = [
    "U16 loops (C26, bounded): `while c { b }`: evaluate c; if false leave, else run b and repeat (translate_bytecode.rs::translate_stmt, "
    "StmtKind::WhileLoop: label, cond, JumpIfFalse end, body, Jump start); `break` jumps to the end label, `continue` to the start label",
    "U16 loops (C26, bounded): `for p in e { b }` is what translate_bytecode.rs::translate_stmt (StmtKind::ForLoop) emits: e is evaluated ONCE, "
    "prelude Iterable.make_iterator is called on it ONCE (method 0 of `prelude.Iterable`), then repeatedly: Duplicate the iterator, call "
    "prelude Iterator.next (method 0 of `prelude.Iterator`), DeconstructVariant, compare the TAG with 0; tag 0 (= `some`, the first variant "
    "of `type option<T> = some(T) | none`, checked on the cut text) binds p to the payload and runs b, then jumps back to next(); any other "
    "tag leaves the loop; `continue` jumps to the next next(), `break` leaves.  Which impl runs is chosen by the static type of e / of the "
    "iterator (type checker, C22 not claimed): int -> `implement Iterable for int` + `implement Iterator for RangeIterator`; array<T> -> "
    "`implement Iterable for array<T>` + `implement Iterator for ArrayIterator<V>`; all four are cut from the real prelude and evaluated, so "
    "`for i in n` iterating i = 0..n-1 is NOT assumed but comes from that text",
    "U16 loops (C26, bounded): structs (ArrayIterator, RangeIterator) are heap objects with mutable fields, constructed positionally in the "
    "field order of their `type` definition (cut from the prelude); arrays are heap objects; object identity models aliasing; "
    "leading-dot variants `.some(e)` / `.none` and `option.some(e)` denote prelude `option` (the functions' declared return types)",
    "U16 loops (C26, bounded): direct calls x.len() / x.push(v) / x.pop() on an array are the ArrayLength / ArrayPush / ArrayPop instruction "
    "(C26.codegen.array_members.fast_path), a[i] on an array is GetIndex (C26.codegen.index_get.inlined); their contracts are those proved in "
    "units/u5_array, u5v_array; `+`/`-` on int are exact or stop with IntegerOverflow (u1_int); `==` on the generic T is T's Equal.equal: an "
    "uninterpreted, total, pure equivalence relation (the C24 contract, ground-instantiated); on int/bool it is EqualInt/EqualBool",
    "U16 loops (C26, bounded): element types for clone/filled: int (Z3 Int), bool (Z3 Bool), void (nil), float and string (uninterpreted values "
    "that are only copied), and array<int> one level deep; `Clone.clone(v)` runs the `implement Clone for <that type>` block cut from the prelude",
    "U16 loops (C26, bounded): independence clauses of filled / clone for reference elements: R is an arbitrary reference type whose own "
    "Clone.clone is ASSUMED to return a FRESH object (new identity) with equal contents (uninterpreted contents; identity = heap address "
    "of the model); every call is logged, and the result slots must be results of such calls, pairwise distinct and different from every "
    "input object; realised on the real CLI (replay) by one-element array<int> values",
    "U16 loops (C26): " + LM.FILLED_NEGATIVE_NOTE,
]


def analyse_loops(prelude_path, N, with_canaries=True, members=None):
    out = dict(obligations=[], canaries=[], notes=dict(N=N), assumptions=ASSUMPTIONS)
    try:
        prelude = AS.Prelude(prelude_path)
    except (Unsupported, OSError) as e:
        out['fatal'] = "cannot read/mask %s: %s" % (prelude_path, e)
        return out
    for member in (members or LM.MEMBERS):
        rec = check_member(prelude, member, N)
        if with_canaries:
            c = canary(prelude, member, N)
            out['canaries'].append(c)
            if rec['status'] == DISCHARGED and c['status'] != FAILED:
                rec['status'] = UNDECIDED
                rec['detail'] = "vacuity canary: a deliberately wrong specification of %s was not refuted (%s)" % (member, c.get('detail', c['status']))
        out['obligations'].append(rec)
    return out

# ----------------------------------------------------------------------------- C24: Equal / Hash for array<T> (bounded)

import laws as LW  # noqa: E402


class ZL:
    and_ = staticmethod(lambda *a: z3.And(*a))
    or_ = staticmethod(lambda *a: z3.Or(*a))
    not_ = staticmethod(z3.Not)
    implies = staticmethod(z3.Implies)
    iff = staticmethod(lambda a, b: a == b)
    same = staticmethod(lambda a, b: a == b)


ARRAY_LAWS = [
    ('Equal', 'reflexive') + LW.LAW_BY_NAME['equal_reflexive'][1:],
    ('Equal', 'symmetric') + LW.LAW_BY_NAME['equal_symmetric'][1:],
    ('Equal', 'transitive') + LW.LAW_BY_NAME['equal_transitive'][1:],
    ('Equal', 'model', ('x', 'y'), lambda A, L: L.iff(A('eq', 'x', 'y'), A('listeq', 'x', 'y')),
     "forall x y: array<T>. Equal.equal(x, y) <=> |x| = |y| and x[i] == y[i] (T's Equal) for every i   [list-model clause]"),
    ('Equal', 'not_equal_is_negation', ('x', 'y'), lambda A, L: L.iff(A('opne', 'x', 'y'), L.not_(A('eq', 'x', 'y'))),
     "forall x y: array<T>. (x != y) <=> not Equal.equal(x, y)   [`!=` on arrays = the call of prelude Equal.equal followed by Instr::Not, "
     "C24.codegen.equal_not_equal.dispatch; `==` = that call]"),
    ('Hash', 'consistent') + LW.LAW_BY_NAME['hash_respects_equal'][1:],
]
TRANSITIVE_CAP = 3            # the 3-variable law: lengths 0..min(N, 3) (the Equal axioms are cubic in the number of elements)


class LawCase(Case):
    fn = 'law'

    def __init__(self, law, lens):
        self.iface, self.name, self.vars, self.lawfn, self.stmt = law
        self.lens = dict(zip(self.vars, lens))
        self.elems = {v: [z3.Const('%s%d' % (v, j), Elem) for j in range(n)] for v, n in self.lens.items()}

    def shape(self):
        return ", ".join("|%s|=%d" % kv for kv in self.lens.items())

    def facts(self):
        consts = [c for v in self.vars for c in self.elems[v]]
        ax = equal_axioms(consts)
        # the ASSUMED contract tying T's Hash to T's Equal (the law itself, on the component type)
        ax += [z3.Implies(EQ(a, b), HASH(a) == HASH(b)) for a, b in itertools.product(consts, repeat=2)]
        return ax

    def setup(self, it):
        self.arrs = {v: it.new_array(self.elems[v]) for v in self.vars}
        self.atoms = {}

    def atom(self, it, kind_, *vs):
        key = (kind_,) + tuple(vs)
        if key not in self.atoms:
            a = [self.arrs[v] for v in vs]
            if kind_ == 'eq':
                r = it.iface_call('Equal', 'equal', a, 0)
            elif kind_ == 'opne':
                r = z3.Not(it.equal(a[0], a[1], '!=', 0))
            elif kind_ == 'hash':
                r = it.iface_call('Hash', 'hash', a, 0)
            elif kind_ == 'listeq':
                x, y = self.elems[vs[0]], self.elems[vs[1]]
                r = z3.And([EQ(p, q) for p, q in zip(x, y)] + [z3.BoolVal(True)]) if len(x) == len(y) else z3.BoolVal(False)
            else:
                raise Unsupported("atom %s is not defined for arrays" % kind_)
            self.atoms[key] = r
        return self.atoms[key]

    def run(self, it):
        return self.lawfn(lambda k, *vs: self.atom(it, k, *vs), ZL)

    def spec(self, it, ok, res):
        if not ok:
            return z3.BoolVal(False)
        unchanged = all(it.heap[self.arrs[v].id].items == self.elems[v] for v in self.vars)
        return z3.And(res, z3.BoolVal(unchanged))

    def wrong(self, it, ok, res):
        """deliberately wrong: all arrays are equal / all hashes coincide"""
        if not ok or len(self.vars) < 2:
            return z3.BoolVal(True)
        if self.iface == 'Hash':
            return self.atom(it, 'hash', 'x') == self.atom(it, 'hash', 'y')
        return self.atom(it, 'eq', 'x', 'y')

    def prefs(self):
        return []

    def cex(self, it, ok, err, res, m):
        nm = Namer(m)
        vals = {v: [nm.py(it, c) for c in self.elems[v]] for v in self.vars}
        atoms = {}
        for key, t in self.atoms.items():
            if key[0] == 'listeq':
                continue
            mv = m.eval(t, model_completion=True)
            text = {'eq': "Equal.equal(%s, %s)", 'opne': "%s != %s", 'hash': "Hash.hash(%s)"}[key[0]] % key[1:]
            atoms[text] = bool(z3.is_true(mv)) if z3.is_bool(mv) else str(mv)
        return dict(law=self.name, iface=self.iface, values=vals, atoms=atoms, outcome=outcome_of(ok, err))


def law_cases(law, N):
    k = len(law[2])
    n = min(N, TRANSITIVE_CAP) if k == 3 else N
    return [LawCase(law, lens) for lens in itertools.product(range(n + 1), repeat=k)]


def check_law(prelude, law, N):
    t0 = time.time()
    iface, name, vars_, _, stmt = law
    n = min(N, TRANSITIVE_CAP) if len(vars_) == 3 else N
    rec = dict(id="C24.prelude.%s.array.%s" % (iface, name), fn="%s for array: %s" % (iface, name), props=["C24"], statement=stmt,
               bounded=("BOUNDED UNROLLING, not a proof: symbolic element values of an arbitrary type T (T's own Equal / Hash uninterpreted and "
                        "lawful), every combination of CONCRETE array lengths 0..%d for %s (different lengths and common prefixes included); "
                        "each loop may run its body at most %d times per path (unwinding assertion; a longer run => UNDECIDED)"
                        % (n, ", ".join(vars_), N + 1)),
               N=n, blocks={}, prims=[], paths=0, shapes=0, status=DISCHARGED, detail="", vars=list(vars_))
    prims = set()
    try:
        for case in law_cases(law, N):
            r = explore(prelude, case, N + 1, 'spec')
            rec['blocks'].update(r['used'])
            prims |= r['prims']
            rec['paths'] += r['paths']
            rec['shapes'] += 1
            rec['max_loop_iterations'] = max(rec.get('max_loop_iterations', 0), r['max_iter'])
            if r['status'] == FAILED:
                c = r['cex']
                rec['status'], rec['cex'] = FAILED, c
                rec['detail'] = ("law refuted by z3 (sat): %s; counterexample %s: %s; the prelude functions give %s"
                                 % (stmt, ", ".join("%s=%s" % kv for kv in c['values'].items()), c['outcome'],
                                    ", ".join("%s = %s" % kv for kv in c['atoms'].items())))
                break
            if r['status'] == UNDECIDED:
                rec['status'], rec['detail'] = UNDECIDED, r['detail']
                break
    except Unsupported as e:
        rec['status'] = UNDECIDED
        rec['detail'] = "outside the accepted Abra subset / block not found: %s" % e
    rec['prims'] = sorted(prims)
    rec['time_s'] = time.time() - t0
    return rec


def law_canary(prelude, law, N):
    if len(law[2]) < 2:
        return None
    try:
        for case in law_cases(law, min(N, 1)):
            r = explore(prelude, case, N + 1, 'wrong')
            if r['status'] == FAILED:
                return dict(fn="%s.array.%s" % law[:2], status=FAILED)
            if r['status'] == UNDECIDED:
                return dict(fn="%s.array.%s" % law[:2], status=UNDECIDED, detail=r['detail'])
    except Unsupported as e:
        return dict(fn="%s.array.%s" % law[:2], status=UNDECIDED, detail=str(e)[:200])
    return dict(fn="%s.array.%s" % law[:2], status=DISCHARGED)


LAW_ASSUMPTIONS = [
    "U16 array laws (C24, bounded): elements are of an arbitrary type T whose own Equal.equal is an uninterpreted equivalence and whose own "
    "Hash.hash is an uninterpreted function with equal(a, b) ==> hash(a) == hash(b) (the C24 contract on the component type, ground-instantiated "
    "over the element constants of the query); wrapping_add / wrapping_mul are uninterpreted FUNCTIONS on int (nothing else about them is needed); "
    "hash_combine is cut from the prelude and evaluated; `==` / `!=` on arrays are the call of prelude Equal.equal (followed by Instr::Not), "
    "C24.codegen.equal_not_equal.dispatch; loops as in the C26 loop assumptions (for-lowering of translate_bytecode.rs::translate_stmt)",
]


def analyse_array_laws(prelude_path, N, with_canaries=True):
    out = dict(obligations=[], canaries=[], notes=dict(N=N), assumptions=LAW_ASSUMPTIONS + ASSUMPTIONS[:4])
    try:
        prelude = AS.Prelude(prelude_path)
    except (Unsupported, OSError) as e:
        out['fatal'] = "cannot read/mask %s: %s" % (prelude_path, e)
        return out
    for law in ARRAY_LAWS:
        rec = check_law(prelude, law, N)
        if with_canaries:
            c = law_canary(prelude, law, N)
            if c is not None:
                out['canaries'].append(c)
                if rec['status'] == DISCHARGED and c['status'] != FAILED:
                    rec['status'] = UNDECIDED
                    rec['detail'] = "vacuity canary: a deliberately wrong law was not refuted (%s)" % c.get('detail', c['status'])
        out['obligations'].append(rec)
    return out



if __name__ == '__main__':
    import json
    import sys
    if len(sys.argv) > 3 and sys.argv[3] == 'laws':
        print(json.dumps(analyse_array_laws(sys.argv[1], int(sys.argv[2])), indent=1, default=str))
    else:
        print(json.dumps(analyse_loops(sys.argv[1], int(sys.argv[2]) if len(sys.argv) > 2 else 4), indent=1, default=str))
