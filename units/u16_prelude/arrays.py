"""U16 array part (C26), plain-python side: obligations from vcarray's JSON, syntactic codegen
obligations, the reference LIST MODEL in Python (written from the property, independent of Z3 and of
the prelude code), replay on the real CLI and the differential fidelity test."""
import hashlib
import os
import re
import time

import engine as E
import abra_cli

UNIT = "U16-prelude"
PRELUDE_REL = "modules/prelude.abra"
TB_REL = "abra_core/src/translate_bytecode.rs"
OOB_MSG = "indexed past the end of an array"

PRIM_NOTE = ("primitives interpreted by the contracts proved for the VM arms in units/u5_array (GetIndex/SetIndex: ok iff 0 <= i < len, "
             "else ArrayOutOfBounds with the array unchanged; ArrayPush appends; ArrayPop: non-empty -> removes and returns the last, "
             "empty -> ArrayOutOfBounds; ArrayLength) and u1_int (SubtractInt exact or IntegerOverflow)")


def _sha(s):
    return hashlib.sha256(s.encode()).hexdigest()[:16]


def repo():
    return os.environ.get("ABRA_REPO", "/repo")


# ----------------------------------------------------------------------------- obligations

def obligations(arr):
    if not arr:
        return []
    if arr.get("fatal"):
        raise E.Undecided("u16 array part: " + arr["fatal"])
    obs = []
    for rec in arr["obligations"]:
        blocks = rec.get("blocks") or {}
        flags = rec.get("flags") or {}
        text = rec["statement"]
        if rec.get("goal"):
            text += "\n  as parsed from the real source: " + rec["goal"]
        if blocks:
            text += "\n  functions cut from %s by name: %s" % (PRELUDE_REL, "; ".join(sorted(blocks)))
        if rec.get("fast_path_calls"):
            text += ("\n  direct calls self.%s(...) inside these bodies are interpreted as the inlined VM instruction, as the translator "
                     "compiles them (C26.codegen.array_members.fast_path)" % "/".join(rec["fast_path_calls"]))
        if rec.get("prims"):
            text += "\n  VM primitives used: %s; %s" % (", ".join(rec["prims"]), PRIM_NOTE)
        if flags.get("code_derived"):
            text += "\n  code-derived: documents what the current code does; the property leaves it open"
        if flags.get("unobservable"):
            text += "\n  note: a runtime error ends the program, so this clause is not observable from Abra code (no replay possible)"
        backend = ("u16-parser (syntactic check, no solver)" if flags.get("syntactic")
                   else "z3 (arithmetic lemma, no code)" if flags.get("lemma") else "u16-vcgen(imperative)/z3")
        obs.append(E.Obligation(rec["id"], ["C26"], UNIT, "; ".join(sorted(blocks)) or rec["fn"], backend, rec["status"],
                                rec.get("detail", ""), rec.get("time_s", 0.0), PRELUDE_REL, _sha("".join(sorted(blocks.values()))),
                                flags.get("bounded"), text, cex=rec.get("cex")))
    return obs


def codegen_obligations():
    """SYNTACTIC: the primitive the evaluator interprets is the one that runs.  Matched on the comment- and
    whitespace-free text of translate_bytecode.rs; unknown shape => UNDECIDED, never FAILED."""
    t0 = time.time()
    path = os.path.join(repo(), TB_REL)
    try:
        with open(path, encoding="utf-8") as f:
            raw = f.read()
    except OSError as ex:
        raise E.Undecided("cannot read %s: %s" % (path, ex))
    norm = re.sub(r'//[^\n]*', '', raw)
    norm = re.sub(r'\s+', '', norm).replace(',)', ')')
    sha = _sha(raw)
    obs = []

    def one(name, rxs, text):
        counts = [len(re.findall(rx, norm)) for rx in rxs]
        ok = all(c == 1 for c in counts)
        obs.append(E.Obligation("C26.codegen." + name, ["C26"], UNIT, "Translator (translate_bytecode.rs)",
                                "regex on whitespace-free source (syntactic check, no solver)",
                                E.DISCHARGED if ok else E.UNDECIDED,
                                "" if ok else "expected code shapes found %s times (want 1 each): anchor lost or code changed" % counts,
                                time.time() - t0, TB_REL, sha, None, "SYNTACTIC: " + text))

    head = (r'ExprKind::IndexAccess\(array,index\)=>\{letlhs_ty=self\.get_ty\(mono,array\.node\(\)\)\.unwrap\(\);matchlhs_ty\{'
            r'SolvedType::Nominal\(Nominal::Array,_\)=>\{self\.translate_expr\(array,offset_table,mono,st\);'
            r'self\.translate_expr\(index,offset_table,mono,st\);')
    one("index_get.inlined", [head + r'self\.emit\(st,Instr::GetIndex\(Reg::Top,Reg::Top\)\);\}'],
        "`a[i]` with `a` of type array<_> is lowered to: code for a, code for i, Instr::GetIndex (the prelude `Index` interface "
        "is used only for other receiver types)")
    one("index_set.inlined", [head + r'self\.translate_expr\(rvalue,offset_table,mono,st\);self\.emit\(st,Instr::SetIndex\(Reg::Top,Reg::Top\)\);\}'],
        "`a[i] = v` with `a` of type array<_> is lowered to: code for a, code for i, code for v (in this order), Instr::SetIndex")
    one("array_members.fast_path",
        [r'"array\.len"=>self\.emit\(st,Instr::ArrayLength\(Reg::Top,Reg::Top\)\)',
         r'"array\.pop"=>\{self\.emit\(st,Instr::ArrayPop\(Reg::Top,Reg::Top\)\);',
         r'"array\.push"=>\{if second_arg_is_void\(&overload_ty\)\{self\.emit\(st,Instr::PushNil\(1\)\);\}self\.emit\(st,Instr::ArrayPush\(Reg::Top,Reg::Top\)\)\}'.replace(' ', '')],
        "DIRECT calls `a.len()`, `a.pop()`, `a.push(x)` are inlined by handle_func_call to ArrayLength / ArrayPop / ArrayPush and "
        "never run the prelude body (the evaluator interprets such calls as that instruction); the bodies run only when the method "
        "is used as a function value (`let f = array.push`) and are covered by len/push/pop.model")
    one("array_intrinsics.same_named_opcode",
        [r'IntrinsicOperation::ArrayLength=>\{self\.emit\(st,Instr::ArrayLength\(Reg::Top,Reg::Top\)\);\}',
         r'IntrinsicOperation::ArrayPop=>\{self\.emit\(st,Instr::ArrayPop\(Reg::Top,Reg::Top\)\);',
         r'IntrinsicOperation::ArrayPush=>\{letSome\(SolvedType::Function\(args,_\)\)=self\.get_ty\(mono,func_node\.clone\(\)\)else\{unreachable!\(\)\};'
         r'letarg_ty=&args\[1\];if\*arg_ty==SolvedType::Void\{self\.emit\(st,Instr::PushNil\(1\)\);\}self\.emit\(st,Instr::ArrayPush\(Reg::Top,Reg::Top\)\);\}'],
        "the intrinsics array_length / array_pop / array_push lower to Instr::ArrayLength / ArrayPop / ArrayPush")
    return obs


# ----------------------------------------------------------------------------- reference list model (from the property)

def list_model(fn, L, args):
    """-> dict(outcome, result, final) ; for remove `final` is any permutation: compare as multisets."""
    L = list(L)
    err = dict(outcome="error ArrayOutOfBounds", result=None, final=L)
    if fn == 'len':
        return dict(outcome="ok", result=len(L), final=L)
    if fn == 'is_empty':
        return dict(outcome="ok", result=(len(L) == 0), final=L)
    if fn == 'push':
        return dict(outcome="ok", result='nil', final=L + [args['x']])
    if fn == 'pop':
        return dict(outcome="ok", result=L[-1], final=L[:-1]) if L else err
    if fn == 'swap':
        i, j = args['i'], args['j']
        if 0 <= i < len(L) and 0 <= j < len(L):
            M = list(L)
            M[i], M[j] = L[j], L[i]
            return dict(outcome="ok", result='nil', final=M)
        return err
    if fn == 'remove':
        i = args['index']
        if 0 <= i < len(L):
            return dict(outcome="ok", result='nil', final=L[:i] + L[i + 1:], any_order=True)
        return err
    raise ValueError(fn)


def swap_remove_order(L, i):
    M = list(L)
    M[i] = M[-1]
    return M[:-1]


def lit(n):
    return str(n) if n >= 0 else "(0 - %d)" % (-n)


def op_program(fn, L, args, var="a", via_value=False):
    """via_value: call len/push/pop through a function value (`let f = array.push`), the only route on which
    the prelude BODY of these three runs; a direct call is inlined to the VM instruction."""
    src = ("let %s = [%s]\n" % (var, ", ".join(lit(x) for x in L))) if L else ("let %s: array<int> = []\n" % var)
    if via_value and fn in ('len', 'push', 'pop'):
        src += "let f_%s = array.%s\n" % (var, fn)
        call = "f_%s(%s%s)" % (var, var, (", " + lit(args['x'])) if fn == 'push' else "")
        src += {'len': "println(%s)\n" % call, 'push': "%s\nprintln(\"nil\")\n" % call,
                'pop': "let r = %s\nprintln(r)\n" % call}[fn]
    elif fn == 'len':
        src += "println(%s.len())\n" % var
    elif fn == 'is_empty':
        src += "println(%s.is_empty())\n" % var
    elif fn == 'push':
        src += "%s.push(%s)\nprintln(\"nil\")\n" % (var, lit(args['x']))
    elif fn == 'pop':
        src += "let r = %s.pop()\nprintln(r)\n" % var
    elif fn == 'swap':
        src += "%s.swap(%s, %s)\nprintln(\"nil\")\n" % (var, lit(args['i']), lit(args['j']))
    elif fn == 'remove':
        src += "%s.remove(%s)\nprintln(\"nil\")\n" % (var, lit(args['index']))
    src += "println(\"ok\")\nprintln(%s.len())\nfor i in %s.len() {\n    println(%s[i])\n}\n" % (var, var, var)
    return src


def observe(out, err, rc):
    """What the real CLI did: dict(outcome, result, final) or None when the output cannot be read."""
    text = out + err
    if rc != 0:
        if OOB_MSG in text:
            return dict(outcome="error ArrayOutOfBounds", result=None, final=None, host_panic="panicked" in text)
        return dict(outcome="error other: " + text.strip().split("\n")[0][:120], result=None, final=None, host_panic="panicked" in text)
    lines = out.strip().split("\n")
    if len(lines) < 3 or lines[1] != "ok":
        return None
    r = lines[0].strip()
    res = True if r == "true" else False if r == "false" else 'nil' if r == "nil" else int(r) if re.fullmatch(r'-?\d+', r) else r
    try:
        n = int(lines[2])
        final = [int(x) for x in lines[3:3 + n]]
    except ValueError:
        return None
    if len(final) != n:
        return None
    return dict(outcome="ok", result=res, final=final)


def conforms(fn, L, args, real, exact_order=False):
    want = list_model(fn, L, args)
    if real["outcome"] != want["outcome"]:
        return False, want
    if want["outcome"] != "ok":
        return True, want
    if real["result"] != want["result"]:
        return False, want
    if want.get("any_order") and not exact_order:
        return sorted(real["final"]) == sorted(want["final"]), want
    if want.get("any_order") and exact_order:
        return real["final"] == swap_remove_order(L, args['index']), dict(want, final=swap_remove_order(L, args['index']))
    return real["final"] == want["final"], want


def replay(ob, rerun):
    """Z3's model (small concrete list of ints + indices) -> Abra program on the REAL CLI -> compare with the
    Python list model.  True: the real CLI deviates from the list model.  `rerun()` recomputes the cex."""
    m = re.fullmatch(r'C26\.prelude\.array\.(\w+)\.(\w+)', ob.id)
    if not m:
        return None, dict(note="no replay for this obligation (syntactic code-shape check)")
    fn, clause = m.group(1), m.group(2)
    if fn == 'bounds' or clause == 'order_implies_permutation':
        return None, dict(note="syntactic / arithmetic obligation: nothing to run")
    cex = ob.cex if isinstance(ob.cex, dict) and 'list' in ob.cex else rerun(ob.id)
    if not cex:
        return None, dict(note="the generator does not refute this clause now")
    ob.cex = cex
    if cex.get("truncated"):
        return None, dict(note="counterexample list too long to replay", counterexample=cex)
    L, args = cex["list"], cex["args"]
    src = op_program(fn, L, args, via_value=True)
    out, err, rc = abra_cli.run_program(src)
    real = observe(out, err, rc)
    info = dict(counterexample=dict(list=L, args=args), program=src, real_output=(out + err)[:800], exit_code=rc,
                evaluator_prediction=cex.get("code"), real_cli=real)
    if real is None:
        return None, info
    if real.get("host_panic"):
        info["note"] = "host panic"
        return True, info
    ok, want = conforms(fn, L, args, real, exact_order=(clause == 'order_code_derived'))
    info["list_model"] = want
    # sanity: the evaluator's own prediction of the observable behaviour must match the real CLI
    pred = cex.get("code") or {}
    if pred and (pred.get("outcome") != real["outcome"] or (real["outcome"] == "ok" and pred.get("final_list") != real["final"])):
        info["note"] = "the real CLI contradicts the evaluator's prediction: the evaluator / a primitive contract is wrong"
        return False, info
    if not ok:
        return True, info
    if not cex.get("observable", True) or clause == 'error_leaves_array_unchanged':
        info["note"] = ("the deviation Z3 found is in the array state at the moment of the fatal runtime error; the program ends there, "
                        "so it cannot be observed from Abra code")
        return None, info
    return False, info


# ----------------------------------------------------------------------------- differential fidelity (thorough tier)

def fidelity(cases):
    """Evaluator predictions for concrete lists (vcarray.concrete_array) vs the real CLI.  All non-failing
    cases run in ONE program; every failing case needs its own run (the error ends the program)."""
    if cases.get("fatal"):
        return dict(skipped=cases["fatal"])
    okc = [c for c in cases["cases"] if c["outcome"] == "ok"]
    errc = [c for c in cases["cases"] if c["outcome"] != "ok"]
    bad = []
    src = ""
    direct = []          # the same len/push/pop cases as DIRECT calls: expected = the list model (inlined instruction)
    for c in cases["cases"]:
        if c.get("via_value"):
            w = list_model(c["fn"], c["list"], c["args"])
            d = dict(c, via_value=False, outcome=w["outcome"], result=w["result"], final=w["final"])
            (okc if w["outcome"] == "ok" else errc).append(d)
            direct.append(d)
    for n, c in enumerate(okc):
        body = op_program(c["fn"], c["list"], c["args"], var="a%d" % n, via_value=c.get("via_value", False))
        body = body.replace("let r =", "let r%d =" % n).replace("println(r)", "println(r%d)" % n)
        src += body + "println(\"--\")\n"
    out, err, rc = abra_cli.run_program(src, timeout=300)
    chunks = out.split("--\n")
    if rc != 0 or len(chunks) < len(okc):
        raise E.Undecided("u16 array fidelity: the real CLI failed on a case the evaluator predicts to succeed: %s" % (out + err)[-600:])
    for c, ch in zip(okc, chunks):
        real = observe(ch, "", 0)
        if real is None or real["result"] != c["result"] or real["final"] != c["final"]:
            bad.append((c, real))
    for c in errc:
        out, err, rc = abra_cli.run_program(op_program(c["fn"], c["list"], c["args"], via_value=c.get("via_value", False)))
        real = observe(out, err, rc)
        if real is None or real["outcome"] != c["outcome"] or real.get("host_panic"):
            bad.append((c, real))
    if bad:
        raise E.Undecided("u16 array fidelity: the evaluator disagrees with the real CLI on %d of %d concrete cases, e.g. %s vs %s: "
                          "generator not trusted" % (len(bad), len(cases["cases"]), bad[0][0], bad[0][1]))
    return dict(cases=len(okc) + len(errc), ok_cases=len(okc), error_cases=len(errc), direct_call_cases=len(direct), disagreements=0)
