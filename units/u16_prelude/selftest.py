#!/usr/bin/env python3-vt
"""Mutation self-test of the U16 generator (run with python3-vt; writes only under a temp dir).

  python3-vt selftest.py [--prelude /repo/modules/prelude.abra] [--json]

Every mutant is a scratch copy of the REAL prelude with one textual edit inside one named block.
  kind 'fail'    : the named obligations must become FAILED (the generator sees the broken law)
  kind 'same'    : semantics-preserving or law-preserving edit: statuses must equal the baseline
  kind 'refuse'  : construct outside the subset / block lost: the named obligations must become
                   UNDECIDED and NO obligation may newly FAIL or newly pass
  kind 'fatal'   : the whole run must refuse (out['fatal'])
Exit 0 iff every mutant behaves as expected.
"""
import argparse
import json
import os
import shutil
import sys
import tempfile

HERE = os.path.dirname(os.path.abspath(__file__))
sys.path.insert(0, HERE)
import vcgen  # noqa: E402
import vcarray  # noqa: E402
import vcloops  # noqa: E402

ORD_LAWS = ['le_iff_not_lt_swapped', 'ge_iff_le_swapped', 'gt_iff_lt_swapped', 'total', 'lt_irreflexive',
            'lt_consistent_with_equal', 'lt_transitive']

T2_ORD = "implement Ord for (T1 Ord, T2 Ord) {"
T3_ORD = "implement Ord for (T1 Ord, T2 Ord, T3 Ord) {"
T4_ORD = "implement Ord for (T1 Ord, T2 Ord, T3 Ord, T4 Ord) {"


def in_block(src, header, old, new, nth=0):
    """Replace the nth occurrence of `old` after `header` (and before the next top-level `implement`)."""
    start = src.index(header)
    end = src.find("\nimplement ", start + 1)
    end = len(src) if end < 0 else end
    block = src[start:end]
    pos = -1
    for _ in range(nth + 1):
        pos = block.index(old, pos + 1)
    return src[:start] + block[:pos] + new + block[pos + len(old):] + src[end:]


def in_fn(src, header, fn, old, new):
    start = src.index(header)
    f = src.index("fn %s(" % fn, start)
    pos = src.index(old, f)
    return src[:pos] + new + src[pos + len(old):]


MUTANTS = [
    # ---- must FAIL
    ("swap `<` for `<=` in the last component of tuple2 less_than", 'fail',
     lambda s: in_fn(s, T2_ORD, "less_than", "Ord.less_than(a2, b2)", "Ord.less_than_or_equal(a2, b2)"),
     ["tuple2.lt_irreflexive", "tuple2.le_iff_not_lt_swapped"]),
    ("swap `<=` for `<` in the last component of tuple3 less_than_or_equal", 'fail',
     lambda s: in_fn(s, T3_ORD, "less_than_or_equal", "Ord.less_than_or_equal(a3, b3)", "Ord.less_than(a3, b3)"),
     ["tuple3.le_iff_not_lt_swapped", "tuple3.ge_iff_le_swapped"]),
    ("drop the comparison of component 2 in tuple3 equal", 'fail',
     lambda s: s.replace("(a1 == b1) and (a2 == b2) and (a3 == b3)\n", "(a1 == b1) and (a3 == b3)\n", 1),
     ["tuple3.lt_consistent_with_equal", "tuple3.hash_respects_equal"]),
    ("drop `if Ord.greater_than(a2, b2) return false` in tuple4 less_than", 'fail',
     lambda s: in_fn(s, T4_ORD, "less_than", "        if Ord.greater_than(a2, b2) return false\n", ""),
     ["tuple4.le_iff_not_lt_swapped", "tuple4.lt_transitive"]),
    ("reorder components in tuple2 greater_than (compare second component first)", 'fail',
     lambda s: in_fn(in_fn(in_fn(s, T2_ORD, "greater_than", "if Ord.greater_than(a1, b1) return true", "if Ord.greater_than(a2, b2) return true"),
                           T2_ORD, "greater_than", "if Ord.less_than(a1, b1) return false", "if Ord.less_than(a2, b2) return false"),
                     T2_ORD, "greater_than", "Ord.greater_than(a2, b2)\n    }", "Ord.greater_than(a1, b1)\n    }"),
     ["tuple2.gt_iff_lt_swapped"]),
    ("`and` -> `or` in tuple2 equal", 'fail',
     lambda s: s.replace("(a1 == b1) and (a2 == b2)\n", "(a1 == b1) or (a2 == b2)\n", 1),
     ["tuple2.equal_transitive", "tuple2.hash_respects_equal", "tuple2.lt_consistent_with_equal"]),
    ("`==` -> `!=` on the last component of tuple4 equal", 'fail',
     lambda s: s.replace("and (a4 == b4)", "and (a4 != b4)", 1),
     ["tuple4.equal_reflexive", "tuple4.total"]),
    ("swap true/false of the first early return in tuple3 greater_than_or_equal", 'fail',
     lambda s: in_fn(s, T3_ORD, "greater_than_or_equal", "if Ord.greater_than(a1, b1) return true", "if Ord.greater_than(a1, b1) return false"),
     ["tuple3.ge_iff_le_swapped"]),
    ("tuple2 equal ignores component 2 (hash still uses it)", 'fail',
     lambda s: s.replace("        (a1 == b1) and (a2 == b2)\n", "        (a1 == b1)\n", 1),
     ["tuple2.hash_respects_equal", "tuple2.lt_consistent_with_equal"]),
    ("bool less_than_or_equal: `not (a and not b)` -> `not a and not b` (precedence matters)", 'fail',
     lambda s: s.replace("fn less_than_or_equal(a, b) = not (a and not b)", "fn less_than_or_equal(a, b) = not a and not b", 1),
     ["bool.le_iff_not_lt_swapped"]),
    ("bool equal: middle branch returns true (equal is constantly true)", 'fail',
     lambda s: s.replace("} else if a or b {\n            false", "} else if a or b {\n            true", 1),
     ["bool.equal_agrees_with_operator", "bool.hash_respects_equal", "bool.lt_consistent_with_equal"]),
    ("bool equal gets an extra branch `else if a { true }` (asymmetric)", 'fail',
     lambda s: s.replace("        if a and b {\n            true\n        } else if a or b {\n            false",
                         "        if a and b {\n            true\n        } else if a {\n            true\n        } else if a or b {\n            false", 1),
     ["bool.equal_symmetric", "bool.equal_agrees_with_operator"]),
    ("void less_than_or_equal = false", 'fail',
     lambda s: in_block(s, "implement Ord for void {", "fn less_than_or_equal(a, b) = true", "fn less_than_or_equal(a, b) = false"),
     ["void.le_iff_not_lt_swapped", "void.ge_iff_le_swapped"]),
    ("void equal = false", 'fail',
     lambda s: in_block(s, "implement Equal for void {", "fn equal(a, b) = true", "fn equal(a, b) = false"),
     ["void.equal_reflexive", "void.total"]),
    ("int less_than delegates with swapped arguments", 'fail',
     lambda s: s.replace("less_than_int(a, b)", "less_than_int(b, a)", 1),
     ["int.less_than_delegates"]),
    ("string greater_than_or_equal delegates to greater_than_string", 'fail',
     lambda s: s.replace("= greater_than_or_equal_string(a, b)", "= greater_than_string(a, b)", 1),
     ["string.greater_than_or_equal_delegates"]),
    ("int equal delegates to less_than_or_equal_int", 'fail',
     lambda s: s.replace("fn equal(a, b) = equal_int(a, b)", "fn equal(a, b) = less_than_or_equal_int(a, b)", 1),
     ["int.equal_delegates"]),
    # ---- must stay exactly as the baseline
    ("bool less_than `(not a) and b` -> `not a and b` (same parse: `not` binds tighter)", 'same',
     lambda s: s.replace("fn less_than(a, b) = (not a) and b", "fn less_than(a, b) = not a and b", 1), []),
    ("tuple3 hash drops component c (coarser hash is still lawful)", 'same',
     lambda s: s.replace("        h = hash_combine(h, c)\n        h\n", "        h\n", 1), []),
    ("hash_combine multiplies by 37 (still a function)", 'same',
     lambda s: s.replace("wrapping_mul(seed, 31)", "wrapping_mul(seed, 37)", 1), []),
    ("tuple2 less_than written with braces and explicit return", 'same',
     lambda s: in_fn(s, T2_ORD, "less_than", "if Ord.less_than(a1, b1) return true", "if Ord.less_than(a1, b1) { return true }"), []),
    ("comment and blank lines inside a block", 'same',
     lambda s: in_fn(s, T2_ORD, "less_than", "        let (b1, b2) = b\n", "        let (b1, b2) = b // second operand\n\n\n"), []),
    # ---- must be refused (UNDECIDED), never guessed
    ("`for` loop inside tuple2 less_than", 'refuse',
     lambda s: in_fn(s, T2_ORD, "less_than", "        let (b1, b2) = b\n", "        let (b1, b2) = b\n        for i in 3 { }\n"),
     ["tuple2.lt_irreflexive", "tuple2.total"]),
    ("method-call syntax `a2.cmp(b2)` in tuple2 less_than", 'refuse',
     lambda s: in_fn(s, T2_ORD, "less_than", "Ord.less_than(a2, b2)", "a2.cmp(b2)"),
     ["tuple2.lt_irreflexive"]),
    ("unknown free function in tuple3 equal", 'refuse',
     lambda s: s.replace("(a1 == b1) and (a2 == b2) and (a3 == b3)\n", "same3(a1, b1) and (a2 == b2) and (a3 == b3)\n", 1),
     ["tuple3.equal_reflexive", "tuple3.hash_respects_equal"]),
    ("`match` in bool equal", 'refuse',
     lambda s: s.replace("        if a and b {\n            true\n        } else if a or b {\n            false\n        } else {\n            true\n        }",
                         "        match (a, b) {\n            (true, true) -> true\n            (false, false) -> true\n            _ -> false\n        }", 1),
     ["bool.equal_reflexive", "bool.total"]),
    ("block header renamed: `implement Ord for bool` lost", 'refuse',
     lambda s: s.replace("implement Ord for bool {", "implement Ord for Bool2 {", 1),
     ["bool.ge_iff_le_swapped", "bool.total"]),
    ("`implement Ord for void` present twice", 'refuse',
     lambda s: s + "\nimplement Ord for void {\n    fn less_than(a, b) = true\n}\n",
     ["void.total", "void.lt_irreflexive"]),
    ("string literal in void equal", 'refuse',
     lambda s: in_block(s, "implement Equal for void {", "fn equal(a, b) = true", 'fn equal(a, b) = "x" == "x"'),
     ["void.equal_reflexive"]),
    ("`else` on the next line in bool equal (parse.rs does not attach it)", 'refuse',
     lambda s: s.replace("        } else {\n            true\n        }\n    }\n}\n\nimplement Equal for string",
                         "        }\n        else {\n            true\n        }\n    }\n}\n\nimplement Equal for string", 1),
     ["bool.equal_reflexive"]),
    ("arithmetic `+` in bool hash", 'refuse',
     lambda s: s.replace("fn hash(a) = if a { 1 } else { 0 }", "fn hash(a) = if a { 1 + 0 } else { 0 }", 1),
     ["bool.hash_respects_equal"]),
    ("assignment to an immutable binding in tuple2 hash (`let h`)", 'refuse',
     lambda s: in_block(s, "implement Hash for (T1 Hash, T2 Hash) {", "var h = 17", "let h = 17"),
     ["tuple2.hash_respects_equal"]),
    ("lambda in void less_than", 'refuse',
     lambda s: in_block(s, "implement Ord for void {", "fn less_than(a, b) = false", "fn less_than(a, b) = (x -> false)(a)"),
     ["void.lt_irreflexive"]),
    ("int less_than wrapped in extra logic (not a pure delegation)", 'refuse',
     lambda s: s.replace("= less_than_int(a, b)", "= less_than_int(a, b) and true", 1),
     ["int.less_than_delegates"]),
    # ---- whole file refused
    ("block comment `/* */` somewhere in the prelude", 'fatal',
     lambda s: s.replace("interface Equal {", "/* note */\ninterface Equal {", 1), []),
    ('multi-line string `"""` somewhere in the prelude', 'fatal',
     lambda s: s + '\nlet zz = """\nimplement Ord for bool {\n"""\n', []),
]


# ----------------------------------------------------------------------------- array mutants (C26)

def fn_body(src, name, new_body):
    """Replace the body of `fn name(...)` inside the first `extend array<T> {` block."""
    start = src.index("extend array<T> {")
    f = src.index("    fn %s(" % name, start)
    b = src.index("{", f)
    depth, i = 0, b
    while True:
        if src[i] == '{':
            depth += 1
        elif src[i] == '}':
            depth -= 1
            if depth == 0:
                break
        i += 1
    return src[:b] + "{\n" + new_body + "    }" + src[i + 1:]


A = "array."
ARRAY_MUTANTS = [
    # ---- the four requested ones: each must make a named obligation FAIL
    ("(1) regression handed over by an independent engineer: remove = `let last = self.pop()  if index < self.len() { self[index] = last }` "
     "(index >= len on a non-empty array silently drops the last element)", 'fail',
     lambda s: fn_body(s, "remove", "        let last = self.pop()\n        if index < self.len() { self[index] = last }\n"),
     [A + "remove.model"]),
    ("(2) swap without the temp", 'fail',
     lambda s: fn_body(s, "swap", "      self[i] = self[j]\n      self[j] = self[i]\n"),
     [A + "swap.model"]),
    ("(3) is_empty as `self.len() == 1`", 'fail',
     lambda s: s.replace("        self.len() == 0\n", "        self.len() == 1\n", 1),
     [A + "is_empty.model"]),
    ("(4) remove pops before swapping", 'fail',
     lambda s: fn_body(s, "remove", "        self.pop()\n        self.swap(index, self.len()-1)\n        nil\n"),
     [A + "remove.model", A + "remove.permutation"]),
    # ---- further mutants that must FAIL
    ("remove accepts negative indices silently (`if index >= 0 { ... }`)", 'fail',
     lambda s: fn_body(s, "remove", "        if index >= 0 {\n            self.swap(index, self.len()-1)\n            self.pop()\n        }\n        nil\n"),
     [A + "remove.model"]),
    ("remove overwrites position index with the last element but forgets to pop", 'fail',
     lambda s: fn_body(s, "remove", "        self.swap(index, self.len()-1)\n        nil\n"),
     [A + "remove.model", A + "remove.permutation"]),
    ("remove = swap with position 0 instead of the last, then pop", 'fail',
     lambda s: s.replace("self.swap(index, self.len()-1)", "self.swap(index, 0)", 1),
     [A + "remove.permutation", A + "remove.order_code_derived"]),
    ("remove pops first and writes the saved last element (out-of-range index leaves a shortened array at the error)", 'fail',
     lambda s: fn_body(s, "remove", "        let last = self.pop()\n        self[index] = last\n        nil\n"),
     [A + "remove.model"]),
    ("push pushes twice", 'fail',
     lambda s: s.replace("        array_push(self, x)\n", "        array_push(self, x)\n        array_push(self, x)\n", 1),
     [A + "push.model"]),
    ("len is off by one", 'fail',
     lambda s: s.replace("        array_length(self)\n", "        array_length(self) - 1\n", 1),
     [A + "len.model"]),
    ("pop returns the last element without removing it", 'fail',
     lambda s: fn_body(s, "pop", "        self[self.len()-1]\n"),
     [A + "pop.model"]),
    ("swap writes slot i before reading slot j (partial modification when only j is out of range)", 'fail',
     lambda s: fn_body(s, "swap", "      let temp = self[i]\n      self[i] = self[self.len()-1]\n      self[i] = self[j]\n      self[j] = temp\n"),
     [A + "swap.error_leaves_array_unchanged"]),
    ("bounds = range(1, len)", 'refuse',
     lambda s: s.replace("range(0, self.len())", "range(1, self.len())", 1),
     [A + "bounds.model"]),
    # ---- must stay exactly as the baseline
    ("swap with a differently named temp and an unused binding", 'same',
     lambda s: fn_body(s, "swap", "      let t = self[i]\n      let _ = self.len()\n      self[i] = self[j]\n      self[j] = t\n"), []),
    ("remove with the last index hoisted into a let", 'same',
     lambda s: fn_body(s, "remove", "        let last = self.len() - 1\n        self.swap(index, last)\n        self.pop()\n        nil\n"), []),
    ("remove written with an explicit range check that agrees with the primitives", 'same',
     lambda s: fn_body(s, "remove", "        if index >= 0 and index < self.len() {\n            self.swap(index, self.len()-1)\n            self.pop()\n        } else {\n            self[index]\n        }\n        nil\n"), []),
    ("is_empty as `not (self.len() > 0)`", 'same',
     lambda s: s.replace("        self.len() == 0\n", "        not (self.len() > 0)\n", 1), []),
    # ---- must be refused (UNDECIDED)
    ("`while` loop inside swap", 'refuse',
     lambda s: fn_body(s, "swap", "      let temp = self[i]\n      while false { }\n      self[i] = self[j]\n      self[j] = temp\n"),
     [A + "swap.model", A + "remove.model"]),
    ("remove calls the loop-containing `self.clear()`", 'refuse',
     lambda s: fn_body(s, "remove", "        self.clear()\n        nil\n"),
     [A + "remove.model"]),
    ("unknown intrinsic in pop", 'refuse',
     lambda s: s.replace("        array_pop(self)\n", "        array_pop_front(self)\n", 1),
     [A + "pop.model"]),
    ("array aliased by a local (`let a = self`)", 'refuse',
     lambda s: fn_body(s, "len", "        let a = self\n        array_length(a)\n"),
     [A + "len.model"]),
    ("multiplication in remove", 'refuse',
     lambda s: s.replace("self.swap(index, self.len()-1)", "self.swap(index * 1, self.len()-1)", 1),
     [A + "remove.model"]),
    ("a second `fn swap` in another `extend array<...>` block", 'refuse',
     lambda s: s + "\nextend array<T Equal> {\n    fn swap(self, i, j) {\n      nil\n    }\n}\n",
     [A + "swap.model"]),
    ("element comparison (`self[i] == self[j]`, would call T's Equal) in swap", 'refuse',
     lambda s: fn_body(s, "swap", "      if self[i] == self[j] { nil } else { nil }\n      let temp = self[i]\n      self[i] = self[j]\n      self[j] = temp\n"),
     [A + "swap.model"]),
]


def array_statuses(out):
    return {o['id'][len("C26.prelude."):]: o['status'] for o in out['obligations']}


def run_array_mutants(src, d, prelude_path):
    results = []
    base = array_statuses(vcarray.analyse_array(prelude_path, with_canaries=False))
    for i, (desc, kind_, mut, named) in enumerate(ARRAY_MUTANTS):
        res = dict(n="A%02d" % (i + 1), mutation=desc, kind=kind_, named=named)
        try:
            msrc = mut(src)
        except ValueError:
            res.update(ok=False, why="mutation anchor not found in this prelude")
            results.append(res)
            continue
        if msrc == src:
            res.update(ok=False, why="mutation anchor not found in this prelude (text unchanged)")
            results.append(res)
            continue
        path = os.path.join(d, "prelude_a%02d.abra" % (i + 1))
        with open(path, 'w', encoding='utf-8') as f:
            f.write(msrc)
        out = vcarray.analyse_array(path, with_canaries=False)
        if out.get('fatal'):
            res.update(ok=False, why="unexpected fatal: " + out['fatal'])
            results.append(res)
            continue
        st = array_statuses(out)
        changed = {k: (base[k], v) for k, v in st.items() if base.get(k) != v}
        res['changed'] = {k: "%s->%s" % v for k, v in sorted(changed.items())}
        res['cex'] = {o['id'][len("C26.prelude."):]: o.get('cex') for o in out['obligations'] if o.get('cex') and o['id'][len("C26.prelude."):] in named}
        if kind_ == 'fail':
            missing = [k for k in named if st.get(k) != 'failed']
            res.update(ok=not missing, why="not failed: %s" % missing if missing else "")
        elif kind_ == 'same':
            res.update(ok=not changed, why="statuses changed" if changed else "")
        else:
            missing = [k for k in named if st.get(k) != 'undecided']
            guessed = [k for k, (b, v) in changed.items() if v != 'undecided']
            res.update(ok=not missing and not guessed,
                       why=("not undecided: %s " % missing if missing else "") + ("verdict changed without being refused: %s" % guessed if guessed else ""))
        results.append(res)
    return results


# ----------------------------------------------------------------------------- loop mutants (C26, bounded unrolling)

L = "array."
CLONE_TAIL = "        }\n        new\n    }\n}\nimplement Clone for void"
LOOP_MUTANTS = [
    # ---- must FAIL
    ("find returns .some(i + 1)", 'fail', lambda s: s.replace("return .some(i)", "return .some(i + 1)", 1), [L + "find.model"]),
    ("find iterates `for i in self.len() - 1`", 'fail',
     lambda s: s.replace("        for i in self.len() {\n            if self[i] == x {", "        for i in self.len() - 1 {\n            if self[i] == x {", 1),
     [L + "find.model", L + "contains.model"]),
    ("find compares with `!=`", 'fail', lambda s: s.replace("            if self[i] == x {", "            if self[i] != x {", 1),
     [L + "find.model", L + "contains.model"]),
    ("contains with its arms swapped", 'fail',
     lambda s: s.replace("            .some(_) -> true\n            .none -> false\n        }\n    }\n}\n\nextend array<T Ord>",
                         "            .some(_) -> false\n            .none -> true\n        }\n    }\n}\n\nextend array<T Ord>", 1),
     [L + "contains.model"]),
    ("clear with `while self.len() > 1`", 'fail', lambda s: s.replace("while self.len() > 0 {", "while self.len() > 1 {", 1), [L + "clear.model"]),
    ("clear with `while true` (pops the empty array: runtime error)", 'fail',
     lambda s: s.replace("while self.len() > 0 {", "while true {", 1), [L + "clear.model"]),
    ("filled pushes twice per round", 'fail',
     lambda s: s.replace("            ret.push(Clone.clone(x))\n", "            ret.push(Clone.clone(x))\n            ret.push(Clone.clone(x))\n", 1),
     [L + "filled.model"]),
    ("filled with `for _ in n - 1`", 'fail', lambda s: s.replace("for _ in n {", "for _ in n - 1 {", 1), [L + "filled.model"]),
    ("filled with `for _ in n + 1`", 'fail', lambda s: s.replace("for _ in n {", "for _ in n + 1 {", 1), [L + "filled.model"]),
    ("filled pushes x itself (no Clone.clone): shared rows for x: array<int>", 'fail',
     lambda s: s.replace("            ret.push(Clone.clone(x))\n", "            ret.push(x)\n", 1), [L + "filled.model"]),
    ("filled `avoids one clone`: clones n-1 times and pushes x itself into the last slot", 'fail',
     lambda s: s.replace("        for _ in n {\n            ret.push(Clone.clone(x))\n        }\n        ret\n",
                         "        for _ in n - 1 {\n            ret.push(Clone.clone(x))\n        }\n        ret.push(x)\n        ret\n", 1),
     [L + "filled.model"]),
    ("the same, guarded for n > 0 (only the independence clause can see it)", 'fail',
     lambda s: s.replace("        for _ in n {\n            ret.push(Clone.clone(x))\n        }\n        ret\n",
                         "        if n > 0 {\n            for _ in n - 1 {\n                ret.push(Clone.clone(x))\n            }\n            ret.push(x)\n        }\n        ret\n", 1),
     [L + "filled.model"]),
    ("clone pushes every element twice", 'fail',
     lambda s: s.replace("            new.push(Clone.clone(x)) // TODO", "            new.push(Clone.clone(x))\n            new.push(Clone.clone(x)) // TODO", 1),
     [L + "clone.model"]),
    ("clone returns `arr` itself (aliasing)", 'fail', lambda s: s.replace(CLONE_TAIL, CLONE_TAIL.replace("        new\n", "        arr\n"), 1),
     [L + "clone.model"]),
    ("clone is shallow (`new.push(x)`)", 'fail', lambda s: s.replace("new.push(Clone.clone(x)) // TODO", "new.push(x) // TODO", 1), [L + "clone.model"]),
    ("Clone for int is `x + 1`", 'fail',
     lambda s: s.replace("implement Clone for int {\n    fn clone(x) = x", "implement Clone for int {\n    fn clone(x) = x + 1", 1),
     [L + "clone.model", L + "filled.model"]),
    ("ArrayIterator.next returns .none one element early", 'fail',
     lambda s: s.replace("if self.i == self.arr.len() {", "if self.i == self.arr.len() - 1 {", 1), [L + "iteration.model", L + "clone.model"]),
    ("ArrayIterator.next advances by 2", 'fail',
     lambda s: s.replace("            self.i = self.i + 1\n", "            self.i = self.i + 2\n", 1), [L + "iteration.model", L + "clone.model"]),
    ("ArrayIterator starts at 1", 'fail', lambda s: s.replace("ArrayIterator(self, 0)", "ArrayIterator(self, 1)", 1), [L + "iteration.model", L + "clone.model"]),
    ("RangeIterator.next tests `>` instead of `>=`", 'fail',
     lambda s: s.replace("if self.begin >= self.end {", "if self.begin > self.end {", 1), [L + "find.model", L + "filled.model"]),
    ("Iterable for int starts at 1", 'fail', lambda s: s.replace("RangeIterator(0, self)", "RangeIterator(1, self)", 1), [L + "find.model", L + "filled.model"]),
    # ---- must stay exactly as the baseline
    ("find compares `x == self[i]` (symmetry of the Equal contract)", 'same', lambda s: s.replace("if self[i] == x {", "if x == self[i] {", 1), []),
    ("clear with `while not (self.len() == 0)`", 'same', lambda s: s.replace("while self.len() > 0 {", "while not (self.len() == 0) {", 1), []),
    ("contains with a wildcard arm", 'same',
     lambda s: s.replace("            .some(_) -> true\n            .none -> false\n        }\n    }\n}\n\nextend array<T Ord>",
                         "            .none -> false\n            _ -> true\n        }\n    }\n}\n\nextend array<T Ord>", 1), []),
    ("find written with `continue`", 'same',
     lambda s: s.replace("            if self[i] == x {\n                return .some(i)\n            }\n",
                         "            if self[i] != x {\n                continue\n            }\n            return .some(i)\n", 1), []),
    # ---- must be refused / undecided, never guessed
    ("clear never pops (unwinding assertion)", 'refuse',
     lambda s: s.replace("            self.pop()\n        }\n    }\n\n    fn bounds", "            self.len()\n        }\n    }\n\n    fn bounds", 1), [L + "clear.model"]),
    ("lambda inside find", 'refuse', lambda s: s.replace("            if self[i] == x {", "            let f = (y -> y)\n            if self[i] == x {", 1),
     [L + "find.model", L + "contains.model"]),
    ("`type option` lists `none` first (the for-lowering takes tag 0 as `some`)", 'refuse',
     lambda s: s.replace("type option<T> = some(T) | none", "type option<T> = none | some(T)", 1), [L + "find.model", L + "iteration.model"]),
    ("a second `fn find` in another extend block", 'refuse',
     lambda s: s + "\nextend array<T> {\n    fn find(self, x) {\n      nil\n    }\n}\n", [L + "find.model", L + "contains.model"]),
    ("element comparison `<` in find (T's Ord is not modelled)", 'refuse',
     lambda s: s.replace("            if self[i] == x {", "            if self[i] < x {", 1), [L + "find.model"]),
]


def loop_statuses(out):
    return {o['id'][len("C26.prelude."):]: o['status'] for o in out['obligations']}


def run_loop_mutants(src, d, prelude_path, N=4):
    results = []
    base = loop_statuses(vcloops.analyse_loops(prelude_path, N, with_canaries=False))
    for i, (desc, kind_, mut, named) in enumerate(LOOP_MUTANTS):
        res = dict(n="L%02d" % (i + 1), mutation=desc, kind=kind_, named=named)
        msrc = mut(src)
        if msrc == src:
            res.update(ok=False, why="mutation anchor not found in this prelude (text unchanged)")
            results.append(res)
            continue
        path = os.path.join(d, "prelude_l%02d.abra" % (i + 1))
        with open(path, 'w', encoding='utf-8') as f:
            f.write(msrc)
        out = vcloops.analyse_loops(path, N, with_canaries=False)
        if out.get('fatal'):
            res.update(ok=False, why="unexpected fatal: " + out['fatal'])
            results.append(res)
            continue
        st = loop_statuses(out)
        changed = {k: (base[k], v) for k, v in st.items() if base.get(k) != v}
        res['changed'] = {k: "%s->%s" % v for k, v in sorted(changed.items())}
        if kind_ == 'fail':
            missing = [k for k in named if st.get(k) != 'failed']
            res.update(ok=not missing, why="not failed: %s" % missing if missing else "")
        elif kind_ == 'same':
            res.update(ok=not changed, why="statuses changed" if changed else "")
        else:
            missing = [k for k in named if st.get(k) != 'undecided']
            guessed = [k for k, (b, v) in changed.items() if v == 'discharged']
            res.update(ok=not missing and not guessed,
                       why=("not undecided: %s " % missing if missing else "") + ("verdict changed without being refused: %s" % guessed if guessed else ""))
        results.append(res)
    return results


# ----------------------------------------------------------------------------- array Equal / Hash law mutants (C24, bounded unrolling)

EA, HA = "Equal.array.", "Hash.array."
LAW_MUTANTS = [
    ("Equal for array: the length check is dropped", 'fail',
     lambda s: s.replace("        if a.len() != b.len() {\n            return false\n        }\n        for i in a.len() {", "        for i in a.len() {", 1),
     [EA + "symmetric", EA + "model"]),
    ("Equal for array: `for i in a.len() - 1`", 'fail',
     lambda s: s.replace("        for i in a.len() {\n            if a[i] != b[i] {", "        for i in a.len() - 1 {\n            if a[i] != b[i] {", 1),
     [EA + "model", HA + "consistent"]),
    ("Equal for array: `==` instead of `!=` in the loop", 'fail',
     lambda s: s.replace("            if a[i] != b[i] {", "            if a[i] == b[i] {", 1), [EA + "reflexive", EA + "model"]),
    ("Hash for array starts from a.len() instead of 17 (still consistent)", 'same',
     lambda s: s.replace("        var h = 17\n        for elem in a {", "        var h = a.len()\n        for elem in a {", 1), []),
    ("Hash for array ignores the elements (coarser, still consistent)", 'same',
     lambda s: s.replace("            h = hash_combine(h, elem)", "            h = hash_combine(h, 0)", 1), []),
    ("Hash for array combines in the other argument order (still a function of the elements)", 'same',
     lambda s: s.replace("wrapping_add(wrapping_mul(seed, 31), Hash.hash(value))", "wrapping_add(Hash.hash(value), wrapping_mul(seed, 31))", 1), []),
    ("`while` with a lambda in Equal for array", 'refuse',
     lambda s: s.replace("        for i in a.len() {\n            if a[i] != b[i] {", "        let f = (y -> y)\n        for i in a.len() {\n            if a[i] != b[i] {", 1),
     [EA + "reflexive", HA + "consistent"]),
]


def run_law_mutants(src, d, prelude_path, N=3):
    results = []
    st_of = lambda out: {o['id'][len("C24.prelude."):]: o['status'] for o in out['obligations']}  # noqa: E731
    base = st_of(vcloops.analyse_array_laws(prelude_path, N, with_canaries=False))
    for i, (desc, kind_, mut, named) in enumerate(LAW_MUTANTS):
        res = dict(n="E%02d" % (i + 1), mutation=desc, kind=kind_, named=named)
        msrc = mut(src)
        if msrc == src:
            res.update(ok=False, why="mutation anchor not found in this prelude (text unchanged)")
            results.append(res)
            continue
        path = os.path.join(d, "prelude_e%02d.abra" % (i + 1))
        with open(path, 'w', encoding='utf-8') as f:
            f.write(msrc)
        out = vcloops.analyse_array_laws(path, N, with_canaries=False)
        if out.get('fatal'):
            res.update(ok=False, why="unexpected fatal: " + out['fatal'])
            results.append(res)
            continue
        st = st_of(out)
        changed = {k: (base[k], v) for k, v in st.items() if base.get(k) != v}
        res['changed'] = {k: "%s->%s" % v for k, v in sorted(changed.items())}
        if kind_ == 'fail':
            missing = [k for k in named if st.get(k) != 'failed']
            res.update(ok=not missing, why="not failed: %s" % missing if missing else "")
        elif kind_ == 'same':
            res.update(ok=not changed, why="statuses changed" if changed else "")
        else:
            missing = [k for k in named if st.get(k) != 'undecided']
            guessed = [k for k, (b, v) in changed.items() if v == 'discharged']
            res.update(ok=not missing and not guessed,
                       why=("not undecided: %s " % missing if missing else "") + ("verdict changed without being refused: %s" % guessed if guessed else ""))
        results.append(res)
    return results


def statuses(out):
    return {"%s.%s" % (o['type'], o['law']): o['status'] for o in out['obligations']}


def main():
    ap = argparse.ArgumentParser()
    ap.add_argument('--prelude', default=os.path.join(os.environ.get("ABRA_REPO", "/repo"), "modules/prelude.abra"))
    ap.add_argument('--json', action='store_true')
    ap.add_argument('--no-arrays', action='store_true')
    ap.add_argument('--only-arrays', action='store_true')
    args = ap.parse_args()
    with open(args.prelude, encoding='utf-8') as f:
        src = f.read()
    d = tempfile.mkdtemp(prefix="abra-verif.u16self.")
    results = []
    try:
        base = statuses(vcgen.analyse(args.prelude, canaries=False, arrays=False))
        for i, (desc, kind_, mut, named) in enumerate([] if args.only_arrays else MUTANTS):
            res = dict(n=i + 1, mutation=desc, kind=kind_, named=named)
            try:
                msrc = mut(src)
            except ValueError:
                res.update(ok=False, why="mutation anchor not found in this prelude")
                results.append(res)
                continue
            if msrc == src:
                res.update(ok=False, why="mutation did not change the text")
                results.append(res)
                continue
            path = os.path.join(d, "prelude_m%02d.abra" % (i + 1))
            with open(path, 'w', encoding='utf-8') as f:
                f.write(msrc)
            out = vcgen.analyse(path, canaries=False, arrays=False)
            if kind_ == 'fatal':
                res.update(ok=bool(out.get('fatal')), why=out.get('fatal', 'not refused'))
                results.append(res)
                continue
            if out.get('fatal'):
                res.update(ok=False, why="unexpected fatal: " + out['fatal'])
                results.append(res)
                continue
            st = statuses(out)
            changed = {k: (base[k], v) for k, v in st.items() if base.get(k) != v}
            res['changed'] = {k: "%s->%s" % v for k, v in sorted(changed.items())}
            if kind_ == 'fail':
                missing = [k for k in named if st.get(k) != 'failed']
                newly_ok = [k for k, (b, v) in changed.items() if v == 'discharged']
                res.update(ok=not missing and not newly_ok, why="not failed: %s" % missing if missing else "")
            elif kind_ == 'same':
                res.update(ok=not changed, why="statuses changed" if changed else "")
            elif kind_ == 'refuse':
                missing = [k for k in named if st.get(k) != 'undecided']
                guessed = [k for k, (b, v) in changed.items() if v != 'undecided']
                res.update(ok=not missing and not guessed,
                           why=("not undecided: %s " % missing if missing else "") + ("verdict changed without being refused: %s" % guessed if guessed else ""))
            results.append(res)
        if not args.no_arrays:
            results += run_array_mutants(src, d, args.prelude)
            results += run_loop_mutants(src, d, args.prelude)
            results += run_law_mutants(src, d, args.prelude)
    finally:
        shutil.rmtree(d, ignore_errors=True)
    ok = all(r['ok'] for r in results)
    if args.json:
        print(json.dumps(dict(ok=ok, n=len(results), results=results)))
    else:
        for r in results:
            print("%s %s [%s] %s" % ("ok  " if r['ok'] else "MISS", ("M%02d" % r['n']) if isinstance(r['n'], int) else r['n'], r['kind'], r['mutation']))
            if r.get('changed'):
                print("        " + ", ".join("%s %s" % kv for kv in r['changed'].items()))
            if r.get('why'):
                print("        " + r['why'][:300])
        print("self-test %s: %d/%d mutants behaved as expected" % ("PASSED" if ok else "FAILED", sum(r['ok'] for r in results), len(results)))
    return 0 if ok else 1


if __name__ == '__main__':
    sys.exit(main())
