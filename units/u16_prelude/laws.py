"""The C24 laws, written once over abstract atoms so that the SAME definition is
  (a) turned into a Z3 goal over the symbolically evaluated prelude functions (vcgen.py),
  (b) instantiated as the ASSUMED contract on tuple component types (vcgen.py), and
  (c) evaluated on the real CLI's printed answers in replay (__init__.py).

A law is (name, variables, fn(A, L)) where A(kind, *vars) yields an atom and L is a logic:
  atoms: eq(x,y) = Equal.equal(x, y);  opeq(x,y) = `x == y`;  lt/le/gt/ge = `<` `<=` `>` `>=`;
         hash(x) = Hash.hash(x)
The statements come from the property text (C24) / language reference, not from the code.
"""


class PyLogic:
    """Logic over Python bools / ints (replay)."""
    @staticmethod
    def and_(*a):
        return all(a)

    @staticmethod
    def or_(*a):
        return any(a)

    @staticmethod
    def not_(a):
        return not a

    @staticmethod
    def implies(a, b):
        return (not a) or b

    @staticmethod
    def iff(a, b):
        return bool(a) == bool(b)

    @staticmethod
    def same(a, b):
        return a == b


LAWS = [
    ('equal_reflexive', ('x',),
     lambda A, L: A('eq', 'x', 'x'),
     "forall x. Equal.equal(x, x)"),
    ('equal_symmetric', ('x', 'y'),
     lambda A, L: L.implies(A('eq', 'x', 'y'), A('eq', 'y', 'x')),
     "forall x y. Equal.equal(x, y) ==> Equal.equal(y, x)"),
    ('equal_transitive', ('x', 'y', 'z'),
     lambda A, L: L.implies(L.and_(A('eq', 'x', 'y'), A('eq', 'y', 'z')), A('eq', 'x', 'z')),
     "forall x y z. Equal.equal(x, y) and Equal.equal(y, z) ==> Equal.equal(x, z)"),
    ('le_iff_not_lt_swapped', ('x', 'y'),
     lambda A, L: L.iff(A('le', 'x', 'y'), L.not_(A('lt', 'y', 'x'))),
     "forall x y. (x <= y) <=> not (y < x)"),
    ('ge_iff_le_swapped', ('x', 'y'),
     lambda A, L: L.iff(A('ge', 'x', 'y'), A('le', 'y', 'x')),
     "forall x y. (x >= y) <=> (y <= x)"),
    ('gt_iff_lt_swapped', ('x', 'y'),
     lambda A, L: L.iff(A('gt', 'x', 'y'), A('lt', 'y', 'x')),
     "forall x y. (x > y) <=> (y < x)"),
    ('total', ('x', 'y'),
     lambda A, L: L.or_(A('lt', 'x', 'y'), A('eq', 'x', 'y'), A('lt', 'y', 'x')),
     "forall x y. (x < y) or Equal.equal(x, y) or (y < x)"),
    ('lt_irreflexive', ('x',),
     lambda A, L: L.not_(A('lt', 'x', 'x')),
     "forall x. not (x < x)"),
    ('lt_consistent_with_equal', ('x', 'y'),
     lambda A, L: L.implies(A('eq', 'x', 'y'), L.and_(L.not_(A('lt', 'x', 'y')), L.not_(A('lt', 'y', 'x')))),
     "forall x y. Equal.equal(x, y) ==> not (x < y) and not (y < x)"),
    ('lt_transitive', ('x', 'y', 'z'),
     lambda A, L: L.implies(L.and_(A('lt', 'x', 'y'), A('lt', 'y', 'z')), A('lt', 'x', 'z')),
     "forall x y z. (x < y) and (y < z) ==> (x < z)"),
    ('hash_respects_equal', ('x', 'y'),
     lambda A, L: L.implies(A('eq', 'x', 'y'), L.same(A('hash', 'x'), A('hash', 'y'))),
     "forall x y. Equal.equal(x, y) ==> Hash.hash(x) == Hash.hash(y)"),
]

# only where the `==` operator does NOT go through the prelude impl (bool: inlined EqualBool opcode)
EXTRA_LAWS = {
    'bool': [
        ('equal_agrees_with_operator', ('x', 'y'),
         lambda A, L: L.iff(A('eq', 'x', 'y'), A('opeq', 'x', 'y')),
         "forall x y: bool. Equal.equal(x, y) <=> (x == y)   [`==` on bool is the inlined EqualBool opcode]"),
    ],
}

# vacuity canaries: must be REFUTED for every type, otherwise the evaluator / assumptions are vacuous
CANARIES = [
    ('canary_false', ('x', 'y'),
     lambda A, L: L.and_(A('lt', 'x', 'y'), L.not_(A('lt', 'x', 'y'))),
     "false (must be refuted: assumptions are satisfiable)"),
    ('canary_eq_is_lt', ('x', 'y'),
     lambda A, L: L.iff(A('eq', 'x', 'y'), A('lt', 'x', 'y')),
     "Equal.equal(x, y) <=> (x < y) (must be refuted: the functions are not constant/vacuous)"),
]

LAW_BY_NAME = {l[0]: l for l in LAWS + CANARIES + [x for v in EXTRA_LAWS.values() for x in v]}

ABRA_ATOM = {
    'eq': lambda a, b: "Equal.equal(%s, %s)" % (a, b),
    'opeq': lambda a, b: "%s == %s" % (a, b),
    'lt': lambda a, b: "%s < %s" % (a, b),
    'le': lambda a, b: "%s <= %s" % (a, b),
    'gt': lambda a, b: "%s > %s" % (a, b),
    'ge': lambda a, b: "%s >= %s" % (a, b),
    'hash': lambda a: "Hash.hash(%s)" % a,
}


def atoms_of(law):
    """Atoms a law mentions, in first-use order."""
    seen = []

    class Rec:
        def __getattr__(self, _):
            return lambda *a: True

    def A(kind, *vs):
        k = (kind,) + tuple(vs)
        if k not in seen:
            seen.append(k)
        return True
    law[2](A, Rec())
    return seen


# which interface impls of the prelude each atom kind needs
IFACE_OF_ATOM = {'eq': 'Equal', 'opeq': 'Equal', 'lt': 'Ord', 'le': 'Ord', 'gt': 'Ord', 'ge': 'Ord', 'hash': 'Hash'}
METHOD_OF_ATOM = {'eq': 'equal', 'lt': 'less_than', 'le': 'less_than_or_equal', 'gt': 'greater_than',
                  'ge': 'greater_than_or_equal', 'hash': 'hash'}

# int / float / string: the prelude impl must delegate to the VM intrinsic of the same name
DELEGATION = {
    ty: [('Equal', 'equal', 'equal_' + ty)] + [('Ord', m, m + '_' + ty) for m in
                                              ('less_than', 'less_than_or_equal', 'greater_than', 'greater_than_or_equal')]
    for ty in ('int', 'float', 'string')
}
