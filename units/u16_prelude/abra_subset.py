"""Lexer / recursive-descent parser for the LOOP-FREE subset of Abra used by the prelude's
`implement Equal/Ord/Hash for ...` blocks, and the cutter that lifts those blocks out of the
real modules/prelude.abra BY NAME.

The parser mirrors abra_core/src/parse.rs (Pratt loop of `parse_expr_bp`, `parse_expr_term`,
`parse_stmt`, `parse_delimited_list`, newline handling) for the constructs it accepts and raises
`Unsupported` for everything else.  `Unsupported` always becomes UNDECIDED, never a verdict.

Accepted grammar (tokens: identifiers, decimal int literals, keywords, `( ) { } , ; : = == != < <=
> >= . - ->`, newline; `//` comments are skipped; anything else, including string literals, `/*`,
`[`, `+`, `*`, `..`, `!`, `?`, `|`, `#`, is refused):

  impl     ::= 'implement' IDENT 'for' type '{' { NL } fn { NL+ fn } { NL } '}'
  fn       ::= 'fn' IDENT '(' [ param { ',' param } ] ')' [ '->' type ] ( '=' expr | block )
  param    ::= IDENT [ ':' type ]
  type     ::= 'int' | 'bool' | 'void' | 'float' | 'string' | POLY { IDENT }
             | '(' type ',' type { ',' type } ')'                       (only in impl headers)
  block    ::= '{' stmt { (NL | ';') stmt } '}'                         (blank lines allowed)
  stmt     ::= ('let' | 'var') pattern '=' expr
             | 'return' expr
             | IDENT '=' expr                                           (assignment to a `var`)
             | expr
  pattern  ::= IDENT | '_' | '(' (IDENT|'_') ',' (IDENT|'_') { ',' (IDENT|'_') } ')'
  expr     ::= Pratt: prefix 'not' (bp 10); binary, all left-associative:
               'and' 'or' (1)  '==' '!=' (2)  '<' '<=' '>' '>=' (5);
               postfix call '(' args ')' (13) on an IDENT or on IDENT '.' IDENT (11)
  term     ::= IDENT | INT | '-' INT | 'true' | 'false' | 'nil'
             | '(' expr ')' | '(' expr ',' expr { ',' expr } ')'
             | 'if' expr stmt [ 'else' stmt ]       ('else' must follow on the same line, as in parse.rs)
             | block
ext mode (only for `extend array<T>` member functions, Prelude.extend_fn; the Equal/Ord/Hash blocks are
still parsed WITHOUT it): additionally `[ ] +`; postfix index `e '[' expr ']'` (bp 12); binary `+` `-`
(bp 6, left-assoc); statement `e '[' expr ']' '=' expr`; named types (`-> range`); the receiver of a
method call may be a local (`self.len()`), which parses to the same node as `Interface.method(...)`.

loops mode (ONLY for the bounded-unrolling array obligations of vcloops.py; implies ext; the Equal/Ord/Hash blocks and
the loop-free array members are still parsed WITHOUT it, so a loop there is still refused): additionally
  statements  `while` expr block | `for` pattern `in` expr block | `break` | `continue` | e '.' IDENT '=' expr
  terms       `match` expr '{' arm { (NL | ',') arm } '}'   arm ::= mpat '->' stmt
              mpat ::= '_' | '.' IDENT [ '(' (IDENT | '_') ')' ]
              '.' IDENT (leading-dot variant; a following call makes `.some(e)`) | '[' [ expr { ',' expr } ] ']'
  postfix     field access e '.' IDENT without a call; method call on a computed receiver `e.f.m(args)`
  types       NAME '<' type { ',' type } '>'  (array<T Clone>, option<int>, ArrayIterator<V>)
plus the cutters Prelude.impl_for(iface, ctor), Prelude.extend_fn_any(ctor, name), Prelude.struct_fields(name),
Prelude.enum_variants(name).

Refused on sight: `match`, `while`, `for`, `break`, `continue`, `task`, lambdas (`->` after a term),
bare `return`, compound assignment, type annotations on `let`, default arguments, attributes,
member access other than IDENT.IDENT(args), indexing, `!`/`?`, arithmetic, strings, floats.
"""
import hashlib
import re


class Unsupported(Exception):
    """Construct outside the accepted subset, or a block that cannot be located exactly once."""


KEYWORDS = {
    'let', 'var', 'type', 'interface', 'outputtype', 'implement', 'impl', 'extend', 'use', 'as',
    'except', 'fn', 'match', 'and', 'or', 'not', 'break', 'continue', 'return', 'while', 'for',
    'in', 'if', 'else', 'task', 'nil', 'true', 'false', 'int', 'float', 'bool', 'string', 'void',
}
PRIM_TYPES = ('int', 'bool', 'void', 'float', 'string')


def sha(text):
    return hashlib.sha256(text.encode()).hexdigest()[:16]


# ----------------------------------------------------------------------------- masking

def mask(src):
    """Same-length copy of the file with `//` comments blanked and string literals turned into
    `"` + \\x01.. + `"` (so a string can never be mistaken for code and is still refused by the
    block lexer).  Constructs whose real lexing we do not mirror are refused outright."""
    out = []
    i, n = 0, len(src)
    while i < n:
        c = src[i]
        if c == '/' and i + 1 < n and src[i + 1] == '/':
            j = src.find('\n', i)
            j = n if j < 0 else j
            out.append(' ' * (j - i))
            i = j
        elif c == '/' and i + 1 < n and src[i + 1] == '*':
            raise Unsupported("block comment `/*` in prelude.abra (lexing of block comments is not mirrored)")
        elif c in '"\'':
            if src.startswith('"""', i):
                raise Unsupported('multi-line string `"""` in prelude.abra (not mirrored)')
            j = i + 1
            while True:
                if j >= n:
                    raise Unsupported("unterminated string literal at offset %d" % i)
                if src[j] == '\\':
                    j += 2
                    continue
                if src[j] == c:
                    break
                j += 1
            body = src[i + 1:j]
            out.append('"' + ''.join('\n' if ch == '\n' else '\x01' for ch in body) + '"')
            i = j + 1
        else:
            out.append(c)
            i += 1
    m = ''.join(out)
    assert len(m) == len(src)
    return m


def _match_brace(masked, open_idx):
    depth = 0
    for i in range(open_idx, len(masked)):
        c = masked[i]
        if c == '{':
            depth += 1
        elif c == '}':
            depth -= 1
            if depth == 0:
                return i
    raise Unsupported("unbalanced braces after offset %d" % open_idx)


def _depth_at(masked, pos):
    return masked.count('{', 0, pos) - masked.count('}', 0, pos)


class Prelude:
    """The real prelude text plus by-name access to its blocks."""

    def __init__(self, path):
        self.path = path
        with open(path, encoding='utf-8') as f:
            self.src = f.read()
        self.masked = mask(self.src)
        self._headers = None
        self._cache = {}

    # impl headers: (iface, normalised type text, header start, index of '{')
    def headers(self):
        if self._headers is None:
            hs = []
            for m in re.finditer(r'^[ \t]*implement[ \t]+([A-Za-z_][A-Za-z0-9_]*)[ \t]+for[ \t]+([^\n{]*?)[ \t]*\{',
                                 self.masked, re.M):
                if _depth_at(self.masked, m.start()) != 0:
                    continue
                hs.append((m.group(1), re.sub(r'\s+', ' ', m.group(2)).strip(), m.start(), m.end() - 1))
            self._headers = hs
        return self._headers

    @staticmethod
    def type_key(iface, ty):
        """'bool' ... or 'tupleN' for `(A I, B I, ...)` with N distinct type variables each constrained
        by exactly the implemented interface; None for anything else."""
        if ty in PRIM_TYPES:
            return ty
        m = re.fullmatch(r'\((.*)\)', ty)
        if not m:
            return None
        parts = [p.strip() for p in m.group(1).split(',')]
        names = []
        for p in parts:
            pm = re.fullmatch(r'([A-Z][0-9]*) ([A-Za-z_][A-Za-z0-9_]*)', p)
            if not pm or pm.group(2) != iface:
                return None
            names.append(pm.group(1))
        if len(names) < 2 or len(set(names)) != len(names):
            return None
        return 'tuple%d' % len(names)

    def impl_text(self, iface, tkey):
        hits = [h for h in self.headers() if h[0] == iface and self.type_key(iface, h[1]) == tkey]
        if len(hits) != 1:
            raise Unsupported("expected exactly one `implement %s for <%s>` in %s, found %d"
                              % (iface, tkey, self.path, len(hits)))
        _, ty, start, brace = hits[0]
        end = _match_brace(self.masked, brace)
        return self.src[start:end + 1], self.masked[start:end + 1], ty

    def impl(self, iface, tkey):
        """-> dict(fns={name: FnDef}, text, sha, header)"""
        k = ('impl', iface, tkey)
        if k not in self._cache:
            try:
                raw, masked, ty = self.impl_text(iface, tkey)
                p = Parser(lex(masked), "implement %s for %s" % (iface, ty))
                got_iface, fns = p.parse_impl()
                if got_iface != iface:
                    raise Unsupported("header mismatch")
                self._cache[k] = dict(fns=fns, text=raw, sha=sha(raw), header="implement %s for %s" % (iface, ty))
            except Unsupported as e:
                self._cache[k] = e
        v = self._cache[k]
        if isinstance(v, Exception):
            raise v
        return v

    def extend_fn(self, recv, name):
        """Method `name` of `extend <recv> { ... }` (recv e.g. 'array<T>'), cut by name.  There may be
        several `extend array<...>` blocks; the method must be defined exactly once across ALL blocks
        whose receiver starts with the same type constructor, and that one must be in a `<recv>` block.
        Only that function's text is parsed (ext mode); its neighbours may be outside the subset."""
        k = ('ext', recv, name)
        if k not in self._cache:
            try:
                ctor = recv.split('<')[0]
                hits = []
                for m in re.finditer(r'^[ \t]*extend[ \t]+([^\n{]*?)[ \t]*\{', self.masked, re.M):
                    if _depth_at(self.masked, m.start()) != 0:
                        continue
                    ty = re.sub(r'\s+', ' ', m.group(1)).strip()
                    if ty.split('<')[0].strip() != ctor:
                        continue
                    bstart, bend = m.end() - 1, _match_brace(self.masked, m.end() - 1)
                    for f in re.finditer(r'^[ \t]*fn[ \t]+%s[ \t]*\(' % re.escape(name), self.masked[bstart:bend], re.M):
                        pos = bstart + f.start()
                        if _depth_at(self.masked, pos) == 1:
                            hits.append((ty, pos, bend))
                if len(hits) != 1 or hits[0][0] != recv:
                    raise Unsupported("expected exactly one `fn %s` in the `extend %s` blocks of %s, found %s"
                                      % (name, recv, self.path, [h[0] for h in hits]))
                ty, start, bend = hits[0]
                start = self.masked.index('fn', start)
                nl = self.masked.find('\n', start)
                brace = self.masked.find('{', start, nl)
                end = _match_brace(self.masked, brace) + 1 if brace >= 0 else nl
                if end > bend:
                    raise Unsupported("function text runs past its block")
                raw, masked = self.src[start:end], self.masked[start:end]
                p = Parser(lex(masked, ext=True), "extend %s :: fn %s" % (recv, name), ext=True)
                p.skip_newlines()
                fn = p.parse_fn_def()
                p.skip_newlines()
                p.expect('eof')
                self._cache[k] = dict(fn=fn, text=raw, sha=sha(raw), header="extend %s :: fn %s" % (recv, name))
            except Unsupported as e:
                self._cache[k] = e
        v = self._cache[k]
        if isinstance(v, Exception):
            raise v
        return v

    # ---- cutters for the bounded-unrolling subset (vcloops.py); everything is located BY NAME and must be unique
    def impl_for(self, iface, ctor):
        """`implement <iface> for <ctor>[<...>] { ... }` parsed in loops mode; ctor = the type constructor
        ('array', 'int', 'ArrayIterator', ...).  Exactly one such block must exist."""
        k = ('impl_l', iface, ctor)
        if k not in self._cache:
            try:
                hits = [h for h in self.headers() if h[0] == iface and h[1].split('<')[0].strip() == ctor]
                if len(hits) != 1:
                    raise Unsupported("expected exactly one `implement %s for %s...` in %s, found %d"
                                      % (iface, ctor, self.path, len(hits)))
                _, ty, start, brace = hits[0]
                end = _match_brace(self.masked, brace)
                raw, masked = self.src[start:end + 1], self.masked[start:end + 1]
                header = "implement %s for %s" % (iface, ty)
                p = Parser(lex(masked, ext=True), header, loops=True)
                got_iface, fns = p.parse_impl()
                if got_iface != iface:
                    raise Unsupported("header mismatch")
                self._cache[k] = dict(fns=fns, text=raw, sha=sha(raw), header=header, type=ty)
            except Unsupported as e:
                self._cache[k] = e
        v = self._cache[k]
        if isinstance(v, Exception):
            raise v
        return v

    def extend_fn_any(self, ctor, name):
        """Member `name` of whichever `extend <ctor><...> { }` block defines it (exactly one across all of them),
        parsed in loops mode.  -> dict(fn, text, sha, header, recv)"""
        k = ('ext_l', ctor, name)
        if k not in self._cache:
            try:
                hits = []
                for m in re.finditer(r'^[ \t]*extend[ \t]+([^\n{]*?)[ \t]*\{', self.masked, re.M):
                    if _depth_at(self.masked, m.start()) != 0:
                        continue
                    ty = re.sub(r'\s+', ' ', m.group(1)).strip()
                    if ty.split('<')[0].strip() != ctor:
                        continue
                    bstart, bend = m.end() - 1, _match_brace(self.masked, m.end() - 1)
                    for f in re.finditer(r'^[ \t]*fn[ \t]+%s[ \t]*\(' % re.escape(name), self.masked[bstart:bend], re.M):
                        pos = bstart + f.start()
                        if _depth_at(self.masked, pos) == 1:
                            hits.append((ty, pos, bend))
                if len(hits) != 1:
                    raise Unsupported("expected exactly one `fn %s` in the `extend %s<...>` blocks of %s, found %s"
                                      % (name, ctor, self.path, [h[0] for h in hits]))
                ty, start, bend = hits[0]
                start = self.masked.index('fn', start)
                nl = self.masked.find('\n', start)
                brace = self.masked.find('{', start, nl)
                end = _match_brace(self.masked, brace) + 1 if brace >= 0 else nl
                if end > bend:
                    raise Unsupported("function text runs past its block")
                raw, masked = self.src[start:end], self.masked[start:end]
                header = "extend %s :: fn %s" % (ty, name)
                p = Parser(lex(masked, ext=True), header, loops=True)
                p.skip_newlines()
                fn = p.parse_fn_def()
                p.skip_newlines()
                p.expect('eof')
                self._cache[k] = dict(fn=fn, text=raw, sha=sha(raw), header=header, recv=ty)
            except Unsupported as e:
                self._cache[k] = e
        v = self._cache[k]
        if isinstance(v, Exception):
            raise v
        return v

    def _type_def(self, name):
        hits = [m for m in re.finditer(r'^type[ \t]+%s\b[^\n=]*=[ \t]*' % re.escape(name), self.masked, re.M)
                if _depth_at(self.masked, m.start()) == 0]
        if len(hits) != 1:
            raise Unsupported("expected exactly one top-level `type %s` in %s, found %d" % (name, self.path, len(hits)))
        return hits[0]

    def struct_fields(self, name):
        """`type NAME<..> = { f1: T1 \n f2: T2 }` -> dict(fields=[f1, f2], text, sha, header); the field order is the
        order of the positional constructor NAME(v1, v2)."""
        k = ('struct', name)
        if k not in self._cache:
            try:
                m = self._type_def(name)
                if self.masked[m.end():m.end() + 1] != '{':
                    raise Unsupported("`type %s` is not a struct definition" % name)
                end = _match_brace(self.masked, m.end())
                raw = self.src[m.start():end + 1]
                body = self.masked[m.end() + 1:end]
                fields = []
                for ln in re.split(r'[\n,]', body):
                    ln = ln.strip()
                    if not ln:
                        continue
                    fm = re.fullmatch(r'([a-z_][A-Za-z0-9_]*)[ \t]*:[ \t]*([A-Za-z_][A-Za-z0-9_<>, ]*)', ln)
                    if not fm:
                        raise Unsupported("field line `%s` of `type %s` is outside the subset" % (ln[:60], name))
                    fields.append(fm.group(1))
                if not fields or len(set(fields)) != len(fields):
                    raise Unsupported("`type %s`: no fields / duplicate fields" % name)
                self._cache[k] = dict(fields=fields, text=raw, sha=sha(raw), header="type " + name)
            except Unsupported as e:
                self._cache[k] = e
        v = self._cache[k]
        if isinstance(v, Exception):
            raise v
        return v

    def enum_variants(self, name):
        """`type NAME<T> = a(T) | b` on one line -> dict(variants=[(a, 1), (b, 0)], ...); the position is the VM tag."""
        k = ('enum', name)
        if k not in self._cache:
            try:
                m = self._type_def(name)
                nl = self.src.find('\n', m.end())
                nl = len(self.src) if nl < 0 else nl
                raw = self.src[m.start():nl]
                body = self.masked[m.end():nl]
                if '{' in body or not body.strip():
                    raise Unsupported("`type %s` is not a one-line enum definition" % name)
                # parse.rs::parse_enum_def continues over following lines that start with `|`
                rest = self.masked[nl + 1:self.masked.find('\n', nl + 1)] if nl + 1 < len(self.masked) else ''
                if rest.strip().startswith('|'):
                    raise Unsupported("`type %s` continues on the next line" % name)
                variants = []
                for part in body.split('|'):
                    vm = re.fullmatch(r'([a-z_][A-Za-z0-9_]*)[ \t]*(\([ \t]*[A-Za-z_][A-Za-z0-9_<>]*[ \t]*\))?', part.strip())
                    if not vm:
                        raise Unsupported("variant `%s` of `type %s` is outside the subset" % (part.strip()[:40], name))
                    variants.append((vm.group(1), 1 if vm.group(2) else 0))
                if len(set(v for v, _ in variants)) != len(variants):
                    raise Unsupported("duplicate variants in `type %s`" % name)
                self._cache[k] = dict(variants=variants, text=raw, sha=sha(raw), header="type " + name)
            except Unsupported as e:
                self._cache[k] = e
        v = self._cache[k]
        if isinstance(v, Exception):
            raise v
        return v

    def free_fn(self, name):
        k = ('fn', name)
        if k not in self._cache:
            try:
                hits = [m for m in re.finditer(r'^[ \t]*fn[ \t]+%s[ \t]*\(' % re.escape(name), self.masked, re.M)
                        if _depth_at(self.masked, m.start()) == 0]
                if len(hits) != 1:
                    raise Unsupported("expected exactly one top-level `fn %s` in %s, found %d" % (name, self.path, len(hits)))
                start = hits[0].start()
                # the body is either `= expr` up to the end of line or a brace block
                nl = self.masked.find('\n', start)
                nl = len(self.masked) if nl < 0 else nl
                brace = self.masked.find('{', start, nl)
                end = _match_brace(self.masked, brace) + 1 if brace >= 0 else nl
                raw, masked = self.src[start:end], self.masked[start:end]
                p = Parser(lex(masked), "fn %s" % name)
                p.skip_newlines()
                fn = p.parse_fn_def()
                p.skip_newlines()
                p.expect('eof')
                self._cache[k] = dict(fn=fn, text=raw, sha=sha(raw))
            except Unsupported as e:
                self._cache[k] = e
        v = self._cache[k]
        if isinstance(v, Exception):
            raise v
        return v


# ----------------------------------------------------------------------------- lexer

class Tok:
    __slots__ = ('kind', 'text', 'line')

    def __init__(self, kind, text, line):
        self.kind, self.text, self.line = kind, text, line

    def __repr__(self):
        return "%s(%r)@%d" % (self.kind, self.text, self.line)


_PUNCT2 = ('==', '!=', '<=', '>=', '->')
_PUNCT1 = '(){},;:=<>.-'


def lex(masked, ext=False):
    """ext=True additionally accepts `[ ] +` (array subset, see Parser ext mode; loops mode lexes the same)."""
    toks = []
    i, n, line = 0, len(masked), 1
    while i < n:
        c = masked[i]
        if c in ' \t\r':
            if c == '\r':
                raise Unsupported("carriage return at line %d" % line)
            i += 1
        elif c == '\n':
            toks.append(Tok('nl', '\n', line))
            line += 1
            i += 1
        elif c == '_' or c.isalpha():
            if not (c == '_' or ('a' <= c <= 'z') or ('A' <= c <= 'Z')):
                raise Unsupported("non-ASCII identifier at line %d" % line)
            j = i + 1
            while j < n and (masked[j] == '_' or ('0' <= masked[j] <= '9') or ('a' <= masked[j] <= 'z') or ('A' <= masked[j] <= 'Z')):
                j += 1
            w = masked[i:j]
            if w == '_':
                toks.append(Tok('wild', w, line))
            elif w in KEYWORDS:
                toks.append(Tok('kw', w, line))
            elif w[0].isupper() and not any(ch.isalpha() for ch in w[1:]):
                toks.append(Tok('poly', w, line))
            else:
                toks.append(Tok('ident', w, line))
            i = j
        elif '0' <= c <= '9':
            j = i
            while j < n and '0' <= masked[j] <= '9':
                j += 1
            if j < n and (masked[j] in '._' or masked[j].isalpha()):
                raise Unsupported("numeric literal other than a plain decimal integer at line %d" % line)
            toks.append(Tok('int', masked[i:j], line))
            i = j
        elif masked[i:i + 2] in _PUNCT2:
            toks.append(Tok('op', masked[i:i + 2], line))
            i += 2
        elif c == '-' and masked[i:i + 2] == '-=':
            raise Unsupported("compound assignment at line %d" % line)
        elif c == '.' and masked[i:i + 2] == '..':
            raise Unsupported("`..` at line %d" % line)
        elif c in _PUNCT1 or (ext and c in '[]+' and masked[i:i + 2] != '+='):
            toks.append(Tok('op', c, line))
            i += 1
        else:
            raise Unsupported("character %r outside the accepted subset at line %d" % (c, line))
    toks.append(Tok('eof', '', line))
    return toks


# ----------------------------------------------------------------------------- parser

class FnDef:
    def __init__(self, name, params, body, ptypes, ret):
        self.name, self.params, self.body, self.ptypes, self.ret = name, params, body, ptypes, ret


BINOPS = {'and': 1, 'or': 1, '==': 2, '!=': 2, '<': 5, '<=': 5, '>': 5, '>=': 5}
NOT_BP = 10
MEMBER_BP, INDEX_BP, CALL_BP = 11, 12, 13


class Parser:
    def __init__(self, toks, where, ext=False, loops=False):
        self.t = toks
        self.i = 0
        self.where = where
        ext = ext or loops
        self.loops = loops      # bounded-unrolling subset: while / for / break / continue / match / variants / fields
        self.ext = ext          # array subset: `a[i]`, `a[i] = e`, binary + and -, named types
        self.binops = dict(BINOPS, **{'+': 6, '-': 6}) if ext else BINOPS

    # -- token helpers
    def peek(self, k=0):
        return self.t[min(self.i + k, len(self.t) - 1)]

    def next(self):
        tok = self.t[self.i]
        self.i += 1
        return tok

    def bad(self, what):
        tok = self.peek()
        raise Unsupported("%s: %s (at %r, block line %d)" % (self.where, what, tok.text, tok.line))

    def at(self, kind, text=None):
        tok = self.peek()
        return tok.kind == kind and (text is None or tok.text == text)

    def expect(self, kind, text=None):
        if not self.at(kind, text):
            self.bad("expected %s" % (text or kind))
        return self.next()

    def skip_newlines(self):
        while self.at('nl'):
            self.i += 1

    # -- items
    def parse_impl(self):
        self.skip_newlines()
        self.expect('kw', 'implement')
        iface = self.expect('ident').text
        self.expect('kw', 'for')
        self.parse_type(allow_tuple=True)
        self.expect('op', '{')
        fns = {}
        while True:
            self.skip_newlines()
            if self.at('op', '}'):
                break
            fn = self.parse_fn_def()
            if fn.name in fns:
                self.bad("duplicate method %s" % fn.name)
            fns[fn.name] = fn
            if self.at('nl'):
                self.next()
            else:
                break
        self.expect('op', '}')
        self.skip_newlines()
        self.expect('eof')
        return iface, fns

    def parse_type(self, allow_tuple=False):
        if self.at('kw') and self.peek().text in PRIM_TYPES:
            return self.next().text
        if self.at('poly'):
            name = self.next().text
            cons = []
            while self.at('ident'):
                cons.append(self.next().text)
            return ('poly', name, tuple(cons))
        if self.loops and self.at('ident'):
            name = self.next().text
            targs = []
            if self.at('op', '<'):
                self.next()
                while True:
                    targs.append(self.parse_type(allow_tuple=allow_tuple))
                    if self.at('op', ','):
                        self.next()
                        continue
                    break
                self.expect('op', '>')
            return ('named', name, tuple(targs))
        if self.ext and self.at('ident'):
            return ('named', self.next().text)
        if allow_tuple and self.at('op', '('):
            self.next()
            elems = [self.parse_type()]
            while self.at('op', ','):
                self.next()
                elems.append(self.parse_type())
            self.expect('op', ')')
            if len(elems) < 2:
                self.bad("parenthesised type")
            return ('tuple', tuple(elems))
        self.bad("type outside the subset")

    def parse_fn_def(self):
        self.expect('kw', 'fn')
        name = self.expect('ident').text
        self.expect('op', '(')
        params, ptypes = [], []
        if not self.at('op', ')'):
            while True:
                params.append(self.expect('ident').text)
                if self.at('op', ':'):
                    self.next()
                    ptypes.append(self.parse_type())
                else:
                    ptypes.append(None)
                if self.at('op', '='):
                    self.bad("default argument")
                if self.at('op', ','):
                    self.next()
                    continue
                break
        self.expect('op', ')')
        if len(set(params)) != len(params):
            self.bad("duplicate parameter")
        ret = None
        if self.at('op', '->'):
            self.next()
            ret = self.parse_type()
        if self.at('op', '='):
            self.next()
            body = self.parse_expr()
        elif self.at('op', '{'):
            body = self.parse_block()
        else:
            self.bad("function body")
        if not self.loops and has_member(body):
            self.bad("member access that is not an `Interface.method(...)` call")
        return FnDef(name, params, body, ptypes, ret)

    # -- statements
    def parse_block(self):
        self.expect('op', '{')
        stmts = []
        while True:                                   # parse_delimited_list(CloseBrace, Semicolon, parse_stmt)
            self.skip_newlines()
            if self.at('op', '}'):
                break
            stmts.append(self.parse_stmt())
            if self.at('op', ';') or self.at('nl'):
                self.next()
            else:
                break
        self.expect('op', '}')
        return ('block', stmts)

    def parse_pattern(self):
        if self.at('wild'):
            self.next()
            return ('pwild',)
        if self.at('ident'):
            name = self.next().text
            if self.at('op', '('):
                self.bad("struct pattern")
            return ('pvar', name)
        if self.at('op', '('):
            self.next()
            elems = []
            while True:
                if self.at('wild'):
                    self.next()
                    elems.append(None)
                elif self.at('ident'):
                    elems.append(self.next().text)
                    if self.at('op', '('):
                        self.bad("nested struct pattern")
                else:
                    self.bad("pattern outside the subset")
                if self.at('op', ','):
                    self.next()
                    continue
                break
            self.expect('op', ')')
            if len(elems) < 2:
                self.bad("parenthesised pattern")
            names = [e for e in elems if e]
            if len(set(names)) != len(names):
                self.bad("duplicate binding in pattern")
            return ('ptuple', elems)
        self.bad("pattern outside the subset")

    def parse_stmt(self):
        self.skip_newlines()
        tok = self.peek()
        if tok.kind == 'kw' and tok.text in ('let', 'var'):
            self.next()
            pat = self.parse_pattern()
            if self.at('op', ':'):
                self.bad("type annotation on let")
            self.expect('op', '=')
            e = self.parse_expr()
            return ('let', tok.text == 'var', pat, e)
        if tok.kind == 'kw' and tok.text == 'return':
            self.next()
            if self.at('nl') or self.at('op', '}') or self.at('eof'):
                self.bad("bare return")
            return ('return', self.parse_expr())
        if self.loops and tok.kind == 'kw' and tok.text == 'while':
            self.next()
            cond = self.parse_expr()
            return ('while', cond, self.parse_block()[1])
        if self.loops and tok.kind == 'kw' and tok.text == 'for':
            self.next()
            pat = self.parse_pattern()
            self.expect('kw', 'in')
            it = self.parse_expr()
            return ('for', pat, it, self.parse_block()[1])
        if self.loops and tok.kind == 'kw' and tok.text in ('break', 'continue'):
            self.next()
            return (tok.text,)
        if tok.kind == 'kw' and tok.text in ('while', 'for', 'break', 'continue'):
            self.bad("loop construct `%s` is outside the loop-free subset" % tok.text)
        e = self.parse_expr()
        if self.at('op', '='):
            if self.loops and e[0] == 'member':
                self.next()
                rhs = self.parse_expr()
                return ('assign_field', e[1], e[2], rhs)
            if self.ext and e[0] == 'index':
                self.next()
                rhs = self.parse_expr()
                return ('assign_index', e[1], e[2], rhs)
            if e[0] != 'var':
                self.bad("assignment target outside the subset")
            self.next()
            rhs = self.parse_expr()
            return ('assign', e[1], rhs)
        return ('expr', e)

    # -- expressions (Pratt loop of parse.rs::parse_expr_bp)
    def parse_expr(self):
        self.skip_newlines()
        return self.parse_expr_bp(0)

    def parse_expr_bp(self, bp):
        if self.at('kw', 'not'):
            self.next()
            lhs = ('not', self.parse_expr_bp(NOT_BP))
        elif self.at('op', '-') and self.peek(1).kind != 'int':
            self.bad("unary minus on a non-literal")
        else:
            lhs = self.parse_term()
        while True:
            tok = self.peek()
            if tok.kind == 'op' and tok.text == '(':
                if CALL_BP <= bp:
                    break
                args = self.parse_call_args()
                if lhs[0] == 'var':
                    lhs = ('call', lhs[1], args)
                elif lhs[0] == 'member' and lhs[1][0] == 'var':
                    lhs = ('icall', lhs[1][1], lhs[2], args)
                elif self.loops and lhs[0] == 'member':
                    lhs = ('mcall', lhs[1], lhs[2], args)
                elif self.loops and lhs[0] == 'dotvariant':
                    lhs = ('variant', lhs[1], args)
                else:
                    self.bad("call of a computed callee")
                continue
            if tok.kind == 'op' and tok.text == '.':
                if MEMBER_BP <= bp:
                    break
                self.next()
                lhs = ('member', lhs, self.expect('ident').text)
                continue
            if self.ext and tok.kind == 'op' and tok.text == '[':
                if INDEX_BP <= bp:
                    break
                self.next()
                idx = self.parse_expr()
                self.expect('op', ']')
                lhs = ('index', lhs, idx)
                continue
            op = tok.text if (tok.kind == 'op' or tok.kind == 'kw') and tok.text in self.binops else None
            if op is None:
                if tok.kind == 'op' and tok.text in ('->', '-'):
                    self.bad("operator outside the subset")
                break
            if self.binops[op] <= bp:
                break
            self.next()
            if self.at('nl'):
                self.bad("line break after a binary operator")
            rhs = self.parse_expr_bp(self.binops[op])
            lhs = ('binop', op, lhs, rhs)
        return lhs

    def parse_call_args(self):
        self.expect('op', '(')
        args = []
        if not self.at('op', ')'):
            while True:
                if self.at('ident') and self.peek(1).kind == 'op' and self.peek(1).text == '=':
                    self.bad("named argument")
                args.append(self.parse_expr_bp(0))
                if self.at('op', ','):
                    self.next()
                    continue
                break
        self.expect('op', ')')
        return args

    def parse_match_arm(self):
        """parse.rs::parse_match_arm / parse_match_pattern, for `_`, `.variant` and `.variant(x)` / `.variant(_)` only."""
        self.skip_newlines()
        if self.at('wild'):
            self.next()
            pat = ('pwild',)
        elif self.at('op', '.'):
            self.next()
            name = self.expect('ident').text
            sub = None
            if self.at('op', '('):
                self.next()
                if self.at('wild'):
                    self.next()
                    sub = ('pwild',)
                elif self.at('ident'):
                    sub = ('pvar', self.next().text)
                    if self.at('op', '(') or self.at('op', '.'):
                        self.bad("nested pattern in a match arm")
                else:
                    self.bad("match sub-pattern outside the subset")
                self.expect('op', ')')
            pat = ('pvariant', name, sub)
        else:
            self.bad("match pattern outside the subset")
        self.expect('op', '->')
        return (pat, self.parse_stmt())

    def parse_term(self):
        self.skip_newlines()
        tok = self.peek()
        if tok.kind == 'ident':
            self.next()
            if self.at('op', '->'):
                self.bad("lambda")
            return ('var', tok.text)
        if tok.kind == 'int':
            self.next()
            return ('int', int(tok.text))
        if tok.kind == 'op' and tok.text == '-':
            self.next()
            lit = self.expect('int')
            return ('int', -int(lit.text))
        if tok.kind == 'kw':
            if tok.text in ('true', 'false'):
                self.next()
                return ('bool', tok.text == 'true')
            if tok.text == 'nil':
                self.next()
                return ('nil',)
            if tok.text == 'if':
                self.next()
                cond = self.parse_expr()
                then = self.parse_stmt()
                els = None
                if self.at('kw', 'else'):
                    self.next()
                    els = self.parse_stmt()
                return ('if', cond, then, els)
            if self.loops and tok.text == 'match':
                self.next()
                scrut = self.parse_expr()
                self.expect('op', '{')
                arms = []
                while True:                           # parse_delimited_list(CloseBrace, Comma, parse_match_arm)
                    self.skip_newlines()
                    if self.at('op', '}'):
                        break
                    arms.append(self.parse_match_arm())
                    if self.at('op', ',') or self.at('nl'):
                        self.next()
                    else:
                        break
                self.expect('op', '}')
                return ('match', scrut, arms)
            self.bad("keyword `%s` outside the subset" % tok.text)
        if self.loops and tok.kind == 'op' and tok.text == '.':
            self.next()
            return ('dotvariant', self.expect('ident').text)
        if self.loops and tok.kind == 'op' and tok.text == '[':
            self.next()
            elems = []
            while True:                               # parse_delimited_list(CloseBracket, Comma, parse_expr)
                self.skip_newlines()
                if self.at('op', ']'):
                    break
                elems.append(self.parse_expr())
                if self.at('op', ',') or self.at('nl'):
                    self.next()
                else:
                    break
            self.expect('op', ']')
            return ('array', elems)
        if tok.kind == 'op' and tok.text == '(':
            self.next()
            elems = []
            while True:                               # parse_delimited_list(CloseParen, Comma, parse_expr)
                self.skip_newlines()
                if self.at('op', ')'):
                    break
                elems.append(self.parse_expr())
                if self.at('op', ',') or self.at('nl'):
                    self.next()
                else:
                    break
            self.expect('op', ')')
            if self.at('op', '->'):
                self.bad("lambda")
            if not elems:
                self.bad("empty parentheses")
            return elems[0] if len(elems) == 1 else ('tuple', elems)
        if tok.kind == 'op' and tok.text == '{':
            return self.parse_block()
        self.bad("expression outside the subset")


def has_member(e):
    """A dangling `a.b` that never became a call must not survive inside a larger expression."""
    if isinstance(e, tuple):
        if e and e[0] == 'member':
            return True
        return any(has_member(x) for x in e)
    if isinstance(e, list):
        return any(has_member(x) for x in e)
    return False


def show(e):
    """Abra text of an AST (for evidence)."""
    k = e[0]
    if k == 'var':
        return e[1]
    if k == 'int':
        return str(e[1])
    if k == 'bool':
        return 'true' if e[1] else 'false'
    if k == 'nil':
        return 'nil'
    if k == 'not':
        return 'not %s' % show(e[1])
    if k == 'binop':
        return '(%s %s %s)' % (show(e[2]), e[1], show(e[3]))
    if k == 'call':
        return '%s(%s)' % (e[1], ', '.join(show(a) for a in e[2]))
    if k == 'icall':
        return '%s.%s(%s)' % (e[1], e[2], ', '.join(show(a) for a in e[3]))
    if k == 'tuple':
        return '(%s)' % ', '.join(show(a) for a in e[1])
    if k == 'if':
        s = 'if %s %s' % (show(e[1]), show_stmt(e[2]))
        return s + (' else %s' % show_stmt(e[3]) if e[3] else '')
    if k == 'block':
        return '{ %s }' % '; '.join(show_stmt(s) for s in e[1])
    if k == 'index':
        return '%s[%s]' % (show(e[1]), show(e[2]))
    return repr(e)


def show_stmt(s):
    k = s[0]
    if k == 'let':
        p = s[2]
        ps = p[1] if p[0] == 'pvar' else '_' if p[0] == 'pwild' else '(%s)' % ', '.join(x or '_' for x in p[1])
        return '%s %s = %s' % ('var' if s[1] else 'let', ps, show(s[3]))
    if k == 'assign':
        return '%s = %s' % (s[1], show(s[2]))
    if k == 'assign_index':
        return '%s[%s] = %s' % (show(s[1]), show(s[2]), show(s[3]))
    if k == 'return':
        return 'return %s' % show(s[1])
    return show(s[1])
