"""U16 array part with loops (C26, BOUNDED), plain-python side: obligations from vcloops' JSON, Abra programs for the
real CLI, and replay: the Z3 counterexample (concrete list of small ints + arguments) is run on the real CLI and judged
against the Python list model of loopmodel.py.  replay returns True only when the REAL CLI deviates from the list model,
None otherwise (never False: the programs are canned, see the replay protocol in DESIGN)."""
import hashlib
import re

import engine as E
import abra_cli
from . import loopmodel as LM

UNIT = "U16-prelude"
PRELUDE_REL = "modules/prelude.abra"
BACKEND = "u16-vcgen(loops: bounded symbolic execution of the parsed prelude text)/z3, bounded unrolling"
OOB_MSG = "indexed past the end of an array"


def _sha(s):
    return hashlib.sha256(s.encode()).hexdigest()[:16]


def enabled(prop="C26"):
    """The loop obligations count for C26 only, the array Equal/Hash laws for C24 only."""
    import os
    p = os.environ.get("ABRA_VERIF_PROP")
    return (not p) or p == prop


def obligations(loops):
    if not loops:
        return []
    if loops.get("fatal"):
        raise E.Undecided("u16 array-loops part: " + loops["fatal"])
    obs = []
    for rec in loops["obligations"]:
        blocks = rec.get("blocks") or {}
        text = rec["statement"]
        text += "\n  BOUND: " + rec["bounded"]
        text += ("\n  explored: %d shape(s), %d path(s), longest loop run %s iteration(s)"
                 % (rec.get("shapes", 0), rec.get("paths", 0), rec.get("max_loop_iterations", 0)))
        if blocks:
            text += "\n  cut from %s by name and evaluated: %s" % (PRELUDE_REL, "; ".join(sorted(blocks)))
        if rec.get("prims"):
            text += "\n  primitives interpreted by their contracts (u5_array / u5v_array / u1_int; T's == assumed lawful): " + ", ".join(rec["prims"])
        if rec.get("clone_is_literally_identity"):
            text += "\n  `implement Clone for <ty>` is literally `fn clone(x) = x`: %s" % rec["clone_is_literally_identity"]
        obs.append(E.Obligation(rec["id"], rec.get("props") or ["C26"], UNIT, "; ".join(sorted(blocks)) or rec["fn"], BACKEND, rec["status"],
                                rec.get("detail", ""), rec.get("time_s", 0.0), PRELUDE_REL, _sha("".join(sorted(blocks.values()))),
                                rec["bounded"], text, cex=rec.get("cex")))
    return obs


# ----------------------------------------------------------------------------- programs for the real CLI

def lit(v, elem):
    if isinstance(v, list):
        return "[%s]" % ", ".join(lit(x, 'int') for x in v)
    if isinstance(v, bool):
        return "true" if v else "false"
    if elem == 'float':
        return "%d.0" % v if v >= 0 else "(0.0 - %d.0)" % (-v)
    if elem == 'string':
        return '"%d"' % v
    if v >= 0:
        return str(v)
    return "(0 - 9223372036854775807 - 1)" if v == -(1 << 63) else "(0 - %d)" % (-v)


def elem_type(elem):
    return {'T': 'int', 'int': 'int', 'float': 'float', 'string': 'string', 'bool': 'bool', 'array<int>': 'array<int>'}.get(elem)


def decl(var, L, elem):
    if L:
        return "let %s = [%s]\n" % (var, ", ".join(lit(x, elem) for x in L))
    return "let %s: array<%s> = []\n" % (var, elem_type(elem))


_ctr = [0]


def dump(var, nested=False):
    """Abra text that prints an array with `while` loops only (independent of the iterator impls under test)."""
    _ctr[0] += 1
    i = "i%d" % _ctr[0]
    s = "println(\"#list\")\nprintln(%s.len())\nvar %s = 0\nwhile %s < %s.len() {\n" % (var, i, i, var)
    if nested:
        j = "j%d" % _ctr[0]
        s += ("    println(\"#row\")\n    println(%s[%s].len())\n    var %s = 0\n    while %s < %s[%s].len() {\n        println(%s[%s][%s])\n"
              "        %s = %s + 1\n    }\n" % (var, i, j, j, var, i, var, i, j, j, j))
    else:
        s += "    println(%s[%s])\n" % (var, i)
    s += "    %s = %s + 1\n}\n" % (i, i)
    return s


def program(cex):
    fn, elem, L, args = cex["fn"], cex["elem"], cex.get("list"), cex.get("args") or {}
    if elem_type(elem) is None:
        return None
    nested = elem == 'array<int>'
    if fn == 'filled':
        x = args['x']
        src = "let x = %s\n" % lit(x, elem) if not (nested and not x) else "let x: array<int> = []\n"
        src += "let r = array.filled(x, %s)\nprintln(\"#done\")\n" % lit(args['n'], 'int') + dump("r", nested)
        if nested:
            src += "x.push(97)\n" + dump("r", nested)          # the copies must not share x
        return src
    src = decl("a", L, elem)
    if fn == 'clear':
        return src + "a.clear()\nprintln(\"#done\")\n" + dump("a")
    if fn == 'find':
        return src + ("match a.find(%s) {\n    .some(i) -> println(i)\n    .none -> println(\"none\")\n}\nprintln(\"#done\")\n" % lit(args['x'], elem)) + dump("a")
    if fn == 'contains':
        return src + "println(a.contains(%s))\nprintln(\"#done\")\n" % lit(args['x'], elem) + dump("a")
    if fn == 'iteration':
        return src + "for v in a {\n    println(v)\n}\nprintln(\"#done\")\n" + dump("a")
    if fn == 'clone':
        marker = "[98]" if nested else lit(True if elem == 'bool' else 98, elem)
        src += "let b = Clone.clone(a)\nprintln(\"#done\")\n" + dump("b", nested)
        src += "b.push(%s)\n" % marker
        if L:
            src += ("b[0].push(97)\n" if nested else "b[0] = %s\n" % marker)
        return src + dump("a", nested)
    return None


def _val(s, elem):
    s = s.strip()
    if s in ("true", "false"):
        return s == "true"
    try:
        if elem == 'float':
            f = float(s)
            return int(f) if f == int(f) else f
        return int(s)
    except ValueError:
        return s


def parse_lists(lines, elem, nested):
    """the `#list` sections of the output -> list of Python lists (None when unreadable)"""
    out, i = [], 0
    try:
        while i < len(lines):
            if lines[i] != "#list":
                i += 1
                continue
            n = int(lines[i + 1])
            i += 2
            cur = []
            for _ in range(n):
                if nested:
                    if lines[i] != "#row":
                        return None
                    m = int(lines[i + 1])
                    cur.append([_val(x, 'int') for x in lines[i + 2:i + 2 + m]])
                    if len(cur[-1]) != m:
                        return None
                    i += 2 + m
                else:
                    cur.append(_val(lines[i], elem))
                    i += 1
            out.append(cur)
    except (ValueError, IndexError):
        return None
    return out


def observe(cex, out, err, rc):
    """-> dict(outcome, result, lists) or None"""
    text = out + err
    if rc != 0:
        kind = "error ArrayOutOfBounds" if OOB_MSG in text else "error other: " + (text.strip().split("\n") or [""])[-1][:160]
        return dict(outcome=kind, host_panic="panicked" in text)
    lines = [ln.strip() for ln in out.strip().split("\n")]
    if "#done" not in lines:
        return None
    k = lines.index("#done")
    lists = parse_lists(lines[k + 1:], cex["elem"], cex["elem"] == 'array<int>')
    if lists is None:
        return None
    return dict(outcome="ok", before=lines[:k], lists=lists)


def judge(cex, real):
    """-> (deviates: bool, expected dict)"""
    fn, L, args = cex["fn"], cex.get("list"), cex.get("args") or {}
    want = LM.loop_model(fn, L, args)
    if real["outcome"] != "ok":
        return True, want          # the list model never fails for these members
    before, lists = real["before"], real["lists"]
    if fn == 'clear':
        return not (before == [] and lists == [want["final"]]), want
    if fn == 'find':
        got = before[0] if len(before) == 1 else None
        got = "some(%s)" % got if got is not None and re.fullmatch(r'-?\d+', got) else got
        return not (got == want["result"] and lists == [want["final"]]), want
    if fn == 'contains':
        got = before[0] if len(before) == 1 else None
        return not (got == ("true" if want["result"] else "false") and lists == [want["final"]]), want
    if fn == 'iteration':
        vis = [_val(x, cex["elem"]) for x in before]
        return not (vis == want["visited"] and lists == [want["final"]]), want
    if fn == 'filled':
        ok = bool(lists) and all(l == want["returned"] for l in lists) and len(lists) == (2 if cex["elem"] == 'array<int>' else 1)
        return not ok, want
    if fn == 'clone':
        # first dump = the copy; second dump = the ORIGINAL after the copy was mutated: must still be L
        return not (len(lists) == 2 and lists[0] == want["returned"] and lists[1] == want["final"]), want
    return False, want


def replay(ob, rerun):
    m = re.fullmatch(r'C26\.prelude\.array\.(\w+)\.model', ob.id)
    if not m or m.group(1) not in LM.MEMBERS:
        return None, dict(note="not a loop obligation")
    cex = ob.cex if isinstance(ob.cex, dict) and ob.cex.get("fn") == m.group(1) and "code" in ob.cex else rerun(ob.id)
    if not cex:
        return None, dict(note="the generator does not refute this clause now")
    ob.cex = cex
    src = program(cex)
    if src is None:
        return None, dict(note="no literal syntax for element type %s: counterexample not replayed" % cex.get("elem"), counterexample=cex)
    out, err, rc = abra_cli.run_program(src)
    real = observe(cex, out, err, rc)
    info = dict(counterexample=dict(fn=cex["fn"], elem=cex["elem"], list=cex.get("list"), args=cex.get("args")), program=src,
                real_output=(out + err)[:800], exit_code=rc, evaluator_prediction=cex.get("code"), real_cli=real)
    if real is None:
        return None, info
    if real.get("host_panic"):
        info["note"] = "host panic"
        return True, info
    deviates, want = judge(cex, real)
    info["list_model"] = want
    if deviates:
        return True, info
    info["note"] = "the real CLI agrees with the list model on this input (canned replay: no verdict)"
    return None, info


# ----------------------------------------------------------------------------- differential fidelity (thorough tier)

FIDELITY_CASES = [
    dict(fn='clear', elem='T', list=[10, 20, 30], args={}), dict(fn='clear', elem='T', list=[], args={}),
    dict(fn='find', elem='T', list=[10, 20, 10], args={'x': 10}), dict(fn='find', elem='T', list=[10, 20, 20], args={'x': 20}),
    dict(fn='find', elem='T', list=[10], args={'x': 30}), dict(fn='find', elem='T', list=[], args={'x': 30}),
    dict(fn='contains', elem='T', list=[10, 20], args={'x': 20}), dict(fn='contains', elem='T', list=[10, 20], args={'x': 30}),
    dict(fn='contains', elem='T', list=[], args={'x': 20}),
    dict(fn='iteration', elem='T', list=[10, 20, 30, 10], args={}), dict(fn='iteration', elem='T', list=[], args={}),
    dict(fn='filled', elem='int', list=None, args={'x': 7, 'n': 3}), dict(fn='filled', elem='int', list=None, args={'x': 7, 'n': 0}),
    dict(fn='filled', elem='int', list=None, args={'x': 7, 'n': -2}), dict(fn='filled', elem='string', list=None, args={'x': 10, 'n': 2}),
    dict(fn='filled', elem='array<int>', list=None, args={'x': [1, 2], 'n': 2}),
    dict(fn='clone', elem='int', list=[1, 2, 3], args={}), dict(fn='clone', elem='int', list=[], args={}),
    dict(fn='clone', elem='float', list=[10, 20], args={}), dict(fn='clone', elem='bool', list=[True, False], args={}),
    dict(fn='clone', elem='array<int>', list=[[1], [], [2, 3]], args={}),
]


def fidelity(members=None):
    """The bounded analysis says `the real text behaves like the list model` on small lists; ask the REAL CLI the same on a few
    concrete lists (only for members whose obligation is discharged).  A disagreement means the interpreter (or a primitive
    contract, or the assumed for-lowering) is not faithful => the unit is UNDECIDED, never an alarm."""
    bad, n = [], 0
    for c in FIDELITY_CASES:
        if members is not None and c["fn"] not in members:
            continue
        out, err, rc = abra_cli.run_program(program(c))
        real = observe(c, out, err, rc)
        n += 1
        if real is None or judge(c, real)[0]:
            bad.append((c, real))
    if bad:
        raise E.Undecided("u16 loops fidelity: the bounded analysis discharged %s.model but the real CLI deviates from the list model on %s "
                          "(real: %s): interpreter / assumed loop lowering not trusted" % (bad[0][0]["fn"], bad[0][0], bad[0][1]))
    return dict(cases=n, disagreements=0)


# ----------------------------------------------------------------------------- C24: Equal / Hash for array<T> (bounded): replay

def _arr_lit(name, vals):
    return ("let %s = [%s]\n" % (name, ", ".join(lit(v, 'int') for v in vals))) if vals else ("let %s: array<int> = []\n" % name)


def replay_law(ob, rerun):
    """The counterexample arrays (ints by class of the model's T-equality) on the REAL CLI: print every atom of the law and
    judge the law in Python.  True only when the real CLI violates the law."""
    from . import laws as LW
    m = re.fullmatch(r'C24\.prelude\.(Equal|Hash)\.array\.(\w+)', ob.id)
    if not m:
        return None, dict(note="not an array-law obligation")
    cex = ob.cex if isinstance(ob.cex, dict) and "values" in ob.cex and "law" in ob.cex else rerun(ob.id)
    if not cex:
        return None, dict(note="the generator does not refute this law now")
    ob.cex = cex
    vals = cex["values"]
    names = sorted(vals)
    src = "".join(_arr_lit(n, vals[n]) for n in names)
    pairs = [(a, b) for a in names for b in names]
    src += "".join("println(Equal.equal(%s, %s))\nprintln(%s != %s)\n" % (a, b, a, b) for a, b in pairs)
    src += "".join("println(Hash.hash(%s))\n" % a for a in names)
    out, err, rc = abra_cli.run_program(src)
    info = dict(counterexample=vals, program=src, real_output=(out + err)[:800], exit_code=rc, evaluator_prediction=cex.get("atoms"))
    if rc != 0:
        if "panicked" in out + err:
            info["note"] = "host panic"
            return True, info
        return (True if OOB_MSG in out + err else None), info
    lines = [ln.strip() for ln in out.strip().split("\n")]
    if len(lines) != 2 * len(pairs) + len(names):
        return None, info
    eq = {p_: lines[2 * i] == "true" for i, p_ in enumerate(pairs)}
    ne = {p_: lines[2 * i + 1] == "true" for i, p_ in enumerate(pairs)}
    hs = {n: lines[2 * len(pairs) + i] for i, n in enumerate(names)}
    law = m.group(2)

    def A(kind_, *vs):
        if kind_ == 'eq':
            return eq[vs]
        if kind_ == 'opne':
            return ne[vs]
        if kind_ == 'hash':
            return hs[vs[0]]
        if kind_ == 'listeq':
            return vals[vs[0]] == vals[vs[1]]
        raise KeyError(kind_)
    fns = {'reflexive': LW.LAW_BY_NAME['equal_reflexive'][2], 'symmetric': LW.LAW_BY_NAME['equal_symmetric'][2],
           'transitive': LW.LAW_BY_NAME['equal_transitive'][2], 'consistent': LW.LAW_BY_NAME['hash_respects_equal'][2],
           'model': lambda A_, L: L.iff(A_('eq', 'x', 'y'), A_('listeq', 'x', 'y')),
           'not_equal_is_negation': lambda A_, L: L.iff(A_('opne', 'x', 'y'), L.not_(A_('eq', 'x', 'y')))}
    if law not in fns:
        return None, info
    holds = bool(fns[law](A, LW.PyLogic))
    info["real_atoms"] = dict(equal={"%s,%s" % k: v for k, v in eq.items()}, hash=hs)
    if not holds:
        return True, info
    info["note"] = "the real CLI satisfies the law on this input (no verdict)"
    return None, info
