"""U16, array part (property C26): the LOOP-FREE member functions of `extend array<T> { ... }`
(len, is_empty, push, pop, swap, remove, bounds) against a reference LIST MODEL.

These bodies are imperative, so the evaluator threads a state through the statements:

    state   = (arr : Array Int Elem, n : Int, err : Bool, kind : Int)
              the list is arr[0..n); err = "a runtime error has stopped the program";
              kind = which one (1 = ArrayOutOfBounds, 2 = IntegerOverflow)
    result  = (state', value)

Once err is true the state is frozen (every update is `If(err, old, new)`), so state' is the array
exactly as the failing primitive left it: side effects BEFORE the error persist and are reported.

Primitive contracts = what /verif/units/u5_array proves for the VM arms (table T there):
    self[i]        GetIndex : 0 <= i < n -> arr[i];  otherwise ArrayOutOfBounds, array unchanged
    self[i] = v    SetIndex : 0 <= i < n -> exactly slot i updated;  otherwise ArrayOutOfBounds, unchanged
    array_push     ArrayPush: appends
    array_pop      ArrayPop : n > 0 -> removes and returns the last;  n = 0 -> ArrayOutOfBounds
    array_length   ArrayLength
    a + b, a - b   AddInt / SubtractInt: exact if the result fits i64, else IntegerOverflow (U1, C15)
Elem is an uninterpreted sort (the bodies are parametric in T).  Specifications are written from
the property text (list model), not from the code; `code-derived` ones say so.
"""
import time

import z3

import abra_subset as AS
from abra_subset import Unsupported

DISCHARGED, FAILED, UNDECIDED = "discharged", "failed", "undecided"
RECV = 'array<T>'
OOB, OVERFLOW = 1, 2
KIND_NAME = {0: None, 1: 'ArrayOutOfBounds', 2: 'IntegerOverflow'}
I64_MIN, I64_MAX = -(1 << 63), (1 << 63) - 1
MAX_LEN = 1 << 62          # assumption: a list is shorter than 2^62 elements
PERM_BOUND = 6             # remove.permutation: multiset clause checked for lists up to this length

Elem = z3.DeclareSort('Elem')


class Ref:
    """The one array in scope (`self`)."""

    def __repr__(self):
        return "<self>"


SELF = Ref()
NILV = "nil"
FAST_PATH = {'len': 'array_length', 'push': 'array_push', 'pop': 'array_pop'}
LOOP_FNS = ('clear', 'filled', 'find', 'contains', 'sort', 'sort_by', 'sort_by_key', 'insertion_sort_by', 'merge_by')


def vkind(v):
    if v is SELF:
        return 'array'
    if v is NILV:
        return 'void'
    s = v.sort()
    if s == z3.IntSort():
        return 'int'
    if s == z3.BoolSort():
        return 'bool'
    if s == Elem:
        return 'elem'
    raise Unsupported("value of unexpected sort %s" % s)


class State:
    def __init__(self, arr, n, err, kind):
        self.arr, self.n, self.err, self.kind = arr, n, err, kind

    def copy(self):
        return State(self.arr, self.n, self.err, self.kind)

    @staticmethod
    def merge(c, a, b):
        return State(z3.If(c, a.arr, b.arr), z3.If(c, a.n, b.n), z3.If(c, a.err, b.err), z3.If(c, a.kind, b.kind))


class ImpEvaluator:
    MAX_DEPTH = 8

    def __init__(self, prelude, st):
        self.p = prelude
        self.st = st
        self.used = {}
        self.prims = set()
        self.fast = set()       # direct calls interpreted as the inlined instruction
        self.branch = 0

    # -- state primitives
    def guard(self, ok, kind):
        st = self.st
        new = z3.And(z3.Not(st.err), z3.Not(ok))
        st.kind = z3.If(new, z3.IntVal(kind), st.kind)
        st.err = z3.Or(st.err, new)

    def set_arr(self, arr=None, n=None):
        st = self.st
        if arr is not None:
            st.arr = z3.If(st.err, st.arr, arr)
        if n is not None:
            st.n = z3.If(st.err, st.n, n)

    def in_branch(self, cond, thunk):
        """Run thunk() in the state where cond holds; afterwards the state is the merge."""
        before = self.st.copy()
        self.branch += 1
        try:
            v = thunk()
        finally:
            self.branch -= 1
        self.st = State.merge(cond, self.st, before)
        return v

    # -- calls
    def intrinsic(self, name, args):
        if name == 'array_length':
            self.need(args, ['array'], name)
            self.prims.add('ArrayLength')
            return self.st.n
        if name == 'array_push':
            self.need(args, ['array', 'elem'], name)
            self.prims.add('ArrayPush')
            st = self.st
            self.set_arr(z3.Store(st.arr, st.n, args[1]), st.n + 1)
            return NILV
        if name == 'array_pop':
            self.need(args, ['array'], name)
            self.prims.add('ArrayPop')
            self.guard(self.st.n > 0, OOB)
            st = self.st
            v = z3.Select(st.arr, st.n - 1)
            self.set_arr(n=st.n - 1)
            return v
        raise Unsupported("call to `%s`, which is not an array intrinsic the evaluator interprets" % name)

    @staticmethod
    def need(args, kinds, name):
        if len(args) != len(kinds) or any(vkind(a) != k for a, k in zip(args, kinds)):
            raise Unsupported("%s expects (%s)" % (name, ", ".join(kinds)))

    def method(self, name, args, depth, direct=True):
        """direct=True: a call written `self.name(...)`.  translate_bytecode.rs::handle_func_call inlines direct
        calls of array.len / array.push / array.pop to the ArrayLength / ArrayPush / ArrayPop instruction WITHOUT
        running the prelude body (syntactic obligation C26.codegen.array_members.fast_path; confirmed on a CLI built
        with a mutated `push` body: `a.push(x)` pushes once, `let f = array.push  f(a, x)` runs the body).  So a
        direct call of those three is the primitive; their BODIES are evaluated only for the <fn>.model obligations
        (the function-value route)."""
        if direct and name in FAST_PATH:
            self.fast.add(name)
            return self.intrinsic(FAST_PATH[name], args)
        if name in LOOP_FNS:
            raise Unsupported("array.%s contains a loop: outside the loop-free subset" % name)
        f = self.p.extend_fn(RECV, name)
        self.used[f['header']] = f['sha']
        return self.apply(f['fn'], args, depth + 1, f['header'])

    def apply(self, fn, args, depth, where):
        if depth > self.MAX_DEPTH:
            raise Unsupported("call depth exceeded (recursion?) in %s" % where)
        if len(fn.params) != len(args):
            raise Unsupported("%s: arity mismatch" % where)
        if not fn.params or fn.params[0] != 'self' or args[0] is not SELF:
            raise Unsupported("%s: first parameter must be `self`" % where)
        env = {}
        for p, t, a in zip(fn.params, fn.ptypes, args):
            want = {'int': 'int', 'bool': 'bool', 'void': 'void'}.get(t) if isinstance(t, str) else ('elem' if (t and t[0] == 'poly') else None)
            if t is not None and want is None:
                raise Unsupported("%s: parameter type of `%s` is outside the subset" % (where, p))
            if want and vkind(a) != want:
                raise Unsupported("%s: argument `%s` is not %s" % (where, p, want))
            if p != 'self' and a is SELF:
                raise Unsupported("%s: the array is aliased by parameter `%s`" % (where, p))
            env[p] = [a, False]
        if fn.body[0] == 'block':
            v = self.block(fn.body[1], env, depth, top=True)
        else:
            v = self.eval(fn.body, env, depth)
        want = {'int': 'int', 'bool': 'bool', 'void': 'void'}.get(fn.ret) if isinstance(fn.ret, str) else ('elem' if (fn.ret and fn.ret[0] == 'poly') else None)
        if fn.ret is not None and want is None:
            raise Unsupported("%s: return type outside the subset" % where)
        if want and vkind(v) != want:
            raise Unsupported("%s: result is %s, declared %s" % (where, vkind(v), want))
        return v

    # -- statements
    def block(self, stmts, env, depth, top=False):
        env = dict((k, list(v)) for k, v in env.items())
        local = set()
        value = NILV
        for i, s in enumerate(stmts):
            last = i == len(stmts) - 1
            value = NILV
            k = s[0]
            if k == 'let':
                v = self.eval(s[3], env, depth)
                if v is SELF:
                    raise Unsupported("the array is aliased by a local binding")
                if s[2][0] == 'pvar':
                    if s[2][1] == 'self':
                        raise Unsupported("binding named `self`")
                    env[s[2][1]] = [v, s[1]]
                    local.add(s[2][1])
                elif s[2][0] != 'pwild':
                    raise Unsupported("tuple pattern in the array subset")
            elif k == 'assign':
                if s[1] not in env or not env[s[1]][1] or s[1] not in local or self.branch:
                    raise Unsupported("assignment to `%s` (not a `var` of this straight-line block)" % s[1])
                v = self.eval(s[2], env, depth)
                if vkind(v) != vkind(env[s[1]][0]):
                    raise Unsupported("assignment changes the type of `%s`" % s[1])
                env[s[1]][0] = v
            elif k == 'assign_index':
                # translate_bytecode.rs: array, index, rvalue are evaluated in this order, then SetIndex
                a = self.eval(s[1], env, depth)
                i_ = self.eval(s[2], env, depth)
                v = self.eval(s[3], env, depth)
                if a is not SELF or vkind(i_) != 'int' or vkind(v) != 'elem':
                    raise Unsupported("index assignment other than self[int] = element")
                self.prims.add('SetIndex')
                self.guard(z3.And(i_ >= 0, i_ < self.st.n), OOB)
                self.set_arr(z3.Store(self.st.arr, i_, v))
            elif k == 'return':
                if not (top and last and not self.branch):
                    raise Unsupported("`return` other than as the last statement of the function body")
                value = self.eval(s[1], env, depth)
            elif k == 'expr':
                value = self.eval(s[1], env, depth)      # value discarded unless last
            else:
                raise Unsupported("statement form %s" % k)
        return value

    # -- expressions
    def eval(self, e, env, depth):
        k = e[0]
        if k == 'var':
            if e[1] not in env:
                raise Unsupported("unknown identifier `%s`" % e[1])
            return env[e[1]][0]
        if k == 'int':
            if not (I64_MIN <= e[1] <= I64_MAX):
                raise Unsupported("integer literal out of range")
            return z3.IntVal(e[1])
        if k == 'bool':
            return z3.BoolVal(e[1])
        if k == 'nil':
            return NILV
        if k == 'not':
            v = self.eval(e[1], env, depth)
            if vkind(v) != 'bool':
                raise Unsupported("`not` on non-bool")
            return z3.Not(v)
        if k == 'binop':
            op = e[1]
            l = self.eval(e[2], env, depth)
            if op in ('and', 'or'):
                if vkind(l) != 'bool':
                    raise Unsupported("`%s` on non-bool" % op)
                # short circuit: the right operand (and its effects / errors) only runs when needed
                r = self.in_branch(l if op == 'and' else z3.Not(l), lambda: self.eval(e[3], env, depth))
                if vkind(r) != 'bool':
                    raise Unsupported("`%s` on non-bool" % op)
                return z3.And(l, r) if op == 'and' else z3.Or(l, r)
            r = self.eval(e[3], env, depth)
            kl, kr = vkind(l), vkind(r)
            if kl != kr:
                raise Unsupported("`%s` on operands of different types" % op)
            if kl == 'int':
                if op in ('+', '-'):
                    v = l + r if op == '+' else l - r
                    self.prims.add('AddInt' if op == '+' else 'SubtractInt')
                    self.guard(z3.And(v >= I64_MIN, v <= I64_MAX), OVERFLOW)
                    return v
                self.prims.add({'==': 'EqualInt', '!=': 'EqualInt+Not', '<': 'LessThanInt', '<=': 'LessThanOrEqualInt',
                                '>': 'GreaterThanInt', '>=': 'GreaterThanOrEqualInt'}[op])
                return {'==': l == r, '!=': l != r, '<': l < r, '<=': l <= r, '>': l > r, '>=': l >= r}[op]
            if kl == 'bool' and op in ('==', '!='):
                return (l == r) if op == '==' else (l != r)
            raise Unsupported("`%s` on %s operands (would call T's own Equal/Ord)" % (op, kl))
        if k == 'index':
            a = self.eval(e[1], env, depth)
            i_ = self.eval(e[2], env, depth)
            if a is not SELF or vkind(i_) != 'int':
                raise Unsupported("indexing other than self[int]")
            self.prims.add('GetIndex')
            self.guard(z3.And(i_ >= 0, i_ < self.st.n), OOB)
            return z3.Select(self.st.arr, i_)
        if k == 'call':
            if e[1] in env:
                raise Unsupported("call of a local value `%s`" % e[1])
            return self.intrinsic(e[1], [self.eval(a, env, depth) for a in e[2]])
        if k == 'icall':
            if e[1] not in env or env[e[1]][0] is not SELF:
                raise Unsupported("`%s.%s(...)`: only method calls on the array itself are in the subset" % (e[1], e[2]))
            args = [SELF] + [self.eval(a, env, depth) for a in e[3]]
            return self.method(e[2], args, depth)
        if k == 'if':
            c = self.eval(e[1], env, depth)
            if vkind(c) != 'bool':
                raise Unsupported("`if` condition is not bool")
            before = self.st.copy()
            self.branch += 1
            try:
                tv = self.branch_stmt(e[2], env, depth)
                then_st = self.st
                self.st = before.copy()
                ev = self.branch_stmt(e[3], env, depth) if e[3] is not None else NILV
                else_st = self.st
            finally:
                self.branch -= 1
            self.st = State.merge(c, then_st, else_st)
            if e[3] is None or tv is NILV or ev is NILV:
                return NILV
            if vkind(tv) != vkind(ev):
                raise Unsupported("branches of different types")
            if tv is SELF:
                return SELF
            return z3.If(c, tv, ev)
        if k == 'block':
            return self.block(e[1], env, depth)
        raise Unsupported("expression form %s" % k)

    def branch_stmt(self, s, env, depth):
        if s[0] == 'expr':
            return self.eval(s[1], env, depth)
        raise Unsupported("`%s` statement as an if-branch" % s[0])


# ----------------------------------------------------------------------------- specifications

def inrange(i, n):
    return z3.And(i >= 0, i < n)


def same_list(a1, n1, a0, n0, k):
    """Pointwise equality at an ARBITRARY position k (k is free in the query = universally quantified)."""
    return z3.And(n1 == n0, z3.Implies(inrange(k, n0), a1[k] == a0[k]))


def count(arr, n, e, bound):
    return z3.Sum([z3.If(z3.And(j < n, arr[j] == e), 1, 0) for j in range(bound)])


class Run:
    """One symbolic run of a method from an arbitrary list."""

    def __init__(self, prelude, fn, argspec):
        self.a0 = z3.Const('a0', z3.ArraySort(z3.IntSort(), Elem))
        self.n0 = z3.Int('n0')
        self.k = z3.Int('k')
        self.e = z3.Const('e', Elem)
        self.args = {}
        self.pre = [self.n0 >= 0, self.n0 < MAX_LEN]
        for name, kind_ in argspec:
            if kind_ == 'int':
                v = z3.Int(name)
                self.pre += [v >= I64_MIN, v <= I64_MAX]
            else:
                v = z3.Const(name, Elem)
            self.args[name] = v
        st = State(self.a0, self.n0, z3.BoolVal(False), z3.IntVal(0))
        self.ev = ImpEvaluator(prelude, st)
        self.result = self.ev.method(fn, [SELF] + list(self.args.values()), 0, direct=False)
        self.st = self.ev.st

    @property
    def ok(self):
        return z3.Not(self.st.err)

    def oob(self):
        return z3.And(self.st.err, self.st.kind == OOB)

    def unchanged(self):
        return same_list(self.st.arr, self.st.n, self.a0, self.n0, self.k)


def spec_len(r):
    return z3.And(r.ok, r.result == r.n0, r.unchanged()), None


def spec_is_empty(r):
    return z3.And(r.ok, r.result == (r.n0 == 0), r.unchanged()), None


def spec_push(r):
    x = r.args['x']
    return z3.And(r.ok, r.st.n == r.n0 + 1, z3.Implies(inrange(r.k, r.n0), r.st.arr[r.k] == r.a0[r.k]),
                  r.st.arr[r.n0] == x, r.result is NILV), None


def spec_pop(r):
    nonempty = z3.And(r.ok, r.result == r.a0[r.n0 - 1], r.st.n == r.n0 - 1,
                      z3.Implies(inrange(r.k, r.n0 - 1), r.st.arr[r.k] == r.a0[r.k]))
    empty = z3.And(r.oob(), r.unchanged())
    return z3.If(r.n0 > 0, nonempty, empty), r.n0 == 0


def spec_swap(r):
    i, j, k = r.args['i'], r.args['j'], r.k
    both = z3.And(inrange(i, r.n0), inrange(j, r.n0))
    exchanged = z3.And(r.ok, r.st.n == r.n0,
                       z3.Implies(inrange(k, r.n0),
                                  r.st.arr[k] == z3.If(k == i, r.a0[j], z3.If(k == j, r.a0[i], r.a0[k]))))
    return z3.If(both, exchanged, r.oob()), z3.Not(both)


def spec_swap_unchanged(r):
    i, j = r.args['i'], r.args['j']
    both = z3.And(inrange(i, r.n0), inrange(j, r.n0))
    return z3.Implies(z3.Not(both), r.unchanged()), z3.Not(both)


def spec_remove(r):
    i = r.args['index']
    good = z3.And(r.ok, r.st.n == r.n0 - 1, r.result is NILV)
    bad = z3.And(r.oob(), r.unchanged())
    return z3.If(inrange(i, r.n0), good, bad), z3.Not(inrange(i, r.n0))


def spec_remove_perm(r):
    i = r.args['index']
    lhs = count(r.st.arr, r.st.n, r.e, PERM_BOUND) + z3.If(r.a0[i] == r.e, 1, 0)
    return z3.Implies(z3.And(r.n0 <= PERM_BOUND, inrange(i, r.n0)),
                      z3.And(r.ok, r.st.n == r.n0 - 1, lhs == count(r.a0, r.n0, r.e, PERM_BOUND))), z3.BoolVal(False)


def spec_remove_order(r):
    i, k = r.args['index'], r.k
    return z3.Implies(inrange(i, r.n0),
                      z3.And(r.ok, r.st.n == r.n0 - 1,
                             z3.Implies(inrange(k, r.n0 - 1), r.st.arr[k] == z3.If(k == i, r.a0[r.n0 - 1], r.a0[k])))), z3.BoolVal(False)


P_LIST = ("list model: the array is a finite list L of elements of an arbitrary type (uninterpreted sort), 0 <= |L| < 2^62; "
          "int arguments range over all of i64")

BODY_NOTE = ("  {this is the BODY of the prelude function, which runs when the method is used as a function value, e.g. "
             "`let f = array.push  f(a, x)`; a direct call `a.push(x)` / `a.len()` / `a.pop()` is inlined by the translator to the "
             "ArrayPush / ArrayLength / ArrayPop instruction (C26.codegen.array_members.fast_path), whose contract is proved in u5_array}")

# (id suffix, fn, args, spec fn, statement, flags)
SPECS = [
    ('len.model', 'len', [], spec_len,
     "L.len(): no error, result = |L|, L unchanged" + BODY_NOTE, {}),
    ('is_empty.model', 'is_empty', [], spec_is_empty,
     "L.is_empty(): no error, result <=> |L| = 0, L unchanged", {}),
    ('push.model', 'push', [('x', 'elem')], spec_push,
     "L.push(x): no error, L' = L ++ [x]" + BODY_NOTE, {}),
    ('pop.model', 'pop', [], spec_pop,
     "L.pop(): |L| > 0 -> no error, result = last(L), L' = L without its last element; "
     "|L| = 0 -> runtime error ArrayOutOfBounds and L unchanged" + BODY_NOTE, {}),
    ('swap.model', 'swap', [('i', 'int'), ('j', 'int')], spec_swap,
     "L.swap(i, j): 0 <= i,j < |L| -> no error, L'[i] = L[j], L'[j] = L[i], every other position and the length unchanged; "
     "otherwise (any index out of range) -> runtime error ArrayOutOfBounds", {}),
    ('swap.error_leaves_array_unchanged', 'swap', [('i', 'int'), ('j', 'int')], spec_swap_unchanged,
     "L.swap(i, j) with an index out of range: the array at the moment of the error equals L (no partial modification)",
     dict(unobservable=True)),
    ('remove.model', 'remove', [('index', 'int')], spec_remove,
     "L.remove(i): 0 <= i < |L| -> no error, |L'| = |L| - 1, result nil (which elements remain: remove.permutation); "
     "i < 0 or i >= |L| (including every i on the empty list) -> runtime error ArrayOutOfBounds and L UNCHANGED", {}),
    ('remove.permutation', 'remove', [('index', 'int')], spec_remove_perm,
     "L.remove(i), 0 <= i < |L|: L' is a permutation of L without exactly the element at position i, i.e. for EVERY value e, "
     "count(L', e) + [L[i] = e] = count(L, e).  The property does not fix the order of the remaining elements.",
     dict(bounded="multiset clause checked for |L| <= %d (counts are unrolled sums); for all lengths it follows from "
                  "remove.order_code_derived + remove.order_implies_permutation" % PERM_BOUND)),
    ('remove.order_code_derived', 'remove', [('index', 'int')], spec_remove_order,
     "CODE-DERIVED (not required by the property): L.remove(i), 0 <= i < |L|: swap-remove order, L'[k] = L[|L|-1] if k = i, "
     "else L[k], for k < |L| - 1", dict(code_derived=True)),
]


def lemma_order_implies_permutation():
    """Pure arithmetic lemma (no code): pi(k) = (k = i ? n-1 : k) is a bijection [0, n-1) -> [0, n) \\ {i}."""
    n, i, k1, k2, m = z3.Ints('n i k1 k2 m')
    pi = lambda k: z3.If(k == i, n - 1, k)          # noqa: E731
    inv = z3.If(m == n - 1, i, m)
    pre = z3.And(n >= 1, inrange(i, n))
    goal = z3.Implies(pre, z3.And(
        z3.Implies(inrange(k1, n - 1), z3.And(inrange(pi(k1), n), pi(k1) != i)),
        z3.Implies(z3.And(inrange(k1, n - 1), inrange(k2, n - 1), k1 != k2), pi(k1) != pi(k2)),
        z3.Implies(z3.And(inrange(m, n), m != i), z3.And(inrange(inv, n - 1), pi(inv) == m))))
    return goal


def solve(pre, goal, extra=()):
    s = z3.Solver()
    s.set('timeout', 30000)
    for p in pre:
        s.add(p)
    for x in extra:
        s.add(x)
    s.add(z3.Not(goal))
    return s, s.check()


def extract(r, m):
    """Concrete list (distinct element values -> 10, 20, ...) and arguments from a model."""
    n = m.eval(r.n0, model_completion=True).as_long()
    names = {}
    lst = []

    def el(t):
        v = str(m.eval(t, model_completion=True))
        if v not in names:
            names[v] = 10 * (len(names) + 1)
        return names[v]
    for j in range(min(n, 12)):
        lst.append(el(r.a0[j]))
    args = {}
    for name, v in r.args.items():
        args[name] = el(v) if v.sort() == Elem else m.eval(v, model_completion=True).as_long()
    fin_n = m.eval(r.st.n, model_completion=True).as_long()
    final = [el(r.st.arr[j]) for j in range(min(max(fin_n, 0), 12))]
    err = bool(z3.is_true(m.eval(r.st.err, model_completion=True)))
    kind_ = KIND_NAME.get(m.eval(r.st.kind, model_completion=True).as_long())
    res = r.result
    if res is NILV:
        resv = 'nil'
    elif res.sort() == Elem:
        resv = el(res)
    elif res.sort() == z3.BoolSort():
        resv = bool(z3.is_true(m.eval(res, model_completion=True)))
    else:
        resv = m.eval(res, model_completion=True).as_long()
    return dict(list=lst, length=n, truncated=n > 12, args=args,
                code=dict(outcome=('error ' + str(kind_)) if err else 'ok', final_list=final, result=None if err else resv))


def check_spec(prelude, suffix, fn, argspec, spec, stmt, flags):
    t0 = time.time()
    rec = dict(id="C26.prelude.array." + suffix, fn=fn, statement=stmt + "   [" + P_LIST + "]", flags=flags,
               args=[a for a, _ in argspec])
    try:
        r = Run(prelude, fn, argspec)
        goal, expects_error = spec(r)
        if goal is False or goal is True:
            goal = z3.BoolVal(goal)
        rec['blocks'] = dict(r.ev.used)
        rec['prims'] = sorted(r.ev.prims)
        rec['fast_path_calls'] = sorted(r.ev.fast)
        rec['via_value'] = fn in FAST_PATH
        s, res = solve(r.pre, goal)
        if res == z3.unsat:
            # vacuity: the run itself must be satisfiable and `false` must be refuted
            _, v = solve(r.pre, z3.BoolVal(False))
            if v != z3.sat:
                rec['status'], rec['detail'] = UNDECIDED, "vacuity canary: preconditions unsatisfiable"
            else:
                rec['status'], rec['detail'] = DISCHARGED, ""
        elif res == z3.sat:
            # prefer a SMALL counterexample whose violation is OBSERVABLE (not only the state after a fatal error)
            small = [r.n0 <= 4] + [z3.And(v >= -3, v <= 6) for v in r.args.values() if v.sort() == z3.IntSort()]
            model = None
            observable = False
            if expects_error is not None:
                s2, r2 = solve(r.pre, goal, small + [z3.Not(z3.And(r.st.err, r.st.kind == OOB, expects_error))])
                if r2 == z3.sat:
                    model, observable = s2.model(), True
            if model is None:
                s3, r3 = solve(r.pre, goal, small)
                model = s3.model() if r3 == z3.sat else s.model()
            cex = extract(r, model)
            cex['observable'] = observable or expects_error is None
            rec['cex'] = cex
            rec['status'] = FAILED
            rec['detail'] = ("list model refuted by z3 (sat): %s; counterexample L=%s, %s: the prelude code gives %s, final array %s%s"
                             % (stmt.split(':')[0], cex['list'], ", ".join("%s=%s" % kv for kv in cex['args'].items()) or "no arguments",
                                cex['code']['outcome'] + ("" if cex['code']['result'] is None else " result " + str(cex['code']['result'])),
                                cex['code']['final_list'],
                                "" if cex['observable'] else " (the deviation is only in the array state at the moment of the fatal error)"))
        else:
            rec['status'], rec['detail'] = UNDECIDED, "z3 returned unknown: %s" % s.reason_unknown()
    except Unsupported as e:
        rec['status'] = UNDECIDED
        rec['detail'] = "outside the accepted Abra subset / function not found: %s" % e
        rec.setdefault('blocks', {})
    rec['time_s'] = time.time() - t0
    return rec


def check_bounds(prelude):
    t0 = time.time()
    rec = dict(id="C26.prelude.array.bounds.model", fn='bounds', syntactic=True, flags=dict(syntactic=True), args=[],
               statement="SYNTACTIC: `bounds(self)` is exactly `range(0, self.len())` (the `range` constructor is outside the "
                         "evaluated subset; len is covered by len.model): bounds = the index range 0 .. |L|")
    try:
        f = prelude.extend_fn(RECV, 'bounds')
        rec['blocks'] = {f['header']: f['sha']}
        body = f['fn'].body
        if body[0] == 'block' and len(body[1]) == 1 and body[1][0][0] in ('expr', 'return'):
            body = body[1][0][1]
        rec['goal'] = AS.show(body)
        if f['fn'].params == ['self'] and body == ('call', 'range', [('int', 0), ('icall', 'self', 'len', [])]):
            rec['status'], rec['detail'] = DISCHARGED, ""
        else:
            rec['status'], rec['detail'] = UNDECIDED, "body `%s` is not `range(0, self.len())`" % AS.show(body)[:100]
    except Unsupported as e:
        rec['status'], rec['detail'] = UNDECIDED, "outside the accepted Abra subset / function not found: %s" % e
        rec.setdefault('blocks', {})
    rec['time_s'] = time.time() - t0
    return rec


def check_lemma():
    t0 = time.time()
    rec = dict(id="C26.prelude.array.remove.order_implies_permutation", fn='(lemma, no code)', flags=dict(lemma=True), args=[],
               blocks={}, statement="LEMMA (arithmetic only): for n >= 1 and 0 <= i < n, k -> (k = i ? n-1 : k) is a bijection from [0, n-1) onto "
                                    "[0, n) \\ {i}; hence the swap-remove order of remove.order_code_derived is a permutation of L without "
                                    "position i, for every length")
    s, res = solve([], lemma_order_implies_permutation())
    rec['status'] = DISCHARGED if res == z3.unsat else FAILED if res == z3.sat else UNDECIDED
    rec['detail'] = "" if res == z3.unsat else str(res)
    rec['time_s'] = time.time() - t0
    return rec


def canaries(prelude):
    """Deliberately wrong specifications must be REFUTED."""
    out = []
    wrong = [
        ('len', [], lambda r: (z3.And(r.ok, r.result == r.n0 + 1), None)),
        ('pop', [], lambda r: (r.ok, None)),
        ('swap', [('i', 'int'), ('j', 'int')], lambda r: (r.unchanged(), None)),
        ('remove', [('index', 'int')], lambda r: (z3.And(r.ok, r.st.n == r.n0), None)),
        ('push', [('x', 'elem')], lambda r: (r.st.n == r.n0, None)),
    ]
    for fn, argspec, sp in wrong:
        c = check_spec(prelude, fn + '.canary', fn, argspec, sp, "wrong on purpose", {})
        out.append(dict(fn=fn, status=c['status']))
    return out


def refused(prelude):
    """The loop-containing neighbours must be refused by the PARSER/cutter itself (and are also on a
    name list in ImpEvaluator.method), never evaluated."""
    out = {}
    for fn in LOOP_FNS:
        try:
            prelude.extend_fn(RECV, fn)
            out[fn] = "ACCEPTED BY THE PARSER (unexpected)"
        except Unsupported as e:
            out[fn] = "refused: %s" % str(e)[:140]
    return out


# ----------------------------------------------------------------------------- differential fidelity test

def concrete_cases():
    cases = []
    lists = [[], [10], [10, 20], [10, 20, 30]]
    for L in lists:
        cases.append(('len', L, {}))
        cases.append(('is_empty', L, {}))
        cases.append(('push', L, {'x': 99}))
        cases.append(('pop', L, {}))
        for i in range(-1, len(L) + 1):
            cases.append(('remove', L, {'index': i}))
            for j in range(-1, len(L) + 1):
                if len(L) <= 2 or (i, j) in ((0, 2), (2, 0), (1, 1), (3, 0), (0, 3), (-1, 1)):
                    cases.append(('swap', L, {'i': i, 'j': j}))
    return cases


ARGSPEC = {'len': [], 'is_empty': [], 'push': [('x', 'elem')], 'pop': [], 'swap': [('i', 'int'), ('j', 'int')],
           'remove': [('index', 'int')]}


def concrete_array(prelude_path):
    """What the evaluator predicts for concrete lists / arguments (same code path as the proofs), to be
    compared with the real CLI by __init__.fidelity()."""
    out = dict(cases=[])
    try:
        prelude = AS.Prelude(prelude_path)
        for fn, L, args in concrete_cases():
            r = Run(prelude, fn, ARGSPEC[fn])
            vals = sorted(set(L) | set(v for k, v in args.items() if k == 'x') | {10, 20, 30, 99})
            consts = {v: z3.Const('c%d' % v, Elem) for v in vals}
            s = z3.Solver()
            s.add(z3.Distinct(*consts.values()))
            s.add(r.n0 == len(L))
            for j, v in enumerate(L):
                s.add(r.a0[j] == consts[v])
            for name, v in args.items():
                s.add(r.args[name] == (consts[v] if name == 'x' else v))
            if s.check() != z3.sat:
                raise Unsupported("concrete case unsatisfiable")
            m = s.model()

            def el(t):
                for v, c in consts.items():
                    if z3.is_true(m.eval(t == c, model_completion=True)):
                        return v
                return None
            err = z3.is_true(m.eval(r.st.err, model_completion=True))
            fin_n = m.eval(r.st.n, model_completion=True).as_long()
            res = r.result
            if res is NILV:
                resv = 'nil'
            elif res.sort() == Elem:
                resv = el(res)
            elif res.sort() == z3.BoolSort():
                resv = bool(z3.is_true(m.eval(res, model_completion=True)))
            else:
                resv = m.eval(res, model_completion=True).as_long()
            out['cases'].append(dict(fn=fn, list=L, args=args, via_value=fn in FAST_PATH,
                                     outcome=('error ' + str(KIND_NAME[m.eval(r.st.kind, model_completion=True).as_long()])) if err else 'ok',
                                     result=None if err else resv,
                                     final=[el(r.st.arr[j]) for j in range(fin_n)]))
    except Unsupported as e:
        out['fatal'] = str(e)
    return out


def analyse_array(prelude_path, with_canaries=True):
    out = dict(obligations=[], canaries=[], notes={})
    try:
        prelude = AS.Prelude(prelude_path)
    except (Unsupported, OSError) as e:
        out['fatal'] = "cannot read/mask %s: %s" % (prelude_path, e)
        return out
    recs = [check_spec(prelude, *sp) for sp in SPECS]
    recs.append(check_lemma())
    recs.append(check_bounds(prelude))
    if with_canaries:
        out['canaries'] = canaries(prelude)
        vac = [c['fn'] for c in out['canaries'] if c['status'] != FAILED]
        for r in recs:
            if r['fn'] in vac and r['status'] == DISCHARGED and not r.get('syntactic'):
                r['status'] = UNDECIDED
                r['detail'] = "vacuity canary: a deliberately wrong specification of %s was not refuted" % r['fn']
        out['notes']['refused'] = refused(prelude)
    out['obligations'] = recs
    return out
