"""Reference LIST MODEL (plain Python, no imports) for the loop-containing array members of property C26:
clear, find, contains, filled, clone, iteration.  Written from the property statement, NOT from the
prelude code; used (a) by vcloops.py to say what the model expects next to a Z3 counterexample and
(b) by arrays_loops.py to judge what the real CLI prints in replay.

C26: "any sequence of array operations (... clear, find, contains, filled, clone, iteration) behaves like a
reference list model ... `clone` produces an independent deep copy."
"""

MEMBERS = ('clear', 'find', 'contains', 'filled', 'clone', 'iteration')

# the property and the book (standard_library.md: `array.filled(0, 5) // [0, 0, 0, 0, 0]`) only speak about n >= 0;
# for n < 0 the model follows what `for _ in n` means in the prelude (an empty range): the empty list.  CODE-DERIVED.
FILLED_NEGATIVE_NOTE = ("filled(x, n) with n < 0: neither the property nor the book says; decided from the code: `for _ in n` "
                        "is Iterable for int = RangeIterator(0, n), whose next() is .none at once when 0 >= n, so the result "
                        "is the EMPTY list and no error (code-derived clause)")


def first_index(L, x, eq=None):
    eq = eq or (lambda a, b: a == b)
    for i, e in enumerate(L):
        if eq(e, x):
            return i
    return None


def loop_model(fn, L, args):
    """-> dict(outcome, result, final[, returned, visited]).  L: the receiver list (None for filled)."""
    L = list(L or [])
    if fn == 'clear':
        return dict(outcome="ok", result='nil', final=[])
    if fn == 'find':
        i = first_index(L, args['x'])
        return dict(outcome="ok", result=('none' if i is None else 'some(%d)' % i), final=L)
    if fn == 'contains':
        return dict(outcome="ok", result=(first_index(L, args['x']) is not None), final=L)
    if fn == 'filled':
        n = args['n']
        return dict(outcome="ok", result='array', returned=[args['x']] * max(n, 0), final=[], code_derived=(n < 0))
    if fn == 'clone':
        # the copy has equal elements and is a DIFFERENT object: mutating either leaves the other alone
        return dict(outcome="ok", result='array', returned=list(L), final=L, independent=True)
    if fn == 'iteration':
        return dict(outcome="ok", result='nil', visited=list(L), final=L)
    raise ValueError(fn)
